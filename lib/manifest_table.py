"""Source of MANIFEST.json (bin/gen-manifest)."""
SETUP = "bin/setup"
HOOKS = {"guard": "verif",
         "enable": "bin/check builds harness/cmd/driver with `go build -tags verif -overlay harness/bin/overlay.json`: the overlay adds the add-only shim files of harness/shims as virtual files of /repo packages (bastion, client, omniwitness, feeder/sumdb; in-package test files for cmd/feedbastion and the bastion fuzz target; and, for the production binary built from /repo/cmd/omniwitness, one file in package main that points omniwitness.ConfigLogs at the file named by VERIF_LOGS_YAML); /repo itself carries no hook",
         "baseline_off_cmd": "cd /repo && GOFLAGS=-mod=mod go test -vet=off -count=1 ./...",
         "source_commits": [], "add_only": True}
ENGINES = [
    {"name": "tlc", "path": "/verif/spec", "kind_free_text": "TLA+ specification (WitnessCore, Witness, ...) checked, used as generator (every transition emitted as JSON) and as judge of recorded traces (Trace_*.tla) by TLC 1.8.0",
     "serves_properties": ["C01", "C02", "C03", "C04", "C05", "C06", "C07", "C08", "C09", "C10", "C11", "C12", "C13", "C14", "C15", "C16", "C17", "C18", "C19", "C20"]},
    {"name": "driver", "path": "/verif/harness", "kind_free_text": "Go harness (own module with replace => /repo): concretiser, independent RFC 6962 / signed-note reference, drivers that execute TLC-generated behaviours against the real code and record ndjson observations",
     "serves_properties": ["C01", "C02", "C03", "C04", "C08", "C09", "C12", "C16", "C20"]},
]
NOTES = "See DESIGN.md. Exit codes of bin/check: 0 held (KNOWN-FINDING lines allowed), 1 VIOLATION, 2 inconclusive (build/tool failure, vacuity, harness self-disagreement)."
NOT_APPLICABLE = {}

SEQ_NOTE = ("Trusted: TLC; the harness' abstraction function (size embeddings, root table, own note reader and ed25519 verification, own RFC 6962 reference, byte-equality tokens); "
            "ed25519 / SHA-256; bounded model constants stated in the evidence file. The model's VerifyOK abstraction is justified by MC_Merkle and cross-checked on concrete bytes by the reference verifier on every step.")


def seq(text, ref, technique="TLC model checking of Witness.tla + replay of every TLC-emitted transition into the real witness + TLC trace validation of the recorded run"):
    return {"engine": "tlc", "level": "model_checking", "text": text, "design_ref": ref, "note": SEQ_NOTE, "technique": technique}


OPS_NOTE = ("Trusted: TLC; the gate / fault / crash wrappers (transparent delegation to the real in-memory store and to mattn/go-sqlite3); SQLite's own atomic commit (tested by process kills, not proved); "
            "database/sql's connection pool semantics; the harness projection. Below storage-call granularity Go's memory model is covered only by the -race runs.")


def ops(level, text, ref, technique):
    return {"engine": "tlc", "level": level, "text": text, "design_ref": ref, "note": OPS_NOTE, "technique": technique}


CHECKS = {
    "C05": ops("model_checking", "TLC checks WitnessOps (refinement of the atomic witness: CommitIsAtomicAccept, NoRegress, Linearizable, ErrOnlyOnConflict) for the scenario menu on both stores, LISTS every interleaving at storage-call granularity for 2 and 3 processes (samples for 4), a gate scheduler forces each schedule on the real witness over the real stores, and TLC (Trace_Lin, silent linearization steps) judges every recorded invocation/response history; plus free-running goroutines under the race detector.", "DESIGN.md section 5 C05 The production binary (cmd/omniwitness as built from the tree, SQLite file, single connection as main() configures it) serves concurrent clients over the bastion connection it dials and its read API; those histories are judged by Trace_Lin too. The SqlN variant of WitnessOps (pool of connections) documents what SetMaxOpenConns(1) buys: TLC refutes ErrOnlyOnConflict for it and nothing else.",
               "TLC model checking of WitnessOps.tla + forced replay of every TLC-listed schedule + TLC linearizability trace validation"),
    "C06": ops("fault_enumeration", "Every real driver-operation boundary (before/after begin, query, exec, commit, rollback) of the update histories is a SIGKILL point of a child process on file-backed SQLite, plus random-instant kills; a fresh process reopens and probes; TLC (Trace_Crash) judges old-or-new, acknowledged-in-force, completeness; WitnessOps with the Crash action is model-checked for the same histories.", "DESIGN.md section 5 C06 The production binary (cmd/omniwitness --db_file) serves the same histories over a stub bastion, is SIGKILLed at random instants, restarted on the same file, read through its read API and probed; judged by the same monitors.",
               "TLC model checking of WitnessOps.tla with Crash + SIGKILL at every driver-operation boundary + TLC trace validation"),
    "C07": ops("fault_enumeration", "TLC lists every placement of up to 1 (thorough: 2) storage failures over the calls of the update histories (WitnessOps fault actions); each is injected at interface level and at SQL-driver level on a single-connection SQLite store and followed by fault-free probes; TLC evaluates the C07 monitors (no false success, failed read is not first use, failure has no effect, no leaked transaction, carries on).", "DESIGN.md section 5 C07",
               "TLC model checking of WitnessOps.tla with fault actions + replay of every TLC-listed fault placement + TLC trace validation"),
    "C01": seq("Exhaustive TLC check of the bounded adversarial model (AppendOnly, ChainInv); every transition of that model and random walks over it are executed on the real witness (both stores, several size embeddings up to 2^63) and TLC evaluates AppendOnly/ChainOK on the observed stored values and cosigned outputs.", "DESIGN.md section 5 C01"),
    "C02": seq("All authenticity classes x all states x all log ids (incl. logs sharing a key under different origins, unknown id) enumerated by TLC and executed; TLC evaluates Authentic on the observed verdict, returned bytes and stored state.", "DESIGN.md section 5 C02"),
    "C03": seq("Every refusal transition of the bounded models executed from its pre-state; TLC evaluates RefusalNoEffect on byte-level before/after snapshots of every log and the log list.", "DESIGN.md section 5 C03"),
    "C04": seq("Every accept transition x note shapes x witness key sets executed; the harness re-verifies each returned note with its own ed25519 code and TLC evaluates AcceptShape on the result; forced one-second waits expose stale cosignatures.", "DESIGN.md section 5 C04"),
    "C08": seq("Shortest path to every reachable state of the bounded model (and of the unguarded design variant) plus random walks, each followed by honest probes computed from the observed state; TLC evaluates HonestProgress. The size-0 wedge is a recorded known finding.", "DESIGN.md section 5 C08"),
    "C09": seq("TLC proves Decide = SpecVerdict on C09's domain of the bounded one-step model (all (stored, submitted, old) cubed x roots x proofs) and every such transition is executed on the real witness; TLC evaluates FirstMatch on the observed verdict and returned bytes, with the reference RFC 6962 verifier as third opinion on the proof bit.", "DESIGN.md section 5 C09"),
    "C10": {"engine": "tlc", "level": "model_checking", "design_ref": "DESIGN.md section 5 C10",
            "text": "TLC checks Bastion.tla (status table, 200 only when accepted, 429 not processed, documented statuses) and emits every transition (every body class x every verdict class x every witness state reached through the endpoint); each is executed in process against the real handler wired to the real witness; TLC (Trace_Bastion) judges status, content type, body class, cosignature validity and state; rate limiter judged on monotonic-time bounds.",
            "note": SEQ_NOTE + " The in-process handler is built by an add-only overlay shim exactly as FeedBastion builds it.",
            "technique": "TLC model checking of Bastion.tla + replay of every TLC-emitted transition through the real HTTP handler (in process, through the exported FeedBastion over TLS 1.3 + HTTP/2, and through the production binary) + TLC trace validation"},
    "C11": {"engine": "tlc", "level": "model_checking", "design_ref": "DESIGN.md section 5 C11",
            "text": "TLC enumerates every sequence of line tokens up to length 4 (thorough 5) with the grammar's verdict (ParseBody, GrammarSane); each is rendered with seeded values and fed to the real parseBody; Proof.Marshal/Unmarshal for every length 0..64; bodies written by cmd/feedbastion's own writer; TLC (Trace_Body) judges exact read-back and refusal without partial data. Structure exhaustive, byte values sampled.",
            "note": "Trusted: TLC, the token renderer (what was written is remembered by the harness), seeded value sampling; the VALUE domain (0..2^64-1, hash bytes, checkpoint bytes) is sampled, not enumerated.",
            "technique": "TLC enumeration of the body grammar of Bastion.tla + replay into the real parser and writers + TLC trace validation"},
    "C12": seq("TLC checks Isolation on the multi-log model (logs sharing a key); every transition is executed and judged on per-log byte snapshots; TLC-generated interleavings are compared with each log's history alone (AloneEqualsInterleaved). The identity half of C12 (same id on every interface, duplicates refused at start-up) is judged by the start-up trace spec.", "DESIGN.md section 5 C12"),
    "C13": {"engine": "tlc", "level": "model_checking", "design_ref": "DESIGN.md section 5 C13",
            "text": "TLC checks Feeder.tla composed with the atomic witness (Justified, NothingSentUnverified, ResultOK, liveness EventuallySucceeds / NeverCosignsFork without state constraint) and lists every terminated cycle for (witness size, log size) squared x fork/junk x unverifiable with every distribution of up to 2 (thorough 4) transient failures; each is replayed on the real feeder.FeedOnce with failure-injecting stubs in front of the real witness; TLC (Trace_Feeder) judges the recorded calls.",
            "note": "Trusted: TLC; the stubs (they fail exactly the calls the model behaviour says, and answer proofs like an honest server of the log's branch); durations are never judged (library backoff).",
            "technique": "TLC model checking of Feeder.tla (safety + liveness) + replay of every TLC-listed behaviour into feeder.FeedOnce + TLC trace validation"},
    "C14": {"engine": "tlc", "level": "model_checking", "design_ref": "DESIGN.md section 5 C14",
            "text": "TLC checks OmniRun.tla (StaysOnHistory; liveness CatchesUp under weak fairness of polling, no state constraint) and lists every growth/fork/restart schedule; schedules run on the real omniwitness.Main (real HTTP, real sumdb and tlog-tiles feeders, 250 ms polling) against stub log servers over generated trees crossing 255/256/257 and 65535/65536/65537, on in-memory and SQLite storage with restarts; TLC (Trace_Omni) judges what is served after each event. The size-0 wedge is a recorded known finding.",
            "note": "Trusted: TLC; stub log servers (x/mod's reference sumdb server, a tlog-tiles server over the harness' RFC 6962 reference); convergence deadline 100 poll intervals; wall-clock only bounds waiting, never decides a verdict other than 'did not converge within 100 intervals'.",
            "technique": "TLC model checking of OmniRun.tla (safety + liveness) + execution of TLC-listed schedules on the assembled service (omniwitness.Main in process, and the production binary with SIGKILL restarts) + TLC trace validation"},
    "C15": {"engine": "tlc", "level": "model_checking", "design_ref": "DESIGN.md section 5 C15",
            "text": "TLC checks Distributor.tla and enumerates every assignment of 8 witness answers x 6 distributor answers to 1..2 (thorough 1..3) logs plus sampled assignments for up to 6 logs; each is executed on the real DistributeOnce with a stub witness and a stub distributor; TLC (Trace_Dist) judges PUTs (only verified, identical bytes, path names id and witness), per-log accounting and the overall result.",
            "note": "Trusted: TLC; the stub witness answers are built by the harness' own note code; a 307 whose target answers 200 counts as delivered.",
            "technique": "TLC model checking of Distributor.tla + replay of every TLC-enumerated scenario into DistributeOnce + TLC trace validation"},
    "C16": seq("Histories over 1..3 logs with the registered mux handlers and the bundled client in the loop; TLC evaluates ReadExact / LogListExact / OddId (17 odd-id classes, before and after redirects) on the observed responses.", "DESIGN.md section 5 C16"),
    "C17": {"engine": "tlc", "level": "model_checking", "design_ref": "DESIGN.md section 5 C17",
            "text": "The start-up machine of Omni.tla is model-checked over all configurations of 1..2 entries (StartsIffCoherent, MapAndFeedersAgree) and the real Main is run on them; the shipped logs.yaml / logs_test.yaml of the working tree are walked through Main's own functions step by step and through Main itself; TLC (Trace_Start) requires the start-up trace of the shipped data to be an accepted, coherent, serving one.",
            "note": "A check of shipped data: the model contributes the start-up semantics and the trace binding. URL reachability is not claimed (no network).",
            "technique": "TLC model checking of Omni.tla start-up + execution of shipped and TLC-enumerated configurations through the real start-up path + TLC trace validation"},
    "C18": {"engine": "tlc", "level": "model_checking", "design_ref": "DESIGN.md section 5 C18",
            "text": "TLC evaluates TilePath.tla on levels 0..7 x every carry boundary of the path encoding (+ seeded indices up to 10^9) x widths; the real SumDB client's requests must equal the specified path and tlog.Tile.Path() and be parsed back by the reference; the real sumdb feeder builds proofs for ALL pairs 1 <= from < to <= 300 (thorough 1200) plus samples to 2^20 against a stub SumDB in front of the real witness; TLC (Trace_Tile) requires acceptance by the independent verifier and the witness.",
            "note": "Indices are sampled with every carry boundary included; the stub SumDB is x/mod's reference server over a generated tree.",
            "technique": "TLC evaluation of TilePath.tla + replay into the real SumDB client / feeder + TLC trace validation"},
    "C19": {"engine": "tlc", "level": "exploration", "design_ref": "DESIGN.md section 5 C19",
            "text": "Totality.tla (no Panic / Hang action; TLC-checked) enumerates the hostile-server menu; every scenario runs one real feed cycle of the real sumdb / tiles / pixel / rekor / serverless feeder in a child process under a watchdog; seeded random and mutated bytes go to parseBody and Proof.Unmarshal; TLC-emitted endpoint requests of every class plus seeded byte-level mutations go to the real handler; TLC (Trace_Total, Trace_Bastion) accepts only result / error / documented statuses. Exploration level: byte-level diversity comes from generators.",
            "note": "A hang is reported only after two attempts (20 s and 40 s against a 1.2 s cycle context). Input bytes are sampled (seeded).",
            "technique": "TLC enumeration of the hostile-input menu of Totality.tla + execution against the real feeders, parsers and endpoint under a watchdog + TLC trace validation"},
    "C20": seq("Decision-table transitions and random multi-log histories executed in a dedicated process with a recording MetricFactory; TLC evaluates CountersTrue on counters read after every step.", "DESIGN.md section 5 C20"),
}
