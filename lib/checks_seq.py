"""Checks of the sequential family: one generic pipeline, one list of plans per property and tier."""
import json, random, re, shutil, subprocess
from vlib import *
from seqfam import *

CHECKS = {}


def good_known(e):
    return e.get("e") == "update" and e.get("req", {}).get("auth") == "good" and e.get("v") != "UnknownLog"


def any_update(e):
    return e.get("e") == "update"


def refusal(e):
    return e.get("e") == "update" and e.get("v") != "Accept"


def accept(e):
    return e.get("e") == "update" and e.get("v") == "Accept"


def honest_req(state, n):
    """the honest growth / refresh request from abstract stored value `state` to size n (None if n is smaller)"""
    if state.get("none"):
        old, pf = 0, {"k": "empty"}
    else:
        if n < state["n"]:
            return None
        old = state["n"]
        pf = {"k": "empty"} if (state["n"] == n or state["n"] == 0) else {"k": "right", "b": 0, "m": state["n"], "n": n}
    return {"auth": "good", "old": old, "b": 0, "n": n, "extra": 0, "stale": 0, "ext": 0, "pf": pf}


def probe_runs(c, base_steps, final, prefix, counter):
    runs = []
    for l in sorted(c["Logs"]):
        st = final[l]
        if not (st.get("none") or st["b"] == 0):
            continue
        for n in range(c["MaxSize"] + 1):
            if honest_req(st, n):
                # the driver computes the honest request from the OBSERVED stored state, so the probe stays
                # honest even when the implementation has drifted from the model on the way here
                counter[0] += 1
                runs.append({"id": "%s%d" % (prefix, counter[0]), "steps": base_steps + [{"op": "probe", "log": l, "n": n, "ext": counter[0] % 2}]})
    return runs


class Plan:
    def __init__(self, name, c, spec="Spec", edges=True, nwalks=0, depth=20, stores=("inmem",), embeds=("id",), http=False,
                 keyof=None, probes=False, want=None, extra_runs=None, max_edges=None, reads=False, edge_cap=None):
        self.__dict__.update(locals())


def tagname(s):
    return "".join(ch if ch.isalnum() else "_" for ch in s)


def merkle_link(work, rep, tier):
    """MC_Merkle: the transcription of the pinned merkle verifier over a free term algebra agrees with the abstract
    VerifyOK on the whole request menu (ASSUME MenuOK, Sound, RootIdFaithful); the emitted vectors are run through the
    real proof.VerifyConsistency, the harness' own verifier and tlog.CheckTree."""
    n, fork, nb = (7, "Fork_3_1", 3) if tier == "quick" else (12, "Fork_8_3", 3)
    c = {"Logs": {"l1"}, "MaxSize": n, "NBranch": nb, "ForkAt": Sub(fork), "MaxLines": 6, "NWitKeys": 2, "ZeroWedge": True, "PadGuard": True, "EmitVectors": True}
    cfg = cfg_text(init_next=("MInit", "MNext"), constants=c)
    r = tlc(work, "MC_Merkle", cfg, name="merkle", workers=4, timeout=3000)
    if not r.ok:
        raise Inconclusive("MC_Merkle failed (the abstract VerifyOK is not justified): %s\n%s" % (r.error or r.violated, r.out[-2000:]))
    vec = work.path("vectors.jsonl")
    vs = r.prints("VEC")
    open(vec, "w").write("\n".join(vs) + "\n")
    o, dt = run_driver(["merkle", "-in", vec])
    os.remove(vec)
    m = re.search(r"MERKLE vectors=(\d+) accepted=(\d+) disagree_real=(\d+) disagree_ref=(\d+) disagree_tlog=(\d+)", o)
    if not m:
        raise Inconclusive("merkle driver output not understood: " + o[-500:])
    rep.cov["merkle_link"] = {"sizes": "0..%d" % n, "branches": nb, "vectors": int(m.group(1)), "accepted": int(m.group(2)),
                              "disagree_dependency": int(m.group(3)), "disagree_reference": int(m.group(4)), "disagree_tlog": int(m.group(5))}
    if int(m.group(3)) or int(m.group(4)) or int(m.group(5)):
        raise Inconclusive("the specification's transcription of the consistency verifier disagrees with the pinned dependency / the references on %s vectors: %s"
                           % (m.group(3), o[-800:]))


def tlaps_chain(work, rep):
    """unbounded chain invariant (everything ever cosigned is a prefix of what is held) from Merkle soundness + transitivity"""
    d = work.sub("tlaps")
    shutil.copy(os.path.join(SPEC, "ChainProof.tla"), d)
    try:
        rc, out, dt = sh(["tlapm", "--threads", str(NCPU), "--cleanfp", "ChainProof.tla"], cwd=d, timeout=900)
    except subprocess.TimeoutExpired:
        rep.notes.append("tlapm timed out; unbounded chain proof not re-checked in this run")
        return
    m = re.search(r"All (\d+) obligations? proved", out)
    if m:
        rep.cov["tlaps_chain_proof"] = {"obligations": int(m.group(1)), "discharged": int(m.group(1)), "wall_s": round(dt, 1),
                                        "assumes": ["Prefix reflexive/transitive", "Merkle soundness (checked bounded by MC_Merkle)"]}
    else:
        rep.notes.append("tlapm did not prove all obligations of ChainProof.tla: " + out[-400:])


# how many runs of each plan are repeated with an upgrade over a released database in the middle (quick tier; x4 in the thorough tier)
# properties whose runs are repeated with passes of the REST distributor (a reader inside the process) between the requests
DISTRIBUTE = {"C01": 40, "C03": 40, "C04": 60, "C08": 40, "C16": 40, "C20": 30}
MIGRATE = {"C01": 150, "C02": 60, "C03": 60, "C04": 40, "C08": 60, "C09": 200, "C12": 40, "C16": 40, "C20": 40}


# checks that also get the runs in which the log list changes between restarts (Retire.tla / Trace_Retire.tla)
RETIRE = {"C01", "C02", "C03", "C08", "C09", "C12", "C16", "C20"}
RETIRE_PROPS = ["RetiredFrozen", "RetiredRefused", "ReadsIgnoreConf", "ReconfKeepsStore", "OneHistory"]


def judge_retire(work, rep, c, trace, events):
    """TLC first checks Retire.tla itself on the constants of the plan (every property across every change of the log list), then judges the trace."""
    rc = {k: v for k, v in c.items() if k in ("Logs", "MaxSize", "NBranch", "ForkAt", "MaxLines", "NWitKeys", "ZeroWedge", "PadGuard", "Olds", "BadAuths")}
    name = "MC_Retire(%d logs, 0..%d)" % (len(c["Logs"]), c["MaxSize"])
    cfg = cfg_text(spec=None, init_next=("RInit", "RNext"), constants=rc, invariants=["RTypeOK", "CarriesOn"], properties=RETIRE_PROPS, view="RView")
    r = require_ok(tlc(work, "MC_Retire", cfg, name="retire-design", timeout=1200), "design check " + name)
    rep.add_model(name, r)
    jc = dict(rc)
    jc["TraceFile"] = trace
    cfg = cfg_text(spec="TraceSpec", constants=jc, action_constraints=["Monitor"], postcondition="Done")
    r = tlc(work, "MC_Trace_Retire", cfg, name="judge-retire", workers=1, timeout=3600, heap="12g")
    if not r.ok:
        raise Inconclusive("judge (Trace_Retire) failed: %s\n%s" % (r.error or r.violated, r.out[-3000:]))
    nconf = sum(1 for e in events if e.get("e") == "conf")
    nref = sum(1 for e in events if e.get("e") == "update" and e.get("v") == "UnknownLog")
    rep.cov["reconfigurations_executed"] = rep.cov.get("reconfigurations_executed", 0) + nconf
    rep.cov["requests_for_a_retired_log"] = rep.cov.get("requests_for_a_retired_log", 0) + nref
    if not nconf or not nref:
        raise Inconclusive("reconfiguration runs executed no reconfiguration / no request for a retired log (%d, %d)" % (nconf, nref))
    return [["FAIL", f["id"], f["name"], f["i"], f["run"], f["k"], f["sig"]] for f in map(json.loads, r.prints("FAIL"))]


# checks whose first two-key plan also gets the runs over a store left behind by an earlier incarnation of the witness (restored_runs)
RESTORED = {"C01", "C03", "C04", "C08", "C09"}


def make_check(prop, plans_of, rule, nontrivial, level="model_checking", assumptions=(), post=None, pre=None, post_all=None):
    def check(work, tier, seed, replay):
        if replay:
            return replay_seq(prop, work, replay)
        rep = Report(prop, tier, seed, level)
        rng = random.Random(seed)
        build_driver()
        if pre:
            pre(work, rep, tier)
        for pl in plans_of(tier):
            c = pl.c
            r, edges = model_check(work, rep, pl.name, c, spec=pl.spec, edge_cap=pl.edge_cap, rng=rng)
            g = Graph(edges)
            init = {l: {"none": True} for l in sorted(c["Logs"])}
            runs = []
            if pl.edges:
                es = edges
                if pl.max_edges and len(es) > pl.max_edges:
                    es = rng.sample(es, pl.max_edges)
                    rep.cov["exhaustive"] = False
                runs += runs_from_edges(es, c["NWitKeys"])
            wk = walks(g, init, pl.nwalks, pl.depth, rng, want=pl.want) if pl.nwalks else []
            if pl.reads:
                for run, _ in wk:
                    st2 = []
                    for s_ in run["steps"]:
                        st2.append(s_)
                        if s_["op"] == "update" and rng.random() < 0.5:
                            st2.append({"op": "get", "log": s_["log"]})
                        if rng.random() < 0.2:
                            st2.append({"op": "getlogs"})
                    run["steps"] = st2
            runs += [run for run, _ in wk]
            if pl.probes:
                cnt = [0]
                paths = g.shortest_paths(init)
                states = g.states()
                states[key(init)] = init
                for k, path in paths.items():
                    runs += probe_runs(c, [act_step(e["act"]) for e in path], states[k], "p", cnt)
                for run, final in wk:
                    runs += probe_runs(c, run["steps"], final, "wp", cnt)
            if pl.extra_runs:
                runs += pl.extra_runs(c, g, rng)
            if prop in RESTORED and c["NWitKeys"] == 2 and not rep.cov.get("restored_store_runs"):
                rr = restored_runs(c)
                runs += rr
                rep.cov["restored_store_runs"] = len(rr)
            # upgrade over existing data: a sample of the same runs on file-backed SQLite, with the file replaced half-way by one written the way
            # the release under verification writes it (pinned schema and parameter binding) and the witness restarted on it
            nmig = MIGRATE.get(prop, 0) if tier == "quick" else 4 * MIGRATE.get(prop, 0)
            passes = [(runs, list(pl.stores), list(pl.embeds), tagname(pl.name), pl.name)]
            if nmig:
                mig = []
                for r_ in rng.sample(runs, min(len(runs), nmig)):
                    st_ = r_.get("steps") or []          # (multi-phase runs are left alone)
                    if len(st_) >= 2:
                        pos = rng.randrange(1, len(st_))
                        mig.append({"id": r_["id"] + "-mig", "steps": st_[:pos] + [{"op": "migrate"}] + st_[pos:]})
                if prop == "C01":
                    # the log's KEY IS REPLACED in the configuration (same origin) and the witness restarted on the same database: what it holds was signed
                    # with the old key. Requests signed with the new key follow (first use, every size, the other branch): no second history may begin.
                    for r_ in rng.sample(runs, min(len(runs), nmig // 2)):
                        st_ = r_.get("steps") or []
                        named = sorted({x["log"] for x in st_ if x.get("op") == "update" and x.get("log") in c["Logs"]})
                        if named:
                            L = rng.choice(named)
                            newkey = [{"op": "update", "log": L, "req": {"auth": "unknownkey", "old": o_, "b": b_, "n": n_, "extra": 0, "stale": 0, "ext": 0, "pf": {"k": "empty"}}}
                                      for n_ in range(1, c["MaxSize"] + 1) for b_ in (1, 0) for o_ in (0, n_)] * 2
                            mig.append({"id": r_["id"] + "-rekey", "steps": st_ + [{"op": "migrate", "cls": "rekey", "log": L}] + newkey + [{"op": "get", "log": L}]})
                if prop == "C16":
                    # a log is RETIRED: the operator drops it from the configuration and restarts on the same database. The witness takes no more
                    # updates for it, but what it holds is still what it holds: listed, and served byte for byte (only reads follow the restart)
                    for r_ in rng.sample(runs, min(len(runs), nmig)):
                        st_ = r_.get("steps") or []
                        named = sorted({x["log"] for x in st_ if x.get("op") == "update" and x.get("log") in c["Logs"]})
                        if named:
                            L = rng.choice(named)
                            mig.append({"id": r_["id"] + "-retire", "steps": st_ + [{"op": "migrate", "cls": "retire", "log": L}, {"op": "get", "log": L}, {"op": "getlogs"}]
                                        + [{"op": "get", "log": x} for x in sorted(c["Logs"])]})
                if mig:
                    passes.append((mig, ["sqlfile"], ["id"], tagname(pl.name) + "mig", pl.name + " + upgrade over a released database"))
                if prop in RETIRE and not rep.cov.get("reconfiguration_runs"):
                    # the CONFIGURATION changes (Retire.tla: `conf` is a variable, Reconfigure an environment action): a log is retired, requests of every
                    # kind follow for it (refused outright: no bytes, no effect, no counter) and for the others (as ever), it is read and listed, then
                    # reinstated - and an honest log carries on from what was kept; retired again, reinstated again. Judged by Trace_Retire.
                    ret = []
                    for r_ in rng.sample(runs, min(len(runs), nmig)):
                        st_ = r_.get("steps") or []
                        named = sorted({x["log"] for x in st_ if x.get("op") in ("update", "probe") and x.get("log") in c["Logs"]})
                        if not named:
                            continue
                        L = rng.choice(named)
                        others = [x for x in sorted(c["Logs"]) if x != L]
                        sizes = list(range(0, c["MaxSize"] + 1))
                        bad = lambda n_: {"op": "update", "log": L, "req": {"auth": "badsig", "old": 0, "b": 0, "n": n_, "extra": 0, "stale": 0, "ext": 0, "pf": {"k": "empty"}}}
                        fresh = lambda n_, b_: {"op": "update", "log": L, "req": {"auth": "good", "old": 0, "b": b_, "n": n_, "extra": 0, "stale": 0, "ext": 0, "pf": {"k": "empty"}}}
                        reads = [{"op": "get", "log": L}, {"op": "getlogs"}] + [{"op": "get", "log": x} for x in others]
                        while_retired = ([{"op": "probe", "log": L, "n": n_} for n_ in sizes] + [bad(rng.choice(sizes))]
                                         + [fresh(n_, b_) for n_ in sizes[1:] for b_ in (0, 1)]
                                         + [{"op": "probe", "log": x, "n": rng.choice(sizes)} for x in others])
                        rng.shuffle(while_retired)
                        back = [{"op": "probe", "log": L, "n": n_} for n_ in sorted(rng.sample(sizes, 2))] + [fresh(rng.choice(sizes[1:]), 1)]
                        ret.append({"id": r_["id"] + "-reconf", "steps": st_ + [{"op": "migrate", "cls": "retire", "log": L}] + reads + while_retired + reads
                                    + [{"op": "migrate", "cls": "restart"}] + back + reads
                                    + [{"op": "migrate", "cls": "retire", "log": L}, {"op": "probe", "log": L, "n": c["MaxSize"]}, {"op": "migrate", "cls": "restart"},
                                       {"op": "probe", "log": L, "n": c["MaxSize"]}] + reads})
                    if ret:
                        rep.cov["reconfiguration_runs"] = len(ret)
                        passes.append((ret, ["sqlfile"], ["id"], tagname(pl.name) + "ret", pl.name + " + the log list changes (retire / reinstate, Retire.tla)", "retire"))
            ndist = DISTRIBUTE.get(prop, 0) if tier == "quick" else 4 * DISTRIBUTE.get(prop, 0)
            if ndist:
                # the witness' own REST distributor makes a pass between the requests (environment step "distribute" of Witness.tla: it only READS
                # the latest checkpoints); every property has to survive it, on the store that hands out its bytes (in-memory) and on SQLite
                dr = []
                for r_ in rng.sample(runs, min(len(runs), ndist)):
                    st_ = r_.get("steps") or []
                    if len(st_) >= 2:
                        out_ = []
                        for x_ in st_:
                            out_.append(x_)
                            if x_.get("op") in ("update", "probe"):
                                out_.append({"op": "distribute"})
                        dr.append({"id": r_["id"] + "-dist", "steps": out_ + [{"op": "distribute"}] + [{"op": "get", "log": l_} for l_ in sorted(c["Logs"])]})
                if dr:
                    passes.append((dr, ["inmem", "sqlmem"], ["id"], tagname(pl.name) + "dist", pl.name + " + distributor passes between the requests"))
            for runs_, stores_, embeds_, tag_, pname_, *which_ in passes:
                trace, runs_path = execute(work, rep, c, runs_, stores_, embeds_, seed, http=pl.http, keyof=pl.keyof, tag=tag_)
                events = index_trace(trace)
                if which_ == ["retire"]:
                    fails = judge_retire(work, rep, c, trace, events)
                else:
                    fails = judge_chunks(work, rep, c, trace, events)
                count_events(rep, events, nontrivial)
                settle(rep, prop, fails, events, c)
                if post:
                    post(rep, pl, events)
                npick = 0
                for e in events:
                    if nontrivial(e):
                        rep.sample(e)
                        npick += 1
                        if npick >= 2:
                            break
                rep.cov.setdefault("plans", []).append({"plan": pname_, "runs": len(runs_), "events": len(events), "stores": stores_,
                                                        "embeddings": embeds_, "http": pl.http})
                if hasattr(events, "close"):
                    events.close()
                os.remove(trace)
        finish_counts(rep)
        if post_all:
            post_all(work, rep, tier, seed)
        rep.cov["rule"] = rule
        rep.cov.setdefault("exhaustive", True)
        rep.assumptions += ["ed25519 and SHA-256 are secure", "harness projection (root table, own note reader, own RFC 6962 reference) is correct",
                            "TLC evaluates the formulas correctly"] + list(assumptions)
        if rep.cov["distinct_nontrivial"] < 2:
            raise Inconclusive("vacuous run: fewer than 2 non-trivial cases were exercised")
        return rep.finish()
    return check


def replay_seq(prop, work, path):
    """re-executes the recorded run of a violation (sequential family) and judges it again"""
    d = json.load(open(path))
    print(json.dumps({k: d[k] for k in d if k != "observed_run"}, indent=1)[:3000])
    evs = d.get("observed_run") or []
    ups = [e for e in evs if e.get("e") in ("update", "get", "getlogs")]
    if not ups or "constants" not in d or "MaxSize" not in d["constants"]:
        print("this replay file does not describe a sequential run; re-running the quick check instead")
        return CHECKS[prop](work, "quick", seed_from_env(), None)
    c = {}
    for k, v in d["constants"].items():
        if k == "TraceFile":
            continue
        c[k] = Sub(v) if k == "ForkAt" else (set(v) if isinstance(v, list) else v)
    steps = []
    for e in ups:
        if e["e"] == "update":
            steps.append({"op": "update", "log": e["log"], "req": e["req"], **({"faults": e["fired"]} if e.get("fired") else {})})
        elif e["e"] == "get":
            steps.append({"op": "get", "log": e["log"]})
        else:
            steps.append({"op": "getlogs"})
    parts = d["run"].rsplit("-", 3)
    store, embed, seed = (parts[1], parts[2], int(parts[3])) if len(parts) == 4 else ("inmem", "id", 1)
    rep = Report(prop, "quick", seed, "model_checking")
    build_driver()
    keyof = KEYOF if len(c["Logs"]) > 1 else None
    trace, _ = execute(work, rep, c, [{"id": parts[0], "steps": steps}], [store], [embed], seed, keyof=keyof, tag="replay")
    events = index_trace(trace)
    fails = judge(work, rep, c, trace)
    bad = [f for f in fails if f[1] == prop]
    for f in bad:
        print("FAIL again: %s/%s at step %s: %s" % (f[1], f[2], f[5], json.dumps(events[f[3] - 1])[:400]))
    if bad:
        print("VIOLATION property=%s replay=%s" % (prop, path))
        return 1
    print("the recorded run no longer violates %s on the current tree" % prop)
    return 0


def judge_chunks(work, rep, c, trace, events, chunk=120000):
    """Judges the trace in chunks that start at run boundaries (one JVM per chunk)."""
    if len(events) <= chunk:
        return judge(work, rep, c, trace)
    fails = []
    start, part, n = 0, 0, 0
    out, p = None, None
    with open(trace) as f:
        for line in f:
            # (a run of several phases - each phase begins with its own reset event - is never split: the judge compares its phases)
            if out is None or (n - start >= chunk and line.startswith('{"e":"reset"') and '"phase":0,' in line):
                if out is not None:
                    out.close()
                    for fl in judge(work, rep, c, p, name="judge%d" % part):
                        fl[3] += start
                        fails.append(fl)
                    os.remove(p)
                    part += 1
                    start = n
                p = work.path("chunk%d.ndjson" % part)
                out = open(p, "w")
            out.write(line)
            n += 1
    if out is not None:
        out.close()
        for fl in judge(work, rep, c, p, name="judge%d" % part):
            fl[3] += start
            fails.append(fl)
        os.remove(p)
    return fails


# ----------------------------------------------------------------------------- configurations

def H(tier, **kw):
    """adversarial single-log model: main + fork(s) + junk, every old size, every proof class"""
    if tier == "quick":
        c = consts(MaxSize=3, NBranch=2, ForkAt=Sub("Fork_2"), Olds={0, 1, 2, 3, 4})
    else:
        c = consts(MaxSize=4, NBranch=3, ForkAt=Sub("Fork_2_0"), Olds={0, 1, 2, 3, 4, 5})
    c.update(kw)
    return c


def W2(tier, **kw):
    """several logs; l1 and l2 share one key under different origins (the Rekor-shard situation)"""
    if tier == "quick":
        c = consts(Logs={"l1", "l2"}, MaxSize=1, NBranch=1, ForkAt=Sub("Fork_2"), Olds={0, 1, 2}, BadKinds={"random"},
                   BadAuths={"badsig", "peercp"})
    else:
        c = consts(Logs={"l1", "l2", "l3"}, MaxSize=1, NBranch=1, ForkAt=Sub("Fork_2"), Olds={0, 1, 2}, BadKinds={"random"},
                   BadAuths={"badsig", "peercp"})
    c.update(kw)
    return c


KEYOF = {"l1": "shared", "l2": "shared", "l3": "own3", "l4": "shared", "l5": "own5"}


def PAD(tier, nwit, **kw):
    """note shapes: extra unknown signature lines up to the format limit, stale witness lines, extension lines"""
    c = consts(MaxSize=2, NBranch=1, ForkAt=Sub("Fork_2"), Olds={0, 1, 2}, NWitKeys=nwit, MaxLines=6,
               Extras={0, 1, 6 - nwit - 1, 6 - nwit, 5, 6}, Stales={0, 1}, Exts={0, 1}, BadKinds={"random"}, BadAuths={"badsig"}, WithUnknown=False)
    c.update(kw)
    return c


def DEC(ms, **kw):
    c = consts(MaxSize=ms, NBranch=2, ForkAt=Sub("Fork_2"), Olds=set(range(ms + 2)), BadAuths={"badsig"}, WithUnknown=True)
    c.update(kw)
    return c


Q_EMB, T_EMB = ("id", "pow2"), ("id", "pow2", "mixed", "huge")
Q_ST, T_ST = ("inmem", "sqlmem"), ("inmem", "sqlmem", "sqlfile")
want_accept = lambda e: e["act"].get("v") == "Accept"

# ----------------------------------------------------------------------------- C01

ENV_ALL = {"restart", "upgrade", "distribute", "future", "legacyonly"}


def want_env_or_accept(e):
    return e["act"].get("a") == "env" or want_accept(e)


def env_plan(tier, **kw):
    """the model with the environment steps of Witness.tla switched on (restart, upgrade of the store, a stored checkpoint left by an earlier
    incarnation of the witness): TLC checks every property across them; walks that take them run on the in-memory store and on file-backed SQLite"""
    c = H("quick", EnvActions=ENV_ALL, BadKinds={"flip", "random"}, BadAuths={"badsig", "peercp"}, **kw)
    return Plan("MC_Witness(hist + environment steps)", c, edges=False, nwalks=150 if tier == "quick" else 1200, depth=24, stores=("inmem", "sqlfile"), embeds=("id",), want=want_env_or_accept)


def c01_plans(tier):
    if tier == "quick":
        return [Plan("MC_Witness(hist,0..3)", H(tier), nwalks=300, depth=25, stores=Q_ST, embeds=("id", "huge"), want=want_accept), env_plan(tier)]
    return [Plan("MC_Witness(hist,0..4,2 forks)", H(tier), nwalks=3000, depth=40, stores=T_ST, embeds=T_EMB, want=want_accept), env_plan(tier)]


def c01_concurrent(work, rep, tier, seed):
    """"No sequence of update requests, however chosen" also when they overlap: every TLC-listed interleaving of conflicting first use, forks and
    growth from the same old size, on both stores (and the in-memory interleavings forced on SQLite); Trace_Hist requires everything handed out as
    accepted, and what is held at the end, to lie on one append-only history."""
    import opsfam
    evs = opsfam.concurrent_histories(work, rep, tier, seed, "C01")
    rep.cov["evaluations"] += sum(1 for e in evs if e.get("e") == "ret")
    rep.cov["accepts_under_concurrency"] = sum(1 for e in evs if e.get("e") == "ret" and e.get("v") == "Accept")
    c01_two_instances(work, rep, tier, seed)
    # the history is the chain of stored checkpoints: with the store failing at TLC-listed places (begin, query, exec, COMMIT, close; SQL-driver level)
    # every cosignature handed out is for a checkpoint that is held afterwards, and what is held never regresses
    import checks_ops
    fev, _ = checks_ops.fault_pipeline(work, rep, "quick", seed, "C01", groups={"driver"})
    fups = [e for e in fev if e.get("e") == "update"]
    rep.cov["evaluations"] += len(fups)
    rep.cov["accepts_with_the_store_in_trouble"] = sum(1 for e in fups if e.get("fired") and e.get("v") == "Accept")


def c01_two_instances(work, rep, tier, seed):
    """The witness is its key and its database, not a process: two instances of the production binary (old and new process of a rolling upgrade, a
    second replica) serve the SAME database file with the SAME key. This is the SqlN variant of WitnessOps (several connections, SQLite's file locks;
    TLC: every safety property of the family holds there) bound to the code. Clients of both instances submit the two sides of a fork, the same step
    with right and wrong proofs, different steps from the same old size; Trace_Hist: everything either instance handed out as accepted lies on one history."""
    import checks_ops, opsfam
    from vlib import build_prod_binary, write_runs, run_driver, read_ndjson
    rng = random.Random(seed * 104729 + 1)
    binp = build_prod_binary()
    nruns = 40 if tier == "quick" else 300
    runs = [{"id": "two-%d" % j, "mode": "free", "db0": opsfam.db0_of("s1"), "prog": checks_ops.twin_programs(rng, 4), "sched": []} for j in range(nruns)]
    rp, tp = work.path("two-inst.jsonl"), work.path("two-inst.ndjson")
    write_runs(rp, opsfam.OPS_PARAMS, runs)
    o, dt = run_driver(["prod-conc", "-bin", binp, "-in", rp, "-out", tp, "-store", "sqlfile", "-instances", "2", "-seed", str(seed), "-dir", work.sub("db")])
    rep.notes.append("two instances on one database/" + o.strip())
    events = read_ndjson(tp)
    fails = opsfam.hist_judge(work, rep, tp, 4, name="hist-two-instances")
    settle(rep, "C01", fails, events, dict(opsfam.OPS_BASE), extra_replay={"store": "sqlfile", "kind": "two instances of the production binary on one database file"})
    rep.cov["two_instance_runs"] = nruns
    rep.cov["accepts_by_either_of_two_instances"] = sum(1 for e in events if e.get("e") == "ret" and e.get("v") == "Accept")
    rep.cov["traces_validated_against_impl"] += nruns
    rep.cov["evaluations"] += sum(1 for e in events if e.get("e") == "ret")


CHECKS["C01"] = make_check("C01", c01_plans,
    "every transition of the bounded adversarial model (forked and junk roots, every old size, empty/genuine/replayed/mutated proofs) executed from its "
    "pre-state, plus random walks over the emitted transition graph; judged by AppendOnly and ChainOK on the observed stored values and cosigned outputs; "
    "distinct = distinct (pre-state, well-signed request, verdict)", good_known,
    pre=lambda work, rep, tier: (merkle_link(work, rep, tier), tlaps_chain(work, rep) if tier != "quick" else None),
    post_all=lambda work, rep, tier, seed: c01_concurrent(work, rep, tier, seed))

# ----------------------------------------------------------------------------- C09

def c09_plans(tier):
    if tier == "quick":
        return [Plan("MC_Decision(0..5)", DEC(5), spec="SpecAny", stores=("inmem",), embeds=("id", "huge"))]
    return [Plan("MC_Decision(0..17)", DEC(17), spec="SpecAny", stores=("inmem",), embeds=("id",)),
            Plan("MC_Decision(0..6)", DEC(6), spec="SpecAny", stores=("inmem", "sqlmem"), embeds=("pow2", "mixed", "huge"))]


CHECKS["C09"] = make_check("C09", c09_plans,
    "every transition of the one-step model MC_Decision (every stored value x every request of the menu: (stored, submitted, old) cubed x same/forked/junk root x "
    "empty/genuine/replayed/mutated proofs) executed on a real witness from its pre-state; verdict and returned bytes judged by FirstMatch = SpecVerdict; "
    "the reference RFC 6962 verifier is run on the concrete proof bytes (three-way agreement); the same rules through the add-checkpoint endpoint (status per rule, also for proofs of "
    "62 and 63 hashes); distinct = distinct (pre-state, well-signed request, verdict)", good_known,
    pre=merkle_link, post_all=lambda work, rep, tier, seed: c09_more(work, rep, tier, seed))


def c09_more(work, rep, tier, seed):
    import checks_bastion, checks_ops
    checks_bastion.bastion_part(work, rep, tier, seed, "C09")
    # "each update is answered by the first rule that applies" to THAT update: overlapping submissions that differ only in their proof (or only in
    # their root) through the assembled service; each answer must be the first-match answer on a state that was current during the call
    checks_ops.prod_conc_part(work, rep, tier, seed, "C09", "each update is answered by its own first matching rule")
    # the rule list is about what the store HOLDS: with the store in trouble (TLC-listed failure placements at SQL-driver level: begin, query, row fetch,
    # exec, commit) the answer is an internal error or still the first matching rule on the state that was current - never "nothing stored yet"
    evs, _ = checks_ops.fault_pipeline(work, rep, "quick", seed, "C09", groups={"driver", "fetch"})
    ups = [e for e in evs if e.get("e") == "update"]
    rep.cov["evaluations"] += len(ups)
    rep.cov["verdicts_with_the_store_in_trouble"] = sum(1 for e in ups if e.get("fired"))

# ----------------------------------------------------------------------------- C03

def c03_plans(tier):
    ps = [Plan("MC_Witness(hist)", H(tier, BadAuths=ALL_AUTH), nwalks=100, depth=20, stores=Q_ST if tier == "quick" else T_ST,
               embeds=Q_EMB if tier == "quick" else T_EMB),
          Plan("MC_Witness2(shared key)", W2(tier, BadAuths=ALL_AUTH), keyof=KEYOF, stores=("inmem", "sqlfile"), embeds=("id",), max_edges=None if tier != "quick" else 20000)]
    if tier != "quick":
        ps.append(Plan("MC_Witness(pad)", PAD(tier, 2), stores=("inmem", "sqlmem"), embeds=("id",)))
    ps.append(env_plan(tier))
    return ps


CHECKS["C03"] = make_check("C03", c03_plans,
    "every refusal transition of the bounded models (unknown log, every bad-signature rendering class, old size too large, stale, root mismatch, invalid proof, "
    "non-empty proof at size zero, over-long notes) executed from its pre-state; raw bytes of every log's checkpoint and the log list compared before/after; "
    "returned bytes classified nil/prev/new/other; the storage-failure refusal class is produced by TLC-listed fault placements (open-for-write, read, write, commit, close failing; interface and "
    "SQL-driver level, WitnessOps fault actions) and judged by the same RefusalNoEffect formula; distinct = distinct (pre-state, request, verdict) with a refusal", refusal,
    post_all=lambda work, rep, tier, seed: c03_faults(work, rep, tier, seed))


def c03_faults(work, rep, tier, seed):
    import checks_ops, checks_bastion
    checks_bastion.bastion_part(work, rep, tier, seed, "C03")
    evs, _ = checks_ops.fault_pipeline(work, rep, "quick", seed, "C03")
    ups = [e for e in evs if e.get("e") == "update"]
    rep.cov["evaluations"] += len(ups)
    rep.cov["storage_failure_refusals"] = sum(1 for e in ups if e.get("fired") and e["v"] != "Accept")
    # a call refused because it LOST A RACE in the store is a refusal too: the TLC-listed interleavings of conflicting calls on both stores,
    # judged by Trace_Hist (what is held at the end was held at the start or was returned by an accepted call)
    import opsfam
    cev = opsfam.concurrent_histories(work, rep, tier, seed, "C03")
    rep.cov["refusals_under_concurrency"] = sum(1 for e in cev if e.get("e") == "ret" and e.get("v") not in ("Accept", "Read"))


# ----------------------------------------------------------------------------- C02

def c02_plans(tier):
    ps = [Plan("MC_Witness2(two logs sharing a key, one with its own)", W2("thorough", BadAuths=ALL_AUTH), keyof=KEYOF, stores=("inmem", "sqlmem"), embeds=("id", "pow2"), nwalks=200, depth=15,
               max_edges=None if tier != "quick" else 40000),
          Plan("MC_Witness(hist)", H("quick", BadAuths=ALL_AUTH, BadKinds={"random"}), stores=("inmem",), embeds=("id",) if tier == "quick" else T_EMB)]
    return ps


CHECKS["C02"] = make_check("C02", c02_plans,
    "all authenticity classes (bit flips in signature / key hash, text edited after signing, unknown key incl. same key name, valid checkpoint of another configured log "
    "with another key or the SAME key under another origin, no/truncated signature block, garbage) x all states of the bounded models x every log id incl. an unknown one; "
    "renderings chosen by seed; judged by Authentic on verdict, returned bytes and stored state; distinct = distinct (pre-state, request, verdict) of update steps; the per-log verifier "
    "comes from configuration: generated configurations (incl. an entry whose key string borrows another entry's key name and hash) go through the real Main (Trace_Start)", any_update,
    post_all=lambda work, rep, tier, seed: (__import__("checks_omni").startup_part(work, rep, tier, seed, "C02"), __import__("checks_omni").keytypes_part(work, rep, seed, "C02")))

# ----------------------------------------------------------------------------- C04

def wait_runs(c, g, rng):
    """refresh / growth after the wall clock has moved to the next second: the cosignature must be fresh"""
    runs = []
    mk = lambda old, n, pf, e=0, s=0, x=0: {"op": "update", "log": "l1", "req": {"auth": "good", "old": old, "b": 0, "n": n, "extra": e, "stale": s, "ext": x, "pf": pf}}
    E = {"k": "empty"}
    for j in range(6):
        st = [mk(0, 1, E, x=j % 2), dict(mk(1, 1, E, x=j % 2), wait=True), {"op": "get", "log": "l1"}]
        if j % 3 == 0:
            st += [dict(mk(1, 2, {"k": "right", "b": 0, "m": 1, "n": 2}), wait=True), {"op": "get", "log": "l1"}]
        if j % 3 == 1:
            st = [mk(0, 1, E, s=1)] + st[1:]
        runs.append({"id": "fresh%d" % j, "steps": st})
    return runs


def c04_plans(tier):
    st = Q_ST if tier == "quick" else T_ST
    ps = [Plan("MC_Witness(pad,2 keys)", PAD(tier, 2), stores=st, embeds=("id",), http=True, extra_runs=wait_runs, nwalks=100, depth=12, reads=True, want=want_accept),
          Plan("MC_Witness(pad,1 key)", PAD(tier, 1), stores=("inmem",), embeds=("id",) if tier == "quick" else ("id", "huge"), http=False, nwalks=50, depth=12, reads=True, want=want_accept)]
    if tier != "quick":
        ps.append(Plan("MC_Witness(hist)", H("quick"), stores=("sqlfile",), embeds=("pow2",), http=True, nwalks=300, depth=20, reads=True, want=want_accept, edges=False))
    ps.append(env_plan(tier))
    return ps


CHECKS["C04"] = make_check("C04", c04_plans,
    "every accept transition (first use, growth, same-size refresh) x note shapes (extension lines, 0/1/up-to-the-limit unknown signature lines, stale or forged lines "
    "under the witness' own key ids) x witness key sets {cosignature/v1} and {legacy Ed25519, cosignature/v1}; each returned note is re-verified by the harness' own "
    "ed25519 code (text identical, log signature, exactly one valid line per witness key, none forged, timestamp inside the call window, read-after-update identical, also over HTTP GET); "
    "refreshes after a forced one-second wait make a short-circuited refresh observable; the same formula on every TLC-listed placement of a storage failure at the "
    "SQL-driver level (an update reported as accepted while its commit failed is not what a read returns); distinct = distinct accepted (pre-state, request)", accept,
    post_all=lambda work, rep, tier, seed: c04_faults(work, rep, tier, seed))


def c04_faults(work, rep, tier, seed):
    """'Directly after an accepted update a read returns exactly the bytes that update returned' also when the store misbehaves during the update:
    whatever fails (begin, select, row fetch, insert, COMMIT, rollback), an answer 'accepted' must be what is then read back."""
    import checks_ops
    evs, _ = checks_ops.fault_pipeline(work, rep, "quick", seed, "C04", groups={"driver", "fetch", "iface"})
    ups = [e for e in evs if e.get("e") == "update"]
    rep.cov["evaluations"] += len(ups)
    rep.cov["accepts_with_a_storage_failure_in_the_same_call"] = sum(1 for e in ups if e.get("fired") and e["v"] == "Accept")

# ----------------------------------------------------------------------------- C08

def sweep_runs(tier):
    """concrete size pairs for the honest step stored m -> submitted n (own embedding per run: sigma = [0, m, n])"""
    def mk(c, g, rng):
        E = {"k": "empty"}
        tofu = lambda n: {"op": "update", "log": "l1", "req": {"auth": "good", "old": 0, "b": 0, "n": n, "extra": 0, "stale": 0, "ext": 0, "pf": E}}
        pairs = set()
        lim = 40 if tier == "quick" else 64
        for n in range(0, lim + 1):
            for m in range(0, n + 1):
                pairs.add((m, n))
        ms = range(0, 65537) if tier != "quick" else sorted(set(rng.sample(range(0, 65537), 1500)) | {0, 1, 255, 256, 257, 65535, 65536})
        for m in ms:
            np2 = 1
            while np2 <= m:
                np2 *= 2
            for n in (m, m + 1, np2, 65536):
                if n >= m:
                    pairs.add((m, n))
        for bits, cnt in ((40, 600), (62, 300), (63, 100)):
            for _ in range(cnt if tier != "quick" else cnt // 4):
                n = rng.getrandbits(bits) + 2
                m = rng.randrange(0, n)
                pairs.add((m, n))
        runs = []
        for j, (m, n) in enumerate(sorted(pairs)):
            if m == 0 and n == 0:
                runs.append({"id": "sw%d" % j, "sigma": [0, 1, 2], "steps": [tofu(0), {"op": "probe", "log": "l1", "n": 0}]})
            elif m == 0:
                runs.append({"id": "sw%d" % j, "sigma": [0, n, n + 1], "steps": [tofu(0), {"op": "probe", "log": "l1", "n": 1}]})     # stored size 0 (F1)
            elif m == n:
                runs.append({"id": "sw%d" % j, "sigma": [0, m, m + 1], "steps": [tofu(1), {"op": "probe", "log": "l1", "n": 1}]})     # same-size refresh
            else:
                runs.append({"id": "sw%d" % j, "sigma": [0, m, n], "steps": [tofu(1), {"op": "probe", "log": "l1", "n": 2}]})
        return runs
    return mk


def c08_plans(tier):
    if tier == "quick":
        c = consts(MaxSize=3, NBranch=2, ForkAt=Sub("Fork_2"), Olds={0, 1, 2, 3, 4}, Extras={0, 1, 3, 4, 5, 6}, Exts={0, 1}, BadKinds={"random", "flip"}, BadAuths={"badsig"})
        return [Plan("MC_Witness(all states)", c, edges=False, probes=True, nwalks=150, depth=30, stores=("inmem", "sqlmem"), embeds=("id", "pow2")),
                Plan("size sweep (honest step m -> n)", consts(MaxSize=2, NBranch=1, Olds={0, 1, 2}, BadKinds={"random"}, BadAuths={"badsig"}, WithUnknown=False), edges=False,
                     stores=("inmem",), embeds=("id",), extra_runs=sweep_runs(tier)),
                Plan("MC_Witness(all states of the unguarded design)", dict(c, PadGuard=False, MaxSize=2, Olds={0, 1, 2, 3}), edges=False, probes=True, nwalks=20, depth=10, stores=("inmem",), embeds=("id",))]
    c = consts(MaxSize=4, NBranch=3, ForkAt=Sub("Fork_2_0"), Olds={0, 1, 2, 3, 4, 5}, Extras={0, 1, 3, 4, 5, 6}, Stales={0, 1}, Exts={0, 1}, BadKinds={"random"}, BadAuths={"badsig"})
    return [Plan("MC_Witness(all states)", c, edges=False, probes=True, nwalks=1500, depth=40, stores=T_ST, embeds=T_EMB, edge_cap=400),
            Plan("size sweep (honest step m -> n)", consts(MaxSize=2, NBranch=1, Olds={0, 1, 2}, BadKinds={"random"}, BadAuths={"badsig"}, WithUnknown=False), edges=False,
                 stores=("inmem", "sqlmem"), embeds=("id",), extra_runs=sweep_runs(tier)),
            Plan("MC_Witness(all states of the unguarded design)", dict(c, PadGuard=False, Stales={0}), edges=False, probes=True, nwalks=100, depth=20, stores=("inmem", "sqlfile"),
                 embeds=("id", "huge"), edge_cap=400)]


def c08_after_failures(work, rep, tier, seed):
    """"Whatever has been submitted before, accepted or refused": also requests that were refused because the STORAGE failed (every TLC-listed
    placement of a failure over the update histories, at interface and driver level) or whose caller went away; honest probes follow each."""
    import checks_ops, checks_bastion
    checks_bastion.bastion_part(work, rep, tier, seed, "C08")
    evs, _ = checks_ops.fault_pipeline(work, rep, "quick", seed, "C08")
    probes = [e for e in evs if e.get("e") == "update" and not e.get("fired")]
    rep.cov["evaluations"] += len(probes)
    rep.cov["honest_probes_after_storage_failures"] = len(probes)
    # an honest log may sign its unchanged checkpoint again: for every kind of log key the configuration admits (Ed25519, ECDSA and RSA with their
    # randomised or alternative encodings), on a witness wired as Main wires it (LogConfig.AsLogMap), the re-signed checkpoint refreshes
    import checks_omni
    checks_omni.keytypes_part(work, rep, seed, "C08")


CHECKS["C08"] = make_check("C08", c08_plans,
    "shortest path to EVERY reachable state of the bounded model (states reached through refused forgeries, padded / extended notes, a first checkpoint of size 0) and random walks, "
    "each followed by the honest request (old = stored size, genuine/empty proof, one signature line) for every size >= stored; plus a numeric sweep of concrete size pairs (all m <= n <= 40 "
    "(thorough 64), stored sizes m over 0..2^16 (thorough: every m) with n in {m, m+1, next power of two, 2^16}, random pairs up to 2^40, 2^62, 2^63), each with its own embedding; judged by HonestProgress; "
    "distinct = distinct (pre-state, honest probe)", lambda e: e.get("e") == "update" and e.get("req", {}).get("auth") == "good" and e.get("req", {}).get("extra") == 0,
    post_all=lambda work, rep, tier, seed: c08_after_failures(work, rep, tier, seed))

# ----------------------------------------------------------------------------- C12 (isolation half; identity half is in checks_omni)
# ----------------------------------------------------------------------------- C16
# ----------------------------------------------------------------------------- C20

def c20_plans(tier):
    if tier == "quick":
        return [Plan("MC_Decision(0..4)", DEC(4), spec="SpecAny", stores=("inmem",), embeds=("id",)),
                Plan("MC_Witness2(shared key)", W2(tier), keyof=KEYOF, edges=False, nwalks=300, depth=30, stores=("inmem", "sqlmem"), embeds=("id",))]
    return [Plan("MC_Decision(0..8)", DEC(8), spec="SpecAny", stores=("inmem", "sqlmem"), embeds=("id", "mixed")),
            Plan("MC_Witness2(3 logs)", W2(tier), keyof=KEYOF, edges=False, nwalks=3000, depth=40, stores=T_ST, embeds=("id", "pow2")),
            Plan("MC_Witness(hist)", H(tier), nwalks=500, depth=40, stores=("inmem",), embeds=("id",))]


CHECKS["C20"] = make_check("C20", c20_plans,
    "the C09 decision-table transitions and random multi-log histories of mixed verdicts; a recording MetricFactory (installed before the first witness.New in a dedicated "
    "process) is read after every step for every log and judged by CountersTrue (attempt, success, invalid-consistency, inconsistent-checkpoints; nothing else moves); "
    "the TLC-listed storage-failure placements are executed too (a failed write must not count as a success); distinct = distinct (pre-state, request, verdict) of update steps", any_update,
    post_all=lambda work, rep, tier, seed: c20_faults(work, rep, tier, seed))


def c20_faults(work, rep, tier, seed):
    import checks_ops
    evs, _ = checks_ops.fault_pipeline(work, rep, "quick", seed, "C20")
    ups = [e for e in evs if e.get("e") == "update"]
    rep.cov["evaluations"] += len(ups)
    rep.cov["updates_under_storage_failures"] = sum(1 for e in ups if e.get("fired"))
    c20_production_metrics(work, rep, tier, seed)


def c20_production_metrics(work, rep, tier, seed):
    """The counters an operator actually sees: the production binary with its Prometheus factory (--metrics_listen), scraped after every run of
    sequential and concurrent clients; Trace_Hist counts the responses and requires the scraped values to be exactly those."""
    import checks_ops, opsfam
    rng = random.Random(seed + 20)
    binp = build_prod_binary()
    shapes = [(24, 1, 14), (16, 3, 8)] if tier == "quick" else [(150, 1, 16), (150, 3, 10), (40, 6, 8)]
    n = 0
    for nruns, ng, nops in shapes:
        runs = [{"id": "m%dx%d-%d" % (ng, nops, j), "mode": "free", "db0": opsfam.db0_of("none"), "prog": checks_ops.rich_programs(rng, ng, nops), "sched": []} for j in range(nruns)]
        rp, tp = work.path("metrics-%d.jsonl" % ng), work.path("metrics-%d.ndjson" % ng)
        write_runs(rp, opsfam.OPS_PARAMS, runs)
        o, dt = run_driver(["prod-conc", "-bin", binp, "-in", rp, "-out", tp, "-store", "sqlfile", "-seed", str(seed), "-dir", work.sub("db"), "-metrics"])
        rep.notes.append("metrics/" + o.strip())
        events = read_ndjson(tp)
        fails = opsfam.hist_judge(work, rep, tp, 6, name="hist-metrics-%d" % ng)
        settle(rep, "C20", fails, events, dict(opsfam.OPS_BASE), extra_replay={"kind": "production binary /metrics"})
        n += len(runs)
        rets = [e for e in events if e.get("e") == "ret" and e.get("v") != "Read"]
        rep.cov["evaluations"] += len(rets)
        hist = rep.cov.setdefault("verdicts_counted_on_the_metrics_endpoint", {})
        for e in rets:
            hist[e["v"]] = hist.get(e["v"], 0) + 1
    rep.cov["production_binary_runs_scraped"] = n
    # start-up is not an update request: the binary started on databases earlier incarnations left (cosigned by both keys, by the legacy key only,
    # by a key rotated away since, with a cosignature time in the future, with foreign signature lines) counts nothing and serves the file's bytes
    sp = work.path("prod-start.ndjson")
    o, dt = run_driver(["prod-start", "-bin", binp, "-out", sp, "-seed", str(seed), "-dir", work.sub("db")])
    rep.notes.append("metrics after start-up/" + o.strip())
    sevs = read_ndjson(sp)
    fails = opsfam.hist_judge(work, rep, sp, 2, name="hist-start")
    settle(rep, "C20", fails, sevs, dict(opsfam.OPS_BASE), extra_replay={"kind": "production binary started on a database an earlier incarnation left"})
    rep.cov["start_ups_on_existing_databases_scraped"] = sum(1 for e in sevs if e.get("e") == "metrics")
    rep.cov["evaluations"] += rep.cov["start_ups_on_existing_databases_scraped"]
    rep.cov["traces_validated_against_impl"] += n

# ----------------------------------------------------------------------------- C16

ODD = ["empty", "trailing-slash", "double-slash", "dotdot-alias", "dot-alias", "slash-inside", "encoded-slash", "truncated", "prefix", "extended",
       "uppercase", "nonascii", "space", "wildcard", "star", "long", "dotdot-escape"]


def odd_runs(c, g, rng):
    """histories over several logs with reads of known, unknown and syntactically odd ids after every few steps"""
    init = {l: {"none": True} for l in sorted(c["Logs"])}
    runs = []
    logs = sorted(c["Logs"])
    for j, (run, final) in enumerate(walks(g, init, 60, 12, rng, prefix="odd", want=want_accept)):
        steps = []
        for s_ in run["steps"]:
            steps.append(s_)
            if rng.random() < 0.4:
                steps.append({"op": "getodd", "log": rng.choice(logs), "cls": rng.choice(ODD)})
            if rng.random() < 0.3:
                steps.append({"op": "get", "log": rng.choice(logs + ["unknown"])})
        for cls in ODD:
            steps.append({"op": "getodd", "log": logs[j % len(logs)], "cls": cls})
        for l in logs + ["unknown"]:
            steps.append({"op": "get", "log": l})
        steps.append({"op": "getlogs"})
        runs.append({"id": "odd%d" % j, "steps": steps})
    return runs


def restored_runs(c, g=None, rng=None):
    """What an earlier incarnation of this witness left in the store: the same checkpoint cosigned when the clock was ahead, or before the
    cosignature/v1 key joined the signer set. Honest requests must still be accepted (C08), with a fresh cosignature (C04); refusals must leave
    those bytes exactly as they are (C03)."""
    def upd(old, b, n, pf):
        return {"op": "update", "log": "l1", "req": {"auth": "good", "old": old, "b": b, "n": n, "extra": 0, "stale": 0, "ext": 0, "pf": pf}}
    E = {"k": "empty"}
    tofu1 = upd(0, 0, 1, E)
    get = {"op": "get", "log": "l1"}
    ms = c["MaxSize"]
    runs = []
    for cls in ("future3s", "future1h", "legacyonly"):
        rs = {"op": "restore", "log": "l1", "cls": cls}
        refusals = [upd(0, 0, 1, E)]                                       # stale
        if ms >= 2:
            refusals += [upd(0, 0, 2, E), upd(3 if ms >= 3 else 2, 0, 2 if ms >= 3 else 1, E),  # stale; old size beyond the checkpoint
                         upd(1, 0, 2, {"k": "bad", "kind": "flip"})]       # bad proof
        runs.append({"id": "restored-%s-refresh" % cls, "steps": [tofu1, rs, get, upd(1, 0, 1, E), get] + [{"op": "probe", "log": "l1", "n": n_} for n_ in range(2, ms + 1)]})
        runs.append({"id": "restored-%s-refusals" % cls, "steps": [tofu1, rs] + refusals + [get] + [{"op": "probe", "log": "l1", "n": n_} for n_ in range(2, ms + 1)]})
        if ms >= 2:
            runs.append({"id": "restored-%s-grow" % cls, "steps": [tofu1, rs, {"op": "probe", "log": "l1", "n": 2}, rs, upd(2, 1, 2, E), get, {"op": "probe", "log": "l1", "n": ms}]})
    return runs


def racy_read_runs(c, g=None, rng=None):
    """A read whose return from storage is held back while an update is accepted and further reads arrive: whatever the read path keeps between
    requests (a cache filled on a miss, coalesced in-flight reads) shows when a read that STARTED after the accepted update does not see it."""
    nw = c["NWitKeys"]
    runs = []
    grow12 = {"op": "update", "log": "l1", "req": {"auth": "good", "old": 1, "b": 0, "n": 2, "extra": 0, "stale": 0, "ext": 0, "pf": {"k": "right", "b": 0, "m": 1, "n": 2}}}
    grow23 = {"op": "update", "log": "l1", "req": {"auth": "good", "old": 2, "b": 0, "n": 3, "extra": 0, "stale": 0, "ext": 0, "pf": {"k": "right", "b": 0, "m": 2, "n": 3}}}
    tofu1 = {"op": "update", "log": "l1", "req": {"auth": "good", "old": 0, "b": 0, "n": 1, "extra": 0, "stale": 0, "ext": 0, "pf": {"k": "empty"}}}
    held = {"op": "bgget", "log": "l1", "hold": "ReadGetLatest>"}
    plain = {"op": "bgget", "log": "l1"}
    get = {"op": "get", "log": "l1"}
    rel = {"op": "release"}
    ms = c["MaxSize"]
    # refused updates that get as far as the storage (whatever the read path keeps per log may be dropped by ANY update, not only an accepted one)
    stale1 = {"op": "update", "log": "l1", "req": {"auth": "good", "old": 0, "b": 0, "n": 1, "extra": 0, "stale": 0, "ext": 0, "pf": {"k": "empty"}}}
    stale2 = {"op": "update", "log": "l1", "req": {"auth": "good", "old": 0, "b": 0, "n": 2, "extra": 0, "stale": 0, "ext": 0, "pf": {"k": "empty"}}}
    runs.append({"id": "racy-first", "steps": [held, tofu1, plain, rel, get, {"op": "getlogs"}] + ([grow12, get] if ms >= 2 else [])})
    if ms >= 2:
        for tagx, pre in (("", []), ("-after-read", [get]), ("-after-refusal", [stale1]), ("-after-read-and-refusal", [get, stale1])):
            runs.append({"id": "racy-grow" + tagx, "steps": [tofu1] + pre + [held, grow12, plain, rel, get, {"op": "getlogs"}] + ([grow23, get] if ms >= 3 else [])})
        runs.append({"id": "racy-late-release", "steps": [tofu1, stale1, held, grow12, get, plain, rel, get, get]})
    if ms >= 3:
        runs.append({"id": "racy-two", "steps": [tofu1, held, grow12, plain, plain, rel, get, stale2, held, grow23, plain, rel, get]})
    return runs


def c16_plans(tier):
    if tier == "quick":
        return [Plan("MC_Witness(hist)", H(tier, BadKinds={"random", "flip"}, Exts={0, 1}), nwalks=150, depth=20, reads=True, http=True, stores=Q_ST, embeds=("id",), want=want_accept,
                     extra_runs=lambda c, g, rng: racy_read_runs(c)),
                Plan("MC_Witness2(shared key)", W2(tier), keyof=KEYOF, edges=False, nwalks=100, depth=20, reads=True, http=True, stores=("inmem", "sqlfile"), embeds=("id",),
                     extra_runs=lambda c, g, rng: odd_runs(c, g, rng) + racy_read_runs(c), want=want_accept),
                # note shapes up to the signature-line limit: a first submission that is refused AFTER the storage was opened must leave no entry
                Plan("MC_Witness(pad)", PAD(tier, 2, Stales={0}, Exts={0}), nwalks=40, depth=8, reads=True, http=True, stores=("inmem", "sqlfile"), embeds=("id",), want=want_accept)]
    return [Plan("MC_Witness(pad)", PAD(tier, 2), nwalks=200, depth=10, reads=True, http=True, stores=T_ST, embeds=("id",), want=want_accept),
            Plan("MC_Witness(hist)", H(tier, Exts={0, 1}), nwalks=1500, depth=40, reads=True, http=True, stores=T_ST, embeds=("id", "mixed"), want=want_accept, extra_runs=lambda c, g, rng: racy_read_runs(c)),
            Plan("MC_Witness2(3 logs)", W2(tier), keyof=KEYOF, edges=True, nwalks=1000, depth=30, reads=True, http=True, stores=T_ST, embeds=("id",),
                 extra_runs=lambda c, g, rng: odd_runs(c, g, rng) + racy_read_runs(c), want=want_accept)]


CHECKS["C16"] = make_check("C16", c16_plans,
    "histories of accepted and refused updates over 1..3 logs (ids from the repository's own origin-to-id function) with the registered mux handlers and the bundled HTTP client "
    "in the loop: after updates, GET checkpoint for known / unknown ids, GET log list, and 17 classes of syntactically odd ids (empty, slashes, dot segments, encoded, truncated, "
    "prefix, extended, non-ASCII, very long ...), first response and response after redirects; judged by ReadExact / LogListExact / OddId; every update step also checks the "
    "storage log list (a refused first submission creates no entry); distinct = distinct read or update steps by (state, request, outcome)",
    lambda e: e.get("e") in ("get", "getlogs", "getodd", "update"),
    post_all=lambda work, rep, tier, seed: c16_failing_reads(work, rep, tier, seed))


def c16_failing_reads(work, rep, tier, seed):
    """"Serves exactly the stored state" when the store cannot be read: the read of a log that HAS a checkpoint fails (interface level on the in-memory
    store; query / row fetch at SQL-driver level), through the registered handlers and the bundled client. The answer says that the read failed
    (it is never 404 / "no checkpoint yet", which feeders take for an empty witness), and the next read serves the stored bytes again."""
    c = H("quick")
    tofu1 = {"op": "update", "log": "l1", "req": {"auth": "good", "old": 0, "b": 0, "n": 1, "extra": 0, "stale": 0, "ext": 0, "pf": {"k": "empty"}}}
    grow12 = {"op": "update", "log": "l1", "req": {"auth": "good", "old": 1, "b": 0, "n": 2, "extra": 0, "stale": 0, "ext": 0, "pf": {"k": "right", "b": 0, "m": 1, "n": 2}}}
    get = {"op": "get", "log": "l1"}
    by_store = {"inmem": [dict(get, faults=["ReadGetLatest"])], "sqlfault": [dict(get, dfaults=["query"]), dict(get, dfaults=["next"]), dict(get, faults=["ReadGetLatest"])]}
    nfail = 0
    for store, bads in by_store.items():
        runs = []
        for j, bad in enumerate(bads):
            runs.append({"id": "failing-read-%d" % j, "steps": [get, tofu1, get, bad, get, bad, bad, get, grow12, bad, get, {"op": "getlogs"}]})
        trace, _ = execute(work, rep, c, runs, [store], ["id"], seed, http=True, tag="c16rf" + store, faults=True)
        events = index_trace(trace)
        settle(rep, "C16", judge(work, rep, c, trace, name="judge-failing-reads-" + store), events, c)
        gets = [e for e in events if e.get("e") == "get"]
        rep.cov["evaluations"] += len(gets)
        nfail += sum(1 for e in gets if e.get("fired"))
        os.remove(trace)
    if not nfail:
        raise Inconclusive("no read failure was injected in the failing-read runs")
    rep.cov["reads_during_which_the_store_failed_over_http"] = nfail

# ----------------------------------------------------------------------------- C12 (isolation half; the identity half is in the omni family)

def interleave_runs(c, g, rng, n=150, depth=24):
    """a TLC-generated history over several logs (phase 0) and, in later phases on fresh witnesses with the same keys
    and origins, the sub-history of each log alone"""
    init = {l: {"none": True} for l in sorted(c["Logs"])}
    runs = []
    for j, (run, final) in enumerate(walks(g, init, n, depth, rng, prefix="il", want=want_accept)):
        steps = [s_ for s_ in run["steps"] if s_["op"] == "update" and s_["log"] in c["Logs"]]
        phases = [steps]
        for l in sorted(c["Logs"]):
            phases.append([s_ for s_ in steps if s_["log"] == l])
        runs.append({"id": "il%d" % j, "phases": phases})
    return runs


def c12_plans(tier):
    if tier == "quick":
        return [Plan("MC_Witness2(shared key)", W2(tier, MaxSize=2, Olds={0, 1, 2, 3}, BadKinds={"random"}), keyof=KEYOF, edges=True, max_edges=15000,
                     stores=("inmem", "sqlmem"), embeds=("id",), extra_runs=interleave_runs)]
    return [Plan("MC_Witness2(3 logs)", W2(tier, MaxSize=2, Olds={0, 1, 2, 3}, BadKinds={"random"}), keyof=KEYOF, edges=True, max_edges=120000,
                 stores=T_ST, embeds=("id", "pow2"), extra_runs=lambda c, g, rng: interleave_runs(c, g, rng, 1500, 40)),
            Plan("MC_Witness2(5 logs, three of them sharing one key)", W2(tier, Logs={"l1", "l2", "l3", "l4", "l5"}, Olds={0, 1}, BadKinds={"random"}, BadAuths={"peercp"}, WithUnknown=False),
                 keyof=KEYOF, edges=True, max_edges=60000, stores=("inmem", "sqlfile"), embeds=("id",), extra_runs=lambda c, g, rng: interleave_runs(c, g, rng, 800, 50))]


CHECKS["C12"] = make_check("C12", c12_plans,
    "isolation half of C12: every transition of the multi-log model (logs sharing a key) judged by Isolation (an update touches only the log it names; per-log byte snapshots), and "
    "TLC-generated interleaved histories over 2..3 logs followed, on fresh witnesses with the same keys and origins, by each log's sub-history alone: per-log abstract state and a digest of "
    "text + log signature + deterministic witness signature must be equal (AloneEqualsInterleaved). The identity half (one id function on every interface, duplicate ids refused) is checked by "
    "the start-up family (see level_note); distinct = distinct update steps by (state, request, verdict)", any_update,
    post_all=lambda work, rep, tier, seed: c12_more(work, rep, tier, seed))


def c12_more(work, rep, tier, seed):
    import checks_omni, checks_ops, opsfam
    checks_omni.startup_part(work, rep, tier, seed, "C12")
    # "a checkpoint of one log is never stored under or served for another ID" also when requests for DIFFERENT logs overlap: many goroutines submit
    # growth, duplicates, forks and refreshes for two logs at the same time, run after run in one process (whatever the stores keep per process - pools,
    # caches - is shared by all of them), on both stores; Trace_Hist: what each log holds at the end is a checkpoint that was accepted FOR THAT LOG
    rng = random.Random(seed * 1013 + 12)
    n = 0
    for store, nruns in (("inmem", 250 if tier == "quick" else 2500), ("sqlfile", 40 if tier == "quick" else 400)):
        runs = [{"id": "iso%s-%d" % (store, j), "mode": "free", "db0": opsfam.db0_of("none"), "prog": checks_ops.random_programs(rng, 8, 8), "sched": []} for j in range(nruns)]
        rp, tp = work.path("iso-%s.jsonl" % store), work.path("iso-%s.ndjson" % store)
        write_runs(rp, opsfam.OPS_PARAMS, runs)
        o, dt = run_driver(["ops", "-in", rp, "-out", tp, "-store", store, "-seed", str(seed), "-workers", "4", "-dir", work.sub("db")])
        rep.notes.append("overlapping requests for different logs/" + o.strip())
        events = read_ndjson(tp)
        fails = opsfam.hist_judge(work, rep, tp, 8, name="hist-iso-" + store)
        settle(rep, "C12", fails, events, dict(opsfam.OPS_BASE), extra_replay={"store": store, "kind": "overlapping requests for different logs"})
        n += nruns
        rep.cov["evaluations"] += sum(1 for e in events if e.get("e") == "ret")
    rep.cov["runs_of_overlapping_requests_for_different_logs"] = n
    rep.cov["traces_validated_against_impl"] += n
