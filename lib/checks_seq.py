"""Checks of the sequential family."""
import json, random
from vlib import *
from seqfam import *

CHECKS = {}

NONTRIVIAL_STORED = lambda e: e.get("e") == "update" and e.get("req", {}).get("auth") == "good" and e.get("v") not in ("UnknownLog",)


def c09(work, tier, seed, replay):
    rep = Report("C09", tier, seed, "model_checking")
    rng = random.Random(seed)
    if tier == "quick":
        ms, stores, embeds = 5, ["inmem"], ["id", "huge"]
    else:
        ms, stores, embeds = 17, ["inmem", "sqlmem"], ["id", "pow2", "mixed", "huge"]
    # one-step model from every stored value: (stored, submitted, old) in (0..ms)^3 x roots x proofs
    c = consts(MaxSize=ms, NBranch=2, ForkAt=Sub("Fork_2"), Olds=set(range(ms + 2)), BadAuths={"badsig"}, WithUnknown=True)
    r, edges = model_check(work, rep, "MC_Decision(0..%d)" % ms, c, spec="SpecAny")
    runs = runs_from_edges(edges, c["NWitKeys"])
    trace, runs_path = execute(work, rep, c, runs, stores, embeds, seed, tag="dec")
    fails = judge(work, rep, c, trace)
    events = index_trace(trace)
    count_events(rep, events, NONTRIVIAL_STORED)
    settle(rep, "C09", fails, events, c)
    finish_counts(rep)
    rep.cov["rule"] = ("every transition of the one-step model MC_Decision (all stored values x all requests of the menu) is executed on a real witness "
                       "from its pre-state; distinct = distinct (pre-state, request, verdict) triples with a well-signed request for a known log")
    rep.cov["exhaustive"] = True
    rep.cov["embeddings"] = embeds
    rep.cov["stores"] = stores
    for e in events[1:4]:
        rep.sample(e)
    rep.assumptions += ["ed25519/SHA-256 are secure", "harness projection (root table, note reader) is correct", "TLC"]
    return rep.finish()


CHECKS["C09"] = c09
