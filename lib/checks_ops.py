"""Checks of the storage-operation family: C05 (schedules), C06 (crash points), C07 (fault sequences)."""
import json, random, os, re
from vlib import *
from opsfam import *

CHECKS = {}
STORES = {"InMem": "inmem", "Sql1": "sqlfile"}


def rich_programs(rng, nproc, nops):
    """like random_programs, with requests for every counter-relevant outcome: bad proofs, same-size forks, stale old sizes, bad signatures"""
    progs = random_programs(rng, nproc, nops)
    for prog in progs:
        for op in prog:
            if op["kind"] != "update":
                continue
            x = rng.random()
            rq = op["req"]
            if x < 0.15 and rq["old"] > 0 and rq["n"] > rq["old"]:
                rq["pf"] = {"k": "bad", "kind": rng.choice(["flip", "drop", "add", "random", "long64", "long100"])}
            elif x < 0.3 and rq["n"] >= 2:
                rq["b"] = 1
                rq["old"] = rq["n"]
                rq["pf"] = {"k": "empty"}          # same size, the fork's root: split view if the witness holds the main history at that size
            elif x < 0.36:
                rq["auth"] = rng.choice(["badsig", "unknownkey", "nosig"])
    return progs


def random_programs(rng, nproc, nops):
    """free-running mode: honest growth chains on two logs with conflicting duplicates, forks, refreshes and readers"""
    progs = []
    for p in range(nproc):
        prog = []
        cur = {"l1": 0, "l2": 0}
        for k in range(nops):
            l = rng.choice(["l1", "l1", "l2"])
            x = rng.random()
            if x < 0.3:
                prog.append({"kind": "read", "log": l})
                continue
            old = cur[l]
            n = min(3, old + rng.choice([0, 1, 1, 2]))
            if old == 0:
                n = max(n, 1)
                pf = {"k": "empty"}
            elif n == old:
                pf = {"k": "empty"}
            else:
                pf = {"k": "right", "b": 0, "m": old, "n": n}
            b = 0
            if x > 0.9 and n >= 2:
                b = 1
                if pf["k"] == "right":
                    pf = {"k": "right", "b": 1, "m": old, "n": n}
            prog.append({"kind": "update", "log": l, "req": {"auth": "good", "old": old, "b": b, "n": n, "extra": 0, "stale": 0, "ext": 0, "pf": pf}})
            if b == 0:
                cur[l] = n
        progs.append(prog)
    return progs


def twin_programs(rng, nproc):
    """Overlapping submissions that differ in ONE respect only: the same old size and checkpoint with a right and a wrong proof, the same old size
    with the two sides of a fork, the same step twice. Each process first brings its own view to size 1, then all fire the contested step."""
    good = lambda b, m, n: {"k": "right", "b": b, "m": m, "n": n}
    upd = lambda old, b, n, pf: {"kind": "update", "log": "l1", "req": {"auth": "good", "old": old, "b": b, "n": n, "extra": 0, "stale": 0, "ext": 0, "pf": pf}}
    n = rng.choice([2, 3])
    shapes = [[upd(1, 0, n, good(0, 1, n)), upd(1, 0, n, {"k": "bad", "kind": rng.choice(["flip", "drop", "add", "short"])})],     # same checkpoint, right / wrong proof
              [upd(1, 0, n, good(0, 1, n)), upd(1, 1, n, good(1, 1, n))],                                                          # the two sides of a fork
              [upd(1, 0, n, good(0, 1, n)), upd(1, 0, n, {"k": "empty"})],
              [upd(1, 0, 2, good(0, 1, 2)), upd(1, 0, 3, good(0, 1, 3))]]
    sh = rng.choice(shapes)
    progs = []
    for p_ in range(nproc):
        progs.append([{"kind": "read", "log": "l1"}] * rng.choice([0, 1]) + [sh[p_ % 2]] + [{"kind": "read", "log": "l1"}])
    # ... and afterwards the first client sends the text it has just submitted ONCE MORE, this time with a signature line under the log's key id
    # whose bytes are wrong, as a refresh (old size = size): the first rule that applies is "no valid log signature", whatever the text's past
    again = dict(sh[0]["req"], auth="badsig", old=sh[0]["req"]["n"], pf={"k": "empty"})
    progs[0] = progs[0] + [{"kind": "update", "log": "l1", "req": again}]
    return progs


def relay_programs(rng):
    """One client grows the log 1 -> 2 and later repeats that (by then stale) request; another, talking to the OTHER instance, grows it 2 -> 3 in
    between; readers on both. Whatever an endpoint keeps in its process about 'the size I have seen' is behind the store after the other instance's update."""
    R = lambda m, n: {"k": "right", "b": 0, "m": m, "n": n}
    upd = lambda old, n, pf: {"kind": "update", "log": "l1", "req": {"auth": "good", "old": old, "b": 0, "n": n, "extra": 0, "stale": 0, "ext": 0, "pf": pf}}
    rd = {"kind": "read", "log": "l1"}
    p1 = [upd(1, 2, R(1, 2))] + [rd] * rng.choice([1, 2, 3, 4]) + [upd(1, 2, R(1, 2)), upd(0, 1, {"k": "empty"})]
    p2 = [rd] * rng.choice([0, 1, 2, 3]) + [upd(2, 3, R(2, 3)), rd, upd(2, 3, R(2, 3))]
    return [p1, p2, [rd] * 3]


def two_instance_lin_part(work, rep, tier, seed, prop):
    """Two instances of the production binary on one database file (as in C01's part), judged by Trace_Lin: every answer, including the size a 409
    states, is the atomic witness' answer at some point between the request and its response."""
    rng = random.Random(seed * 31337 + 5)
    binp = build_prod_binary()
    nruns = 40 if tier == "quick" else 300
    runs = [{"id": "relay%s-%d" % (prop, j), "mode": "free", "db0": db0_of("s1"), "prog": relay_programs(rng), "sched": []} for j in range(nruns)]
    rp, tp = work.path("relay-%s.jsonl" % prop), work.path("relay-%s.ndjson" % prop)
    write_runs(rp, OPS_PARAMS, runs)
    o, dt = run_driver(["prod-conc", "-bin", binp, "-in", rp, "-out", tp, "-store", "sqlfile", "-instances", "2", "-seed", str(seed), "-dir", work.sub("db")])
    rep.notes.append("two instances, relayed growth/" + o.strip())
    for r in judge_in_chunks(work, rep, tp, 3, "relay-%s" % prop):
        evs = [e for e in read_ndjson(tp) if e.get("run") == r["run"]]
        rep.violation("run %s (two instances of the production binary on one database file): the answers are not those of the atomic witness in any order compatible with real time; "
                      "the judge cannot get past event %d" % (r["run"], r["i"]), {"property": prop, "store": "sqlfile, two instances", "run": r["run"], "events": evs})
    evs = read_ndjson(tp)
    rep.cov["two_instance_relay_runs"] = nruns
    rep.cov["stale_answers_whose_stated_size_was_judged"] = sum(1 for e in evs if e.get("e") == "ret" and "told" in e)
    rep.cov["traces_validated_against_impl"] += nruns


def prod_conc_part(work, rep, tier, seed, prop, what):
    """Overlapping requests through the production binary (concurrent HTTP/2 streams on the bastion connection it dials, reads over its read API):
    random programs and 'twin' programs (overlapping submissions that differ in one respect only). Under overlap the answer to each request is
    judged by Trace_Lin: it must be the answer of the atomic witness in SOME order compatible with real time."""
    rng = random.Random(seed * 7919 + 13)
    binp = build_prod_binary()
    shapes = [("sqlfile", 20, 60, 4)] if tier == "quick" else [("sqlfile", 100, 400, 4), ("inmem", 60, 200, 4)]
    n = 0
    for store, nrand, ntwin, ng in shapes:
        runs = [{"id": "pc%s-%d" % (prop, j), "mode": "free", "db0": db0_of("none"), "prog": random_programs(rng, ng, 6), "sched": []} for j in range(nrand)]
        runs += [{"id": "twin%s-%d" % (prop, j), "mode": "free", "db0": db0_of("s1"), "prog": twin_programs(rng, ng), "sched": []} for j in range(ntwin)]
        rp, tp = work.path("pc-%s-%s.jsonl" % (prop, store)), work.path("pc-%s-%s.ndjson" % (prop, store))
        write_runs(rp, OPS_PARAMS, runs)
        o, dt = run_driver(["prod-conc", "-bin", binp, "-in", rp, "-out", tp, "-store", store, "-seed", str(seed), "-dir", work.sub("db")])
        rep.notes.append("overlapping requests/" + o.strip())
        for r in judge_in_chunks(work, rep, tp, ng, "pc-%s-%s" % (prop, store)):
            evs = [e for e in read_ndjson(tp) if e.get("run") == r["run"]]
            rep.violation("%s: run %s of overlapping requests against the production binary (%s): the answers are not those of the atomic witness in any order compatible "
                          "with real time; the judge cannot get past event %d" % (what, r["run"], store, r["i"]), {"property": prop, "store": store, "run": r["run"], "events": evs})
        n += len(runs)
        rep.cov["evaluations"] += sum(1 for e in read_ndjson(tp) if e.get("e") == "ret")
    rep.cov["overlapping_request_runs_against_the_production_binary"] = n
    rep.cov["traces_validated_against_impl"] += n


def c05(work, tier, seed, replay):
    rep = Report("C05", tier, seed, "model_checking")
    rng = random.Random(seed)
    build_driver()
    progs = scenario_programs(work)
    if tier == "quick":
        plan = [(s, st, True) for s in SCEN2 for st in ("InMem", "Sql1")] + [("Sc3_TofuForkRead", "InMem", True), ("Sc3_TofuForkRead", "Sql1", True),
                                                                            ("Sc3_GrowGrowGrow", "Sql1", True), ("Sc_TofuFork", "InMem", False), ("Sc_GrowFork", "Sql1", False)]
        sim4, free_shapes = 200, [(60, 4, 8)]
    else:
        plan = ([(s, st, True) for s in SCEN2 for st in ("InMem", "Sql1")] + [(s, st, True) for s in SCEN3 for st in ("InMem", "Sql1")]
                + [(s, st, False) for s in ("Sc_TofuFork", "Sc_GrowFork", "Sc_GrowRefresh", "Sc_TofuRead", "Sc_GrowRead") for st in ("InMem", "Sql1")])
        sim4, free_shapes = 3000, [(300, 5, 10), (30, 8, 8)]     # (runs, goroutines, operations each); the judge's search is exponential in the goroutines
    by_store = {"InMem": [], "Sql1": []}
    nsched = 0
    for scen, store, eager in plan:
        db = dict(SCEN2, **SCEN3, **SCEN4)[scen]
        c = ops_consts(scen, db, store, eager=eager)
        ops_model_check(work, rep, scen + ("" if eager else "+invoke"), c)
        sch = ops_list(work, scen, c)
        for j, s in enumerate(sch):
            by_store[store].append({"id": "%s%s-%d" % (scen, "" if eager else "i", j), "mode": "gated", "eager": eager, "db0": db0_of(db), "prog": progs[scen], "sched": s["sched"]})
        nsched += len(sch)
        rep.cov.setdefault("schedules", {})["%s/%s%s" % (scen, store, "" if eager else "/invoke-steps")] = len(sch)
    # cross runs: every interleaving TLC lists for the IN-MEMORY store is also forced on SQLite. With the production code a Begin
    # that has to wait for the single connection simply stays blocked (the scheduler moves on after 40 ms); code that no longer
    # serialises through the connection is driven through the interleavings the connection would have excluded.
    for scen in ("Sc_TofuFork", "Sc_GrowFork", "Sc_GrowSizes", "Sc_GrowRefresh"):
        db = SCEN2[scen]
        sch = ops_list(work, scen, ops_consts(scen, db, "InMem"))
        if tier == "quick":
            sch = sch[::3]
        for j, s in enumerate(sch):
            by_store["Sql1"].append({"id": "%sx-%d" % (scen, j), "mode": "gated", "eager": True, "waitms": 40, "db0": db0_of(db), "prog": progs[scen], "sched": s["sched"]})
        rep.cov["schedules"]["%s/in-memory interleavings forced on SQLite" % scen] = len(sch)
    # four processes: sampled behaviours of the unreduced space
    for scen, db in SCEN4.items():
        for store in ("InMem", "Sql1"):
            c = ops_consts(scen, db, store)
            ops_model_check(work, rep, scen, c)
            sch = ops_list(work, scen, c, simulate=sim4, seed=seed)
            for j, s in enumerate(sch):
                by_store[store].append({"id": "%s-%d" % (scen, j), "mode": "gated", "eager": True, "db0": db0_of(db), "prog": progs[scen], "sched": s["sched"]})
            rep.cov["schedules"]["%s/%s (sampled)" % (scen, store)] = len(sch)
            rep.cov["exhaustive"] = False
    rejected = []
    drift = 0
    for store, runs in by_store.items():
        if not runs:
            continue
        rp, tp = work.path("ops-%s.jsonl" % store), work.path("ops-%s.ndjson" % store)
        write_runs(rp, OPS_PARAMS, runs)
        o, dt = run_driver(["ops", "-in", rp, "-out", tp, "-store", STORES[store], "-seed", str(seed), "-workers", str(NCPU), "-dir", work.sub("db")])
        rep.notes.append(o.strip())
        m = re.search(r"drift=(\d+)", o)
        drift += int(m.group(1)) if m else 0
        rejected += [(store, r, tp) for r in judge_in_chunks(work, rep, tp, 4, "gated-" + store)]
        rep.cov["traces_validated_against_impl"] += len(runs)
        # op-level binding: the storage calls of these runs are behaviours of WitnessOps (a rejection is model drift, reported, not a verdict)
        groups = ["Sc_TofuFork", "Sc_GrowFork", "Sc_GrowRead", "Sc3_TofuForkRead"] if tier == "quick" else [s_ for s_, st_, e_ in plan if st_ == store and e_]
        for scen in dict.fromkeys(groups):
            v = ops_trace_validate(work, rep, tp, scen, dict(SCEN2, **SCEN3, **SCEN4)[scen], store)
            if v:
                rep.cov.setdefault("storage_call_traces_validated_against_WitnessOps", []).append(v)
                if not v["accepted"]:
                    drift += 1
                    rep.notes.append("op-level drift: %s" % json.dumps(v)[:600])
    # free-running goroutines under the race detector
    for store, (free_runs, ng, nops) in [(st_, sh_) for st_ in ("InMem", "Sql1") for sh_ in free_shapes]:
        free_shape = (ng, nops)
        runs = []
        for j in range(free_runs):
            runs.append({"id": "free%dx%d-%d" % (ng, nops, j), "mode": "free", "db0": db0_of("none"), "prog": random_programs(rng, ng, nops), "sched": []})
        rp, tp = work.path("free-%s-%d.jsonl" % (store, ng)), work.path("free-%s-%d.ndjson" % (store, ng))
        write_runs(rp, OPS_PARAMS, runs)
        try:
            o, dt = run_driver(["ops", "-in", rp, "-out", tp, "-store", STORES[store], "-seed", str(seed), "-workers", "4", "-dir", work.sub("db")], race=True,
                               env={"GORACE": "halt_on_error=1 exitcode=66"})
        except Inconclusive as e:
            if "DATA RACE" in str(e):
                # top frames of the two conflicting accesses: a race entirely inside the harness is not an observation of the code
                tops = re.findall(r"(?:Read|Write|Previous read|Previous write) at [^\n]*\n\s+\S+\n\s+(\S+):\d+", str(e))
                if tops and all(t.startswith(HARNESS) for t in tops):
                    raise Inconclusive("data race inside the harness itself: " + str(e)[-1500:])
                rep.violation("the race detector reports a data race in a free-running many-goroutine run on %s: %s" % (store, str(e)[-1500:]), {"store": store, "runs": rp})
                continue
            raise
        rep.notes.append("free/" + o.strip())
        rejected += [(store, r, tp) for r in judge_in_chunks(work, rep, tp, free_shape[0], "free-%s-%d" % (store, ng))]
        rep.cov["traces_validated_against_impl"] += len(runs)
        rep.cov["free_running_runs"] = rep.cov.get("free_running_runs", 0) + len(runs)
    rep.cov["drift"] = drift
    # ---- the production binary (cmd/omniwitness as it ships: sql.Open + SetMaxOpenConns(1) + omniwitness.Main) under concurrent clients:
    # updates arrive over the bastion connection it dials (concurrent HTTP/2 streams), reads over its read API
    prod_shapes = [("sqlfile", 40, 4, 8)] if tier == "quick" else [("sqlfile", 300, 5, 10), ("inmem", 150, 5, 10), ("sqlfile", 40, 8, 6)]
    binp = build_prod_binary()
    for store, nruns, ng, nops in prod_shapes:
        runs = [{"id": "prod%dx%d-%d" % (ng, nops, j), "mode": "free", "db0": db0_of("none"), "prog": random_programs(rng, ng, nops), "sched": []} for j in range(nruns)]
        rp, tp = work.path("prod-%s-%d.jsonl" % (store, ng)), work.path("free-prod-%s-%d.ndjson" % (store, ng))
        write_runs(rp, OPS_PARAMS, runs)
        o, dt = run_driver(["prod-conc", "-bin", binp, "-in", rp, "-out", tp, "-store", store, "-seed", str(seed), "-dir", work.sub("db")])
        rep.notes.append("prod/" + o.strip())
        rejected += [("production binary/" + store, r, tp) for r in judge_in_chunks(work, rep, tp, ng, "prod-%s-%d" % (store, ng))]
        rep.cov["traces_validated_against_impl"] += len(runs)
        rep.cov["production_binary_runs"] = rep.cov.get("production_binary_runs", 0) + len(runs)
    # ---- why the single connection: the same code on a pool of several SQLite connections (SqlN) keeps every safety property of this family
    # but not the error clause of C05 (a storage error only when another write to the same log got in between); TLC must find that
    sq = []
    for scen in (["Sc_GrowLogs", "Sc_GrowFork"] if tier == "quick" else ["Sc_GrowLogs", "Sc_TofuLogs", "Sc_GrowFork", "Sc_TofuFork", "Sc3_GrowGrowGrow", "Sc3_TofuForkRead"]):
        db = dict(SCEN2, **SCEN3)[scen]
        c = ops_consts(scen, db, "SqlN", driver_steps=True)
        safe = tlc(work, "MC_Ops", cfg_text(spec="Spec", constants=c, invariants=["NoLeak"], properties=[p_ for p_ in OPS_PROPS if p_ != "ErrOnlyOnConflict"], view="ViewNoSched"),
                   name="sqln-safe-" + scen, workers=4, timeout=900)
        err = tlc(work, "MC_Ops", cfg_text(spec="Spec", constants=c, properties=["ErrOnlyOnConflict"], view="ViewNoSched"), name="sqln-err-" + scen, workers=4, timeout=900)
        if not safe.ok or "ErrOnlyOnConflict" not in err.violated:
            raise Inconclusive("the SqlN design variant does not behave as documented on %s: safety ok=%s violated=%s; error clause violated=%s" % (scen, safe.ok, safe.violated, err.violated))
        sq.append({"scenario": scen, "states": safe.distinct, "safety_properties_hold": True, "ErrOnlyOnConflict": "refuted by TLC (expected)"})
    rep.cov["design_variant_SqlN_pool_of_connections"] = sq
    # ---- "never accepted on the strength of a state that was no longer current": the store reports trouble during one call (TLC-listed placements
    # at the SQL-driver level: the query, the row fetch, the insert, the commit) and works again right after, as when another process held the
    # database lock for a moment. Trace_Witness: the answer is the atomic witness' answer on the state that was current, or a storage error without effect.
    two_instance_lin_part(work, rep, tier, seed, "C05")
    import seqfam
    # ---- "in some order compatible with real time ... no reader ever sees a log's size go down", through the registered HTTP handlers: a read whose
    # return from storage is held back while an update is accepted and further reads arrive (scripted overlaps; both stores). A read that STARTED
    # after the accepted update returned sees it - whatever the read path shares between requests (coalesced in-flight reads, a cache filled on a miss).
    import checks_seq
    rc = checks_seq.H("quick")
    rruns = checks_seq.racy_read_runs(rc)
    rtrace, _ = seqfam.execute(work, rep, rc, rruns, ["inmem", "sqlmem", "sqlfile"], ["id"], seed, http=True, tag="c05racy")
    revents = seqfam.index_trace(rtrace)
    seqfam.settle(rep, "C05", seqfam.judge(work, rep, rc, rtrace, name="judge-racy-reads"), revents, rc)
    nreads = sum(1 for e in revents if e.get("e") == "get")
    if not nreads:
        raise Inconclusive("the overlapping-read runs recorded no read")
    rep.cov["reads_overlapping_accepted_updates_over_http"] = nreads
    fev, _ = fault_pipeline(work, rep, "quick", seed, "C05", groups={"driver", "fetch"})
    rep.cov["updates_during_which_the_store_reported_trouble"] = sum(1 for e in fev if e.get("e") == "update" and e.get("fired"))
    for store, r, tp in rejected:
        evs = [e for e in read_ndjson(tp) if e.get("run") == r["run"]]
        rep.violation("history of run %s on %s is not linearizable w.r.t. the atomic witness (with the storage-error exception); the judge cannot get past event %d"
                      % (r["run"], store, r["i"]), {"property": "C05", "store": store, "run": r["run"], "events": evs})
    n_ev = 0
    distinct = set()
    import glob
    for tp in sorted(glob.glob(work.path("ops-*.ndjson")) + glob.glob(work.path("free-*.ndjson"))):
            if True:
                for e in read_ndjson(tp):
                    if e["e"] == "ret":
                        n_ev += 1
                    if e["e"] == "final" and e.get("calls"):
                        distinct.add(json.dumps(e["calls"]))
                    if e["e"] == "final" and not e.get("calls"):
                        distinct.add(e["run"])
                if len(rep.cov["samples"]) < 3:
                    rep.sample(read_ndjson(tp)[:8])
    rep.cov["evaluations"] = n_ev
    rep.cov["distinct_nontrivial"] = len(distinct)
    rep.cov["rule"] = ("TLC lists EVERY interleaving, at storage-call granularity, of the scenario menu (conflicting first use, forks from the same old size, growth vs refresh, refused vs accepted, "
                       "different logs, readers) for 2 and 3 processes on both stores, samples 4-process behaviours, and the gate scheduler forces each on the real witness over the real in-memory store "
                       "and file-backed SQLite with one connection; plus free-running goroutines under -race; plus the production binary (cmd/omniwitness as it ships, --db_file, reached by concurrent "
                       "clients over the bastion connection it dials and its read API); each recorded invocation/response history is judged by Trace_Lin; "
                       "distinct = distinct observed sequences of storage calls (gated) + free-running runs")
    rep.cov.setdefault("exhaustive", True)
    rep.assumptions += ["the gate wrapper delegates transparently", "database/sql blocks a second Begin while the single connection is taken", "TLC"]
    return rep.finish()


def judge_in_chunks(work, rep, trace, nproc, name, chunk=60000):
    lines = open(trace).read().splitlines(True)
    if len(lines) <= chunk:
        return lin_judge(work, rep, trace, nproc, name)
    rej, start, part = [], 0, 0
    while start < len(lines):
        end = min(len(lines), start + chunk)
        while end < len(lines) and not lines[end].startswith('{"e":"reset"'):
            end += 1
        p = work.path("%s-chunk%d.ndjson" % (name, part))
        open(p, "w").writelines(lines[start:end])
        rej += lin_judge(work, rep, p, nproc, "%s-%d" % (name, part))
        os.remove(p)
        start, part = end, part + 1
    return rej


CHECKS["C05"] = c05


# ----------------------------------------------------------------------------- C07

IFACE = {"WriteOpsFail": "WriteOps", "GetLatestFail": "GetLatest", "SetFail": "Set", "CommitFail": "Set", "CloseFail": "Close", "ReadGetFail": "ReadGetLatest"}
DRIVER = {"WriteOpsFail": "begin", "GetLatestFail": "query", "SetFail": "exec", "CommitFail": "commit", "CloseFail": "rollback", "ReadGetFail": "query"}
TAIL = [{"op": "update", "log": "l1", "req": {"auth": "good", "old": 0, "b": 1, "n": 2, "extra": 0, "stale": 0, "ext": 0, "pf": {"k": "empty"}}},   # what a wrongly reset witness would accept
        {"op": "probe", "log": "l1", "n": 2}, {"op": "probe", "log": "l1", "n": 3}, {"op": "get", "log": "l1"}, {"op": "probe", "log": "l1", "n": 3}]


SQLITE_CODES = list(range(1, 27))
DRIVER_FETCH = dict(DRIVER, GetLatestFail="next", ReadGetFail="next")     # the row fetch fails instead of the query


def fault_steps(prog, sched, level):
    """program + TLC schedule with ...Fail actions -> seq-driver steps carrying the failures of each operation"""
    faults = [[] for _ in prog]
    k = 0
    for p, name in sched:
        if k >= len(prog):
            break
        if name.endswith("Fail"):
            faults[k].append({"iface": IFACE, "driver": DRIVER, "fetch": DRIVER_FETCH}[level][name])
        if name in ("Close", "CloseFail", "WriteOpsFail", "ReadGetFail") or (name == "GetLatest" and prog[k]["kind"] == "read"):
            k += 1
    steps = []
    for op, fs in zip(prog, faults):
        if op["kind"] == "read":
            st = {"op": "get", "log": op["log"]}
            if fs:
                st["faults" if level == "iface" else "dfaults"] = fs
            steps.append(st)
            continue
        st = {"op": "update", "log": op["log"], "req": op["req"]}
        if fs:
            st["faults" if level == "iface" else "dfaults"] = fs
        steps.append(st)
        if fs:
            # the caller does what callers do after a storage error: the very same request again, at once, with the store working
            steps.append({"op": "update", "log": op["log"], "req": op["req"]})
    return steps, sum(len(f) for f in faults)


def fault_pipeline(work, rep, tier, seed, prop, groups=None):
    """TLC-listed fault placements over the update histories, executed at interface and driver level, judged for `prop`"""
    import seqfam
    build_driver()
    progs = scenario_programs(work)
    maxf = 1 if tier == "quick" else 2
    plans = []   # (store kind for the driver, level, runs)
    runs_by = {("inmem", "iface"): [], ("sqlfault", "iface"): [], ("sqlfault", "driver"): [], ("sqlfault", "fetch"): [], ("sqlfault", "coded"): [], ("inmem", "panic"): [], ("sqlfault", "panic"): []}
    nplace = 0
    for scen, db in HIST.items():
        for store, ds in (("InMem", False), ("Sql1", True)):
            c = ops_consts(scen, db, store, faults=maxf, driver_steps=ds)
            ops_model_check(work, rep, scen + "+faults", c)
            sch = ops_list(work, scen, c)
            for j, s in enumerate(sch):
                levels = ["iface"] if store == "InMem" else ["iface", "driver", "fetch"]
                for lv in levels:
                    steps, nf = fault_steps(progs[scen][0], s["sched"], lv)
                    if lv == "fetch" and not any("next" in (st_.get("dfaults") or []) for st_ in steps):
                        continue
                    pre = seqfam.tofu_steps(db0_of(db), 2) if db == "s1" else []
                    pre = [x for x in pre if x["log"] == "l1"]
                    runs_by[("inmem" if store == "InMem" else "sqlfault", lv)].append(
                        {"id": "%s-%s-%d" % (scen, lv, j), "steps": pre + steps + TAIL})
                    nplace += 1 if nf else 0
                    # WHICH error the library reports must not matter: the same placement once with every primary result code SQLite documents
                    # (SQLITE_ERROR=1 .. SQLITE_NOTADB=26), as the typed error mattn/go-sqlite3 returns for it
                    if lv in ("driver", "fetch") and nf == 1:
                        for code in SQLITE_CODES:
                            cs = [dict(st_, dfaults=[f + "#%d" % code for f in st_["dfaults"]]) if st_.get("dfaults") else st_ for st_ in steps]
                            runs_by[("sqlfault", "coded")].append({"id": "%s-%s-%d-code%d" % (scen, lv, j, code), "steps": pre + cs + TAIL})
            rep.cov.setdefault("fault_behaviours", {})["%s/%s" % (scen, store)] = len(sch)
        # the caller goes away: the context of one update is cancelled while one of its storage calls is in progress (no storage failure at all).
        # The code may ignore the context or honour it; what it answers as a refusal must have had, and must keep having, no effect.
        prog = progs[scen][0]
        nh = 0
        for k_, op_ in enumerate(prog):
            if op_["kind"] != "update":
                continue
            for call in ("WriteOps", "GetLatest", "Set", "before"):       # ("before": the context had ended before the call was made)
                steps = []
                for j_, o2 in enumerate(prog):
                    st_ = {"op": "get", "log": o2["log"]} if o2["kind"] == "read" else {"op": "update", "log": o2["log"], "req": o2["req"]}
                    if j_ == k_:
                        st_["hold"] = call
                    steps.append(st_)
                pre = [x for x in (seqfam.tofu_steps(db0_of(db), 2) if db == "s1" else []) if x["log"] == "l1"]
                for stkind in ("inmem", "sqlfault"):
                    runs_by[(stkind, "iface")].append({"id": "%s-hold%d%s" % (scen, k_, call), "steps": pre + steps + TAIL})
                nh += 1
        rep.cov.setdefault("context_cancelled_during_storage_call", {})[scen] = nh
        # the storage layer PANICS inside one call of one update; the caller recovers (as net/http and the bastion's HTTP/2 server do per request)
        npn = 0
        for k_, op_ in enumerate(prog):
            if op_["kind"] != "update":
                continue
            for call in ("WriteOps", "GetLatest", "Set"):      # (a panic in Close comes after the commit: the update WAS accepted)
                steps = []
                for j_, o2 in enumerate(prog):
                    st_ = {"op": "get", "log": o2["log"]} if o2["kind"] == "read" else {"op": "update", "log": o2["log"], "req": o2["req"]}
                    if j_ == k_:
                        st_["faults"] = ["panic:" + call]
                    steps.append(st_)
                pre = [x for x in (seqfam.tofu_steps(db0_of(db), 2) if db == "s1" else []) if x["log"] == "l1"]
                for stkind in ("inmem", "sqlfault"):
                    runs_by[(stkind, "panic")].append({"id": "%s-panic%d%s" % (scen, k_, call), "steps": pre + steps + TAIL})
                npn += 1
        rep.cov.setdefault("storage_call_panics_recovered_by_the_caller", {})[scen] = npn
        # a long OUTAGE of one storage call: the same update fails a hundred times in a row at that call (the database is unreachable, the disk
        # is full for a while), then the store works again: the witness carries on from the last committed state, whatever it counted meanwhile
        upds = [o2 for o2 in prog if o2["kind"] == "update"]
        if upds:
            o2 = upds[-1]
            pre = [x for x in (seqfam.tofu_steps(db0_of(db), 2) if db == "s1" else []) if x["log"] == "l1"]
            bad = {"op": "update", "log": o2["log"], "req": o2["req"]}
            for call in ("WriteOps", "GetLatest", "Set"):
                runs_by[("inmem", "iface")].append({"id": "%s-outage-%s" % (scen, call), "steps": pre + [dict(bad, faults=[call])] * 100 + [bad] + TAIL})
                runs_by[("sqlfault", "iface")].append({"id": "%s-outage-%s" % (scen, call), "steps": pre + [dict(bad, faults=[call])] * 100 + [bad] + TAIL})
            for dcall in ("begin", "query", "exec", "commit"):
                runs_by[("sqlfault", "driver")].append({"id": "%s-outage-d%s" % (scen, dcall), "steps": pre + [dict(bad, dfaults=[dcall])] * 100 + [bad] + TAIL})
            rep.cov.setdefault("outages_of_one_storage_call_of_100_requests", {})[scen] = 10
    jc = seqfam.consts(Logs={"l1", "l2"}, MaxSize=3, NBranch=2, ForkAt=Sub("Fork_1"))
    all_events = []
    for (store, lv), runs in runs_by.items():
        if groups is not None:
            runs = [r_ for r_ in runs if (lv in groups and "-hold" not in r_["id"]) or ("hold" in groups and "-hold" in r_["id"])]
        if not runs:
            continue
        ids_ = [r_["id"] for r_ in runs]
        if len(set(ids_)) != len(ids_):
            raise Inconclusive("harness error: duplicate run ids in fault group %s/%s: %s" % (store, lv, sorted({i_ for i_ in ids_ if ids_.count(i_) > 1})[:5]))
        rp, tp = work.path("f-%s-%s.jsonl" % (store, lv)), work.path("f-%s-%s.ndjson" % (store, lv))
        write_runs(rp, OPS_PARAMS, runs)
        try:
            o, dt = run_driver(["seq", "-in", rp, "-out", tp, "-store", store, "-embed", "id", "-seed", str(seed), "-workers", str(NCPU), "-dir", work.sub("db"), "-faults"])
        except Inconclusive as e:
            if lv == "panic" and "injected panic" in str(e):
                # the code under verification made the storage call on a goroutine of its own: the injected panic could not be recovered by the
                # caller and took the driver process down. Those runs say nothing; the other groups are judged as usual.
                rep.notes.append("%s/panic runs not judged: the injected storage panic was raised on a goroutine the code started itself" % store)
                rep.cov["panic_runs_not_judged"] = rep.cov.get("panic_runs_not_judged", 0) + len(runs)
                continue
            raise
        rep.notes.append("%s/%s: %s" % (store, lv, o.strip()))
        events = read_ndjson(tp)
        fails = seqfam.judge(work, rep, jc, tp, name="judge-%s-%s" % (store, lv))
        seqfam.settle(rep, prop, fails, events, jc, extra_replay={"store": store, "level": lv})
        all_events += events
        rep.cov["traces_validated_against_impl"] += len(runs)
    rep.cov["fault_placements_with_a_failure"] = nplace
    return all_events, maxf


def c07(work, tier, seed, replay):
    rep = Report("C07", tier, seed, "fault_enumeration")
    all_events, maxf = fault_pipeline(work, rep, tier, seed, "C07")
    nplace = rep.cov["fault_placements_with_a_failure"]
    ups = [e for e in all_events if e.get("e") == "update"]
    fired = [e for e in ups if e.get("fired")]
    rep.cov["evaluations"] = len(ups)
    rep.cov["distinct_nontrivial"] = len({json.dumps([e["run"].split("-")[0], e["k"], e["fired"], e["v"]]) for e in fired})
    rep.cov["fault_placements_with_a_failure"] = nplace
    rep.cov["steps_where_a_failure_fired"] = len(fired)
    rep.cov["rule"] = ("TLC lists every behaviour of WitnessOps for the single-process histories (first use; first use, growth; first use, refresh; first use, refused fork, growth ...) with up to %d "
                       "storage failures at any call (open-for-write, read latest with a non-NotFound error, write, commit, close); each is executed at interface level (wrapping LogStatePersistence) "
                       "on the in-memory store and on file-backed SQLite, and at driver level (wrapping database/sql driver: begin, query, exec, commit, rollback) on SQLite with one connection, "
                       "followed by fault-free operation: the forged first-use probe, honest probes, a read; judged by the C07 monitors of Trace_Witness; "
                       "distinct = distinct (history, step, failures fired, verdict)" % maxf)
    rep.cov["exhaustive"] = True
    for e in fired[:3]:
        rep.sample(e)
    rep.assumptions += ["a storage that applies a write and then reports failure is lying and is not counted against the witness",
                        "the wrapping persistence / driver delegate transparently; leak evidence is the wrapper's begun-minus-finished count and db.Stats().InUse"]
    if rep.cov["distinct_nontrivial"] < 2:
        raise Inconclusive("no injected failure fired")
    return rep.finish()


CHECKS["C07"] = c07


# ----------------------------------------------------------------------------- C06

def c06(work, tier, seed, replay):
    import seqfam
    rep = Report("C06", tier, seed, "fault_enumeration")
    build_driver()
    progs = scenario_programs(work)
    hists = []
    model_crash_states = 0
    for scen, db in HIST.items():
        c = ops_consts(scen, db, "Sql1", crash=1, driver_steps=True)
        ops_model_check(work, rep, scen + "+crash", c)
        sch = ops_list(work, scen, c)
        ncr = sum(1 for s in sch if s["crashed"])
        model_crash_states += ncr
        rep.cov.setdefault("model_crash_behaviours", {})[scen] = ncr
        pre = [x for x in seqfam.tofu_steps(db0_of(db), 2) if x["log"] == "l1"] if db == "s1" else []
        steps = pre + [{"op": "update", "log": op["log"], "req": op["req"]} for op in progs[scen][0] if op["kind"] == "update"]
        hists.append({"id": scen, "steps": steps})
    # the same growth histories on a database file that ALREADY EXISTS when the tree's code first opens it: written with the schema of the pinned
    # release and holding an acknowledged checkpoint; start-up (Init, where a schema upgrade would run) is inside the kill window
    for scen in ("H_Grow", "H_GrowGrow"):
        hists.append({"id": "L" + scen[1:], "legacy": True, "steps": [{"op": "update", "log": op["log"], "req": op["req"]} for op in progs[scen][0] if op["kind"] == "update"]})
    # another process holds a lock on the file while one update commits: COMMIT fails with SQLITE_BUSY and the driver rolls back; the history
    # goes on and the process is killed afterwards. Nothing that was acknowledged may be missing after the restart.
    for scen in ("H_TofuGrow", "H_GrowGrow"):
        ups = [{"op": "update", "log": op["log"], "req": op["req"]} for op in progs[scen][0] if op["kind"] == "update"]
        pre = [x for x in seqfam.tofu_steps(db0_of(HIST[scen]), 2) if x["log"] == "l1"] if HIST[scen] == "s1" else []
        for k_ in range(len(pre), len(pre) + len(ups)):
            hists.append({"id": "B%s%d" % (scen[1:], k_), "busycommit": k_ + 1, "steps": pre + ups})
            # ... or the database file is read-only for the witness for a moment (permissions, a remount): the INSERT of that update fails with
            # SQLITE_READONLY (the transaction stays open: a COMMIT right after it would succeed and write nothing), the same request is repeated
            hists.append({"id": "R%s%d" % (scen[1:], k_), "busycommit": k_ + 1, "failop": "exec#8", "steps": pre + ups})
    # checkpoints of several database pages (the most signature lines a note may carry): one COMMIT is several page writes
    def big(op_):
        return {"op": "update", "log": op_["log"], "req": dict(op_["req"], extra=OPS_BASE["MaxLines"] - 1 - OPS_BASE["NWitKeys"])}
    hists.append({"id": "P_TofuGrowBig", "steps": [big(op) for op in progs["H_TofuGrow"][0] if op["kind"] == "update"] + [big(op) for op in progs["H_TofuRefresh"][0][1:] if op["kind"] == "update"]})
    hp, tp = work.path("hists.jsonl"), work.path("crash.ndjson")
    write_runs(hp, OPS_PARAMS, hists)
    hp_prod = work.path("hists-prod.jsonl")
    write_runs(hp_prod, OPS_PARAMS, [h_ for h_ in hists if not h_.get("legacy") and not h_.get("busycommit")])
    nrand = 20 if tier == "quick" else 400
    o, dt = run_driver(["crash", "-in", hp, "-out", tp, "-dir", work.sub("db"), "-random", str(nrand), "-seed", str(seed), "-workers", str(NCPU), "-preload", build_preload()], timeout=3000)
    rep.notes.append(o.strip())
    m = re.search(r"CRASH runs=(\d+) boundaries=(\d+)", o)
    # ---- the production binary (cmd/omniwitness: flags, sql.Open(--db_file), SetMaxOpenConns(1), omniwitness.Main) is SIGKILLed at a random instant
    # while it serves the same histories over the bastion connection it dialled, restarted on the same file, read through its read API and probed
    binp = build_prod_binary()
    tp2 = work.path("prod-crash.ndjson")
    o2, dt2 = run_driver(["prod-crash", "-bin", binp, "-in", hp_prod, "-out", tp2, "-dir", work.sub("db"), "-seed", str(seed), "-workers", str(NCPU), "-kills", "2" if tier == "quick" else "24"], timeout=3000)
    rep.notes.append(o2.strip())
    with open(tp, "a") as f:
        f.write(open(tp2).read())
    rep.cov["production_binary_kills"] = len([1 for l in open(tp2) if '"e":"crash"' in l])
    events = read_ndjson(tp)
    c = dict(OPS_BASE)
    c["TraceFile"] = tp
    r = tlc(work, "MC_Trace_Crash", cfg_text(spec="Spec", constants=c, action_constraints=["Monitor"], postcondition="Done"), name="judge-crash", workers=1, timeout=1800, heap="8g")
    if not r.ok:
        raise Inconclusive("crash judge failed: %s\n%s" % (r.error or r.violated, r.out[-3000:]))
    fails = [["FAIL", f["id"], f["name"], f["i"], f["run"], f["k"], f["sig"]] for f in map(json.loads, r.prints("FAIL"))]
    seqfam.settle(rep, "C06", fails, events, c)
    rec = [e for e in events if e["e"] == "recover"]
    crashes = [e for e in events if e["e"] == "crash"]
    rep.cov["traces_validated_against_impl"] = len(rec)
    rep.cov["evaluations"] = len(rec)
    rep.cov["driver_boundaries"] = int(m.group(2)) if m else 0
    mw = re.search(r"write_syscalls=(\d+)", o)
    rep.cov["kill_points_at_write_system_calls_on_the_database_file"] = int(mw.group(1)) if mw else 0
    rep.cov["random_instant_kills"] = sum(1 for e in crashes if e["point"] < 0)
    rep.cov["model_crash_states"] = model_crash_states
    # distinct = distinct (history, kill boundary) plus distinct outcomes of random-instant kills
    d = set()
    inflight = 0
    by_run = {}
    for e in events:
        by_run.setdefault(e["run"], []).append(e)
    for run, evs in by_run.items():
        cr = [e for e in evs if e["e"] == "crash"][0]
        acks = [e for e in evs if e["e"] == "upd" and e["acked"]]
        un = [e for e in evs if e["e"] == "upd" and not e["acked"]]
        inflight += 1 if un else 0
        rc = [e for e in evs if e["e"] == "recover"][0]
        d.add(json.dumps([run.split("@")[0], cr["point"] if cr["point"] >= 0 else ([cr.get("op")] if cr["point"] == -2 else [len(acks), rc["stored"]])]))
    rep.cov["distinct_nontrivial"] = len(d)
    rep.cov["kills_with_an_update_in_flight"] = inflight
    newer = 0
    for run, evs in by_run.items():
        un = [e for e in evs if e["e"] == "upd" and not e["acked"]]
        rc = [e for e in evs if e["e"] == "recover"][0]
        acks = [e for e in evs if e["e"] == "upd" and e["acked"] and e["v"] == "Accept"]
        if un and acks and rc["stored"]["l1"] != acks[-1]["retcp"]:
            newer += 1
    rep.cov["recovered_the_unacknowledged_new_value"] = newer
    rep.cov["rule"] = ("for each history (first use; first use+growth; first use+refresh; with refused requests; growth from a stored checkpoint) a dry run lists the real driver-operation boundaries "
                       "(before and after each begin, query, exec, commit, rollback); one child process per boundary performs the history on a file-backed SQLite store through a wrapping driver and SIGKILLs "
                       "itself there; plus random-instant kills from the parent; a fresh process reopens the file, reads the state and probes; judged by Trace_Crash (OldOrNew, AcknowledgedInForce, "
                       "CompleteAndCosigned, RefusesForgedFirstUse, HonestAfterRestart); WitnessOps(Sql1, DriverSteps, Crash) is model-checked for the same histories; the same histories are also served by the "
                       "production binary (cmd/omniwitness with --db_file, reached over a stub bastion), which is SIGKILLed at random instants, restarted on the same file and judged by the same monitors; "
                       "distinct = distinct (history, kill point)")
    rep.cov["exhaustive"] = True
    for run in list(by_run)[:2]:
        rep.sample(by_run[run])
    rep.assumptions += ["SQLite's atomic commit (tested here by process kills, not proved); power loss / lost page cache is out of scope",
                        "the wrapping driver delegates transparently"]
    if inflight < 2 or newer < 1:
        raise Inconclusive("vacuous crash run: no kill hit an update in flight or none landed after the commit")
    return rep.finish()


CHECKS["C06"] = c06
