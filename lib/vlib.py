"""Shared machinery of /verif/bin/check: work directories, building the Go driver against
/repo's working tree, running TLC (design check, generator, judge), graph utilities over
TLC-emitted transitions, evidence files, known findings, exit codes."""
import json, os, re, shutil, subprocess, sys, time, random, collections, hashlib

VERIF = os.path.dirname(os.path.dirname(os.path.abspath(__file__)))
REPO = os.environ.get("VERIF_REPO", "/repo")
SPEC = os.path.join(VERIF, "spec")
HARNESS = os.path.join(VERIF, "harness")
GOENV = dict(os.environ, GOFLAGS="-mod=mod", GOPROXY="off", GOSUMDB="off", GOTOOLCHAIN="local", CGO_ENABLED="1")
NCPU = min(16, os.cpu_count() or 4)


class Inconclusive(Exception):
    pass


class Sub:
    """cfg substitution  Name <- Op"""
    def __init__(self, op):
        self.op = op


def tla_value(v):
    if isinstance(v, bool):
        return "TRUE" if v else "FALSE"
    if isinstance(v, int):
        return str(v)
    if isinstance(v, str):
        return '"%s"' % v
    if isinstance(v, (set, frozenset, list, tuple)):
        return "{" + ", ".join(tla_value(x) for x in sorted(v, key=lambda x: (str(type(x)), x))) + "}"
    raise ValueError(v)


def cfg_text(spec="Spec", constants=None, invariants=(), properties=(), view=None,
             action_constraints=(), constraints=(), postcondition=None, deadlock=False, init_next=None):
    out = []
    if init_next:
        out.append("INIT %s\nNEXT %s" % init_next)
    else:
        out.append("SPECIFICATION %s" % spec)
    out.append("CONSTANTS")
    for k, v in (constants or {}).items():
        if isinstance(v, Sub):
            out.append("  %s <- %s" % (k, v.op))
        else:
            out.append("  %s = %s" % (k, tla_value(v)))
    if invariants:
        out.append("INVARIANTS " + " ".join(invariants))
    if properties:
        out.append("PROPERTIES " + " ".join(properties))
    if view:
        out.append("VIEW " + view)
    for a in action_constraints:
        out.append("ACTION_CONSTRAINT " + a)
    for c in constraints:
        out.append("CONSTRAINT " + c)
    if postcondition:
        out.append("POSTCONDITION " + postcondition)
    out.append("CHECK_DEADLOCK " + ("TRUE" if deadlock else "FALSE"))
    return "\n".join(out) + "\n"


class Work:
    """Scratch directory under /verif/.work, removed on exit."""
    def __init__(self, name):
        self.dir = os.path.join(VERIF, ".work", "%s-%d" % (name, os.getpid()))
        shutil.rmtree(self.dir, ignore_errors=True)
        os.makedirs(self.dir)
        self.n = 0

    def sub(self, name):
        d = os.path.join(self.dir, name)
        os.makedirs(d, exist_ok=True)
        return d

    def path(self, name):
        return os.path.join(self.dir, name)

    def cleanup(self):
        if not os.environ.get("VERIF_KEEP"):
            shutil.rmtree(self.dir, ignore_errors=True)


def sh(cmd, cwd=None, env=None, timeout=None, check=False, stdin=None):
    t0 = time.time()
    p = subprocess.run(cmd, cwd=cwd, env=env, stdout=subprocess.PIPE, stderr=subprocess.STDOUT, timeout=timeout,
                       input=stdin, text=True, errors="replace")
    if check and p.returncode != 0:
        raise Inconclusive("command failed (%d): %s\n%s" % (p.returncode, " ".join(cmd), p.stdout[-4000:]))
    return p.returncode, p.stdout, time.time() - t0


# --------------------------------------------------------------------------- Go driver

# add-only overlay shims the driver can do without (degraded): name -> virtual file in /repo
SHIM_OF = {"omni": "omniwitness/zz_verif_shim.go", "bastion": "internal/feeder/bastion/zz_verif_shim.go", "sumdb": "internal/feeder/sumdb/zz_verif_shim.go"}
SHIMS_OFF = set()


def overlay_json(path, without=()):
    """Overlay that adds the add-only verif shims as virtual files of /repo packages."""
    shims = os.path.join(HARNESS, "shims")
    rep = {}
    mapping = os.path.join(shims, "MAP.json")
    skip = {SHIM_OF[n] for n in without}
    if os.path.exists(mapping):
        for virt, src in json.load(open(mapping)).items():
            if virt not in skip:
                rep[os.path.join(REPO, virt)] = os.path.join(shims, src)
    json.dump({"Replace": rep}, open(path, "w"))
    return path


_built = {}


def build_driver(race=False):
    """Builds harness/cmd/driver against /repo's CURRENT working tree. Build failure = inconclusive."""
    key = "race" if race else "plain"
    if key in _built:
        return _built[key]
    shutil.copy(os.path.join(REPO, "go.sum"), os.path.join(HARNESS, "go.sum"))
    # the harness module resolves the code under verification through a replace directive: point it at REPO
    gm = os.path.join(HARNESS, "go.mod")
    txt = open(gm).read()
    new = re.sub(r"replace github.com/transparency-dev/witness => \S+", "replace github.com/transparency-dev/witness => " + REPO, txt)
    if new != txt:
        open(gm, "w").write(new)
    os.makedirs(os.path.join(HARNESS, "bin"), exist_ok=True)
    out = os.path.join(HARNESS, "bin", "driver-race" if race else "driver")
    def build(without):
        ov = overlay_json(os.path.join(HARNESS, "bin", "overlay.json"), without)
        cmd = ["go", "build", "-tags", ",".join(["verif"] + ["noshim_" + n for n in sorted(without)]), "-overlay", ov, "-o", out]
        if race:
            cmd.append("-race")
        cmd.append("./cmd/driver")
        return sh(cmd, cwd=HARNESS, env=GOENV, timeout=1800)
    rc, o, dt = build(SHIMS_OFF)
    if rc != 0 and not SHIMS_OFF:
        # an add-only shim reaches an unexported identifier whose shape changed in this tree: build without it. Commands that need that shim
        # end with exit code 3 (inconclusive for the checks that use them); everything else keeps working.
        broken = {n for n, virt in SHIM_OF.items() if virt in o or os.path.basename(json.load(open(os.path.join(HARNESS, "shims", "MAP.json")))[virt]) in o}
        if broken:
            rc2, o2, dt = build(broken)
            if rc2 == 0:
                SHIMS_OFF.update(broken)
                rc, o = rc2, o2
                sys.stderr.write("note: overlay shim(s) %s do not compile against %s; driver built without them\n" % (sorted(broken), REPO))
    if rc != 0:
        raise Inconclusive("driver does not build against %s:\n%s" % (REPO, o[-6000:]))
    _built[key] = out
    return out


def run_driver(args, timeout=3600, race=False, env=None, cwd=None):
    drv = build_driver(race)
    e = dict(GOENV)
    if env:
        e.update(env)
    rc, o, dt = sh([drv] + args, env=e, timeout=timeout, cwd=cwd)
    if rc not in (0, 3) and dt < 600 and "DATA RACE" not in o:
        # one retry: a driver process that died for a reason of its own (seen twice in a day, never reproduced) must not make a check inconclusive;
        # a failure that is about the tree under verification fails again
        sys.stderr.write("note: driver %s failed (%d), retrying once:\n%s\n" % (args[0], rc, o[-1500:]))
        rc, o, dt = sh([drv] + args, env=e, timeout=timeout, cwd=cwd)
    if rc == 3 and "SHIM-UNAVAILABLE" in o:
        raise Inconclusive("driver command %s needs an overlay shim that does not compile against this tree (%s)" % (args[0], o.strip().splitlines()[-1]))
    if rc != 0:
        raise Inconclusive("driver %s failed (%d):\n%s" % (args[0], rc, o[-4000:]))
    return o, dt


# --------------------------------------------------------------------------- TLC

class TLCResult:
    def __init__(self, rc, out, wall):
        self.rc, self.out, self.wall = rc, out, wall
        m = re.search(r"(\d+) states generated, (\d+) distinct states found", out)
        self.generated = int(m.group(1)) if m else 0
        self.distinct = int(m.group(2)) if m else 0
        self.ok = "Model checking completed. No error has been found." in out or ("Finished in" in out and "Error:" not in out and rc == 0)
        self.violated = re.findall(r"(?:Invariant|Action property|Temporal properties?) (\S+) (?:is|was|were) violated", out)
        self.error = None
        if not self.ok and not self.violated:
            m = re.search(r"Error: (.*)", out)
            self.error = m.group(1) if m else "TLC exit code %d" % rc

    def prints(self, prefix):
        """Lines produced by PrintT of a string starting with prefix; returns decoded payloads."""
        res = []
        pat = '"' + prefix + " "
        for line in self.out.splitlines():
            if line.startswith(pat):
                try:
                    res.append(json.loads(line)[len(prefix) + 1:])
                except Exception:
                    pass
        return res

    def tuples(self, head):
        """Lines produced by PrintT(<<head, ...>>): returns list of lists of fields (strings / ints)."""
        res = []
        pat = '<<"%s"' % head
        for line in self.out.splitlines():
            if line.startswith(pat):
                fields = re.findall(r'"((?:[^"\\]|\\.)*)"|(-?\d+)', line)
                res.append([a if b == "" else int(b) for a, b in fields])
        return res


def tlc(work, module, cfg, name=None, workers=None, args=(), timeout=1800, deque=False, heap=None):
    """Runs TLC on spec/<module>.tla with the given cfg text in a scratch copy of the spec directory."""
    work.n += 1
    d = work.sub("tlc%d-%s" % (work.n, name or module))
    for f in os.listdir(SPEC):
        if f.endswith(".tla"):
            shutil.copy(os.path.join(SPEC, f), d)
    open(os.path.join(d, "run.cfg"), "w").write(cfg)
    cmd = ["tlc", "-workers", str(workers or NCPU), "-metadir", os.path.join(d, "md"), "-config", "run.cfg"] + list(args) + [module + ".tla"]
    env = dict(os.environ)
    jopts = []
    if deque:
        jopts.append("-Dtlc2.tool.queue.IStateQueue=StateDeque")
    jopts.append("-Xss64m")
    if heap:
        jopts.append("-Xmx" + heap)
    env["JAVA_TOOL_OPTIONS"] = " ".join(jopts)
    try:
        rc, out, dt = sh(cmd, cwd=d, env=env, timeout=timeout)
    except subprocess.TimeoutExpired:
        raise Inconclusive("TLC timed out after %ds on %s" % (timeout, module))
    open(os.path.join(d, "out.txt"), "w").write(out)
    r = TLCResult(rc, out, dt)
    shutil.rmtree(os.path.join(d, "md"), ignore_errors=True)
    return r


def require_ok(r, what):
    if r.violated:
        raise Inconclusive("%s: the MODEL violates %s (specification error, not an observation of the code)\n%s" % (what, r.violated, r.out[-3000:]))
    if not r.ok:
        raise Inconclusive("%s: TLC failed: %s\n%s" % (what, r.error, r.out[-3000:]))
    return r


def coverage_zero(r):
    """With -coverage 1: names of actions / expressions never taken (vacuity guard)."""
    zeros = []
    for m in re.finditer(r"<(\w+) line \d+, col \d+ to line \d+, col \d+ of module (\w+)>: (\d+):(\d+)", r.out):
        if m.group(3) == "0" and m.group(4) == "0":
            zeros.append(m.group(1))
    return zeros


# --------------------------------------------------------------------------- transition graphs emitted by TLC

def key(x):
    return json.dumps(x, sort_keys=True)


class Graph:
    def __init__(self, edges):
        self.edges = edges
        self.out = collections.defaultdict(list)
        for e in edges:
            self.out[key(e["pre"])].append(e)

    def states(self):
        s = {}
        for e in self.edges:
            s[key(e["pre"])] = e["pre"]
            s[key(e["post"])] = e["post"]
        return s

    def shortest_paths(self, init):
        """BFS: state key -> list of edges from init."""
        paths = {key(init): []}
        q = collections.deque([key(init)])
        while q:
            k = q.popleft()
            for e in self.out.get(k, []):
                kk = key(e["post"])
                if kk not in paths and e["act"].get("a") == "update":
                    paths[kk] = paths[k] + [e]
                    q.append(kk)
        return paths

    def walk(self, init, depth, rng, want=None):
        k, path = key(init), []
        for _ in range(depth):
            outs = self.out.get(k)
            if not outs:
                break
            if want:
                pref = [e for e in outs if want(e)]
                e = rng.choice(pref) if pref and rng.random() < 0.5 else rng.choice(outs)
            else:
                e = rng.choice(outs)
            path.append(e)
            k = key(e["post"])
        return path


def act_step(act):
    a = act.get("a")
    if a == "update":
        return {"op": "update", "log": act["log"], "req": act["req"]}
    if a == "get":
        return {"op": "get", "log": act["log"]}
    if a == "getlogs":
        return {"op": "getlogs"}
    if a == "env":
        # environment steps of Witness.tla: restart on the same store / on the store in the release's format; a stored checkpoint as an
        # earlier incarnation of the witness left it
        k = act["kind"]
        if k in ("restart", "upgrade"):
            return {"op": "migrate", "cls": k}
        if k == "distribute":
            return {"op": "distribute"}
        return {"op": "restore", "log": act["log"], "cls": {"future": "future1h"}.get(k, k)}
    raise ValueError(act)


def tofu_steps(pre, nwit):
    """First-use requests that put a fresh witness into abstract state `pre`."""
    steps = []
    for l in sorted(pre):
        c = pre[l]
        if c.get("none"):
            continue
        steps.append({"op": "update", "log": l, "req": {"auth": "good", "old": 0, "b": c["b"], "n": c["n"],
                      "extra": c["lines"] - 1 - nwit, "stale": 0, "ext": c.get("ext", 0), "pf": {"k": "empty"}}})
    return steps


def runs_from_edges(edges, nwit, chunk=150, prefix="e"):
    """Transition coverage: every edge is executed from its pre-state. Refusal edges of one
    pre-state share one set-up (they do not change state - which is itself judged)."""
    by_pre = collections.defaultdict(list)
    for e in edges:
        by_pre[key(e["pre"])].append(e)
    runs = []
    n = 0
    for k, es in by_pre.items():
        pre = es[0]["pre"]
        if any((not c_.get("none")) and c_.get("lines", 0) < 1 + nwit for c_ in pre.values()):
            continue      # a state only an environment step reaches (fewer witness lines than this witness writes): covered by the walks
        setup = tofu_steps(pre, nwit)
        quiet = [e for e in es if e["act"].get("a") != "update" or e["act"].get("v") != "Accept"]
        loud = [e for e in es if e["act"].get("a") == "update" and e["act"].get("v") == "Accept"]
        for j in range(0, len(quiet), chunk):
            n += 1
            runs.append({"id": "%s%d" % (prefix, n), "steps": setup + [act_step(e["act"]) for e in quiet[j:j + chunk]]})
        for e in loud:
            n += 1
            runs.append({"id": "%s%d" % (prefix, n), "steps": setup + [act_step(e["act"]), {"op": "get", "log": e["act"]["log"]}]})
    return runs


def write_runs(path, params, runs):
    # run ids name origins, log ids and counters: two runs with one id share them (and judge each other's effects when they overlap in time)
    ids = [r.get("id") for r in runs if isinstance(r, dict) and "id" in r]
    if len(set(ids)) != len(ids):
        raise Inconclusive("harness error: duplicate run ids in %s: %s" % (os.path.basename(path), sorted({i for i in ids if ids.count(i) > 1})[:5]))
    with open(path, "w") as f:
        f.write(json.dumps({"params": params}) + "\n")
        for r in runs:
            f.write(json.dumps(r) + "\n")


# --------------------------------------------------------------------------- findings, evidence, exit

def known_findings():
    res = []
    p = os.path.join(VERIF, "known-findings.txt")
    if os.path.exists(p):
        for line in open(p):
            line = line.strip()
            m = re.match(r"finding: property=(\S+) key=(\S+) (.*)", line)
            if m:
                res.append({"property": m.group(1), "key": m.group(2), "text": m.group(3)})
    return res


def is_known(prop, sig):
    for f in known_findings():
        if f["property"] == prop and f["key"] == sig:
            return f
    return None


class Report:
    """Collects what a check covered and found, writes evidence, prints verdict lines, exits."""
    def __init__(self, prop, tier, seed, level):
        self.prop, self.tier, self.seed, self.level = prop, tier, seed, level
        self.t0 = time.time()
        self.cov = {"states": 0, "transitions": 0, "traces_validated_against_impl": 0, "evaluations": 0,
                    "distinct_nontrivial": 0, "rule": "", "samples": [], "drift": 0, "configs": []}
        self.assumptions = []
        self.violations = []   # (description, replay path)
        self.known = {}        # key -> count
        self.notes = []

    def add_model(self, name, r, constants=None):
        self.cov["states"] += r.distinct
        self.cov["transitions"] += r.generated
        self.cov["configs"].append({"config": name, "distinct_states": r.distinct, "transitions": r.generated, "tlc_wall_s": round(r.wall, 1)})

    def sample(self, s):
        if len(self.cov["samples"]) < 6:
            self.cov["samples"].append(s)

    def violation(self, desc, replay_obj):
        d = os.path.join(VERIF, "evidence", "replays")
        os.makedirs(d, exist_ok=True)
        path = os.path.join(d, "%s-%d.json" % (self.prop, len(self.violations) + 1))
        json.dump(replay_obj, open(path, "w"), indent=1)
        self.violations.append((desc, path))

    def finish(self):
        self.cov["known_findings_seen"] = self.known
        if SHIMS_OFF:
            self.cov["overlay_shims_not_compiling_against_this_tree"] = sorted(SHIMS_OFF)
            self.notes.append("degraded run: overlay shim(s) %s did not compile; the driver was built without them (omni: a stand-in adapter replaces the unexported witnessAdapter "
                              "in drivers that only need a feeder.Witness; the real one still runs inside omniwitness.Main and the production binary)" % sorted(SHIMS_OFF))
        ev = {"property_id": self.prop, "tier": self.tier, "seed": self.seed, "level": self.level,
              "coverage": self.cov, "assumptions": self.assumptions, "wall_s": round(time.time() - self.t0, 1),
              "violations": len(self.violations) + getattr(self, "more_violations", 0), "notes": self.notes}
        os.makedirs(os.path.join(VERIF, "evidence"), exist_ok=True)
        json.dump(ev, open(os.path.join(VERIF, "evidence", self.prop + ".json"), "w"), indent=1)
        for k, n in self.known.items():
            f = is_known(self.prop, k)
            print("KNOWN-FINDING: property=%s %s (key=%s, seen %d times in this run)" % (self.prop, f["text"] if f else k, k, n))
        more = getattr(self, "more_violations", 0)
        if more:
            print("(%d further failing steps of %s not written out)" % (more, self.prop))
        for desc, path in self.violations[:25]:
            print("VIOLATION property=%s replay=%s" % (self.prop, path))
            print("  " + desc)
        print("%s %s: %s  states=%d transitions=%d traces=%d evaluations=%d drift=%d wall=%.0fs" % (
            self.prop, self.tier, "VIOLATED" if self.violations else "held", self.cov["states"], self.cov["transitions"],
            self.cov["traces_validated_against_impl"], self.cov["evaluations"], self.cov["drift"], time.time() - self.t0))
        return 1 if self.violations else 0


def seed_from_env():
    try:
        return int(os.environ.get("VERIF_SEED", "1"))
    except ValueError:
        return 1


def read_ndjson(path):
    return [json.loads(l) for l in open(path) if l.strip()]


class TraceIndex:
    """Random access to a big ndjson trace without holding the parsed events in memory."""
    def __init__(self, path):
        import array
        self.path = path
        self.off = array.array("q")
        pos = 0
        with open(path, "rb") as f:
            for line in f:
                if line.strip():
                    self.off.append(pos)
                pos += len(line)
        self.f = open(path, "rb")

    def __len__(self):
        return len(self.off)

    def __getitem__(self, i):
        if isinstance(i, slice):
            return [self[j] for j in range(*i.indices(len(self)))]
        if i < 0:
            i += len(self)
        self.f.seek(self.off[i])
        return json.loads(self.f.readline())

    def __iter__(self):
        with open(self.path, "rb") as f:
            for line in f:
                if line.strip():
                    yield json.loads(line)

    def close(self):
        self.f.close()


def build_feedbastion_writer_test():
    """`go test -c` of /repo/cmd/feedbastion (package main) with an in-package test file supplied through -overlay:
    the only way to reach the repository's own writer of the add-checkpoint body."""
    out = os.path.join(HARNESS, "bin", "feedbastion.test")
    ov = os.path.join(HARNESS, "bin", "overlay-fb.json")
    json.dump({"Replace": {os.path.join(REPO, "cmd/feedbastion/zz_verif_writer_test.go"): os.path.join(HARNESS, "shims", "feedbastion_writer_test.go")}}, open(ov, "w"))
    rc, o, dt = sh(["go", "test", "-c", "-vet=off", "-tags", "verif", "-overlay", ov, "-o", out, "./cmd/feedbastion"], cwd=REPO, env=GOENV, timeout=1800)
    if rc != 0:
        raise Inconclusive("cmd/feedbastion test binary does not build:\n" + o[-4000:])
    return out


def build_bastion_fuzz_test():
    """coverage-instrumented test binary of /repo/internal/feeder/bastion with the harness' fuzz target supplied through -overlay"""
    out = os.path.join(HARNESS, "bin", "bastion.fuzz.test")
    ov = os.path.join(HARNESS, "bin", "overlay-fuzz.json")
    json.dump({"Replace": {os.path.join(REPO, "internal/feeder/bastion/zz_verif_fuzz_test.go"): os.path.join(HARNESS, "shims", "bastion_fuzz_test.go")}}, open(ov, "w"))
    rc, o, dt = sh(["go", "test", "-c", "-fuzz", "FuzzAddCheckpoint", "-vet=off", "-tags", "verif", "-overlay", ov, "-o", out, "./internal/feeder/bastion"], cwd=REPO, env=GOENV, timeout=1800)
    if rc != 0:
        raise Inconclusive("bastion fuzz test binary does not build:\n" + o[-4000:])
    return out


def build_prod_binary(race=False):
    """/repo/cmd/omniwitness exactly as it ships (flags, sql.Open + SetMaxOpenConns, metric factory, omniwitness.Main), plus ONE add-only overlay
    file in package main that points the exported omniwitness.ConfigLogs at the file named by VERIF_LOGS_YAML."""
    key = "prod-race" if race else "prod"
    if key in _built:
        return _built[key]
    os.makedirs(os.path.join(HARNESS, "bin"), exist_ok=True)
    out = os.path.join(HARNESS, "bin", "omniwitness-race" if race else "omniwitness")
    ov = os.path.join(HARNESS, "bin", "overlay-prod.json")
    json.dump({"Replace": {os.path.join(REPO, "cmd/omniwitness/zz_verif_config.go"): os.path.join(HARNESS, "shims", "monolith_config.go")}}, open(ov, "w"))
    cmd = ["go", "build", "-tags", "verif", "-overlay", ov, "-o", out]
    if race:
        cmd.append("-race")
    cmd.append("./cmd/omniwitness")
    rc, o, dt = sh(cmd, cwd=REPO, env=GOENV, timeout=1800)
    if rc != 0:
        raise Inconclusive("cmd/omniwitness does not build:\n" + o[-4000:])
    _built[key] = out
    return out


def build_driver_386():
    """The same driver for a 32-bit platform (GOARCH=386, no cgo: SQLite is not available there, the start-up walk does not need it). The shipped
    configuration must load wherever the witness is deployed; 32-bit ARM is one of its targets and `int` is 32 bits wide there as on 386."""
    if "386" in _built:
        return _built["386"]
    build_driver()          # go.mod / go.sum / overlay are prepared there
    out = os.path.join(HARNESS, "bin", "driver-386")
    ov = os.path.join(HARNESS, "bin", "overlay.json")
    env = dict(GOENV, GOARCH="386", CGO_ENABLED="0")
    rc, o, dt = sh(["go", "build", "-tags", "verif", "-overlay", ov, "-o", out, "./cmd/driver"], cwd=HARNESS, env=env, timeout=1800)
    if rc != 0:
        raise Inconclusive("driver does not build for GOARCH=386:\n" + o[-4000:])
    _built["386"] = out
    return out


def build_preload():
    """LD_PRELOAD interposer of the crash harness (harness/preload/killwrite.c): kills the child right before its n-th write system call on the database file"""
    if "preload" in _built:
        return _built["preload"]
    os.makedirs(os.path.join(HARNESS, "bin"), exist_ok=True)
    out = os.path.join(HARNESS, "bin", "killwrite.so")
    rc, o, dt = sh(["clang", "-shared", "-fPIC", "-O1", "-o", out, os.path.join(HARNESS, "preload", "killwrite.c"), "-ldl"], timeout=300)
    if rc != 0:
        raise Inconclusive("the write interposer does not build:\n" + o[-2000:])
    _built["preload"] = out
    return out
