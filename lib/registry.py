"""Property id -> check function(work, tier, seed, replay) -> exit code."""
import checks_seq, checks_ops, checks_bastion

CHECKS = {}
CHECKS.update(checks_seq.CHECKS)
CHECKS.update(checks_ops.CHECKS)
CHECKS.update(checks_bastion.CHECKS)
