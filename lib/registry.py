"""Property id -> check function(work, tier, seed, replay) -> exit code."""
import checks_seq, checks_ops, checks_bastion, checks_feed, checks_omni

CHECKS = {}
for m in (checks_seq, checks_ops, checks_bastion, checks_feed, checks_omni):
    CHECKS.update(m.CHECKS)
