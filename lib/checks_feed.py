"""Feeder / distributor families: C13 (Feeder.tla), C15 (Distributor.tla)."""
import json, random, os, re
from vlib import *
import seqfam

CHECKS = {}
F_BASE = dict(Logs={"l1"}, MaxSize=3, NBranch=2, ForkAt=Sub("Fork_1"), MaxLines=6, NWitKeys=2, ZeroWedge=True, PadGuard=True)
F_PARAMS = {"Logs": ["l1"], "KeyOf": {}, "MaxSize": 3, "NBranch": 2, "ForkAt": [1], "MaxLines": 6, "NWitKeys": 2}


def c13(work, tier, seed, replay):
    rep = Report("C13", tier, seed, "model_checking")
    rng = random.Random(seed)
    build_driver()
    maxf = 2 if tier == "quick" else 4
    # (1) design check incl. liveness (no state constraint: the history variable stops growing at HistCap)
    c = dict(F_BASE, MaxFails=maxf, WithCtx=False)
    r = require_ok(tlc(work, "MC_Feeder", cfg_text(spec="Spec", constants=c, invariants=["Justified", "NothingSentUnverified", "ResultOK"],
                                                  properties=["EventuallySucceeds", "NeverCosignsFork"]), name="MC_Feeder", timeout=3000), "design check MC_Feeder")
    rep.add_model("MC_Feeder(sizes 0..3 squared, fork, junk, <=%d failures)" % maxf, r)
    # (2) every terminated behaviour: scenario + order of calls + which of them fail
    lr = tlc(work, "MC_Feeder", cfg_text(spec="Spec", constants=c, invariants=["EmitFeed"]), name="list-feeder", timeout=3000)
    feeds = sorted(set(lr.prints("FEED")))
    # (3) cycles that only end with their context (refused steps are retried for ever): sampled cut points
    cc = dict(F_BASE, MaxFails=1, WithCtx=True)
    sr = tlc(work, "MC_Feeder", cfg_text(spec="Spec", constants=cc, invariants=["EmitFeed"]), name="sim-feeder", workers=1,
             args=["-simulate", "num=%d" % (600 if tier == "quick" else 6000), "-depth", "30", "-seed", str(seed)], timeout=600)
    ctxs = [x for x in sorted(set(sr.prints("FEED"))) if json.loads(x)["out"]["why"] == "ctx"]
    rng.shuffle(ctxs)
    ctxs = ctxs[:60 if tier == "quick" else 600]
    rep.cov["terminated_behaviours"] = len(feeds)
    rep.cov["context_ended_behaviours"] = len(ctxs)
    sp = work.path("feeds.jsonl")
    with open(sp, "w") as f:
        f.write(json.dumps({"params": F_PARAMS}) + "\n")
        for x in feeds + ctxs:
            f.write(x + "\n")
    tp = work.path("feed.ndjson")
    with open(tp, "w") as out:
        for em in (("id",) if tier == "quick" else ("id", "pow2", "huge")):
            part = work.path("feedpart.ndjson")
            for stub in ([], ["-stub"]):       # the real witness behind Main's adapter, and the harness' reference witness (recording stub)
                o, dt = run_driver(["feed", "-in", sp, "-out", part, "-seed", str(seed), "-embed", em, "-par", "1024"] + stub, timeout=3000)
                rep.notes.append(o.strip() + " %s(%.0fs: the library backoff cannot be shortened, scenarios run in parallel)" % ("[reference witness] " if stub else "", dt))
                out.write(open(part).read())
                os.remove(part)
    # (4) the long-running feeder (feeder.Run, as the omniwitness starts it): several cycles against an idle / growing log while a third party moves
    # the witness between cycles; every cycle is judged like a single one (what is submitted is justified by what the witness said in that attempt)
    for stub in ([], ["-stub"]):
        part = work.path("feedrun.ndjson")
        o, dt = run_driver(["feedrun", "-out", part, "-seed", str(seed), "-random", "20" if tier == "quick" else "300"] + stub, timeout=1800)
        rep.notes.append(o.strip())
        with open(tp, "a") as out:
            out.write(open(part).read())
        rep.cov["long_running_feeder_cycles"] = rep.cov.get("long_running_feeder_cycles", 0) + sum(1 for l in open(part) if '"e":"feed.start"' in l)
        os.remove(part)
    events = read_ndjson(tp)
    jc = dict(F_BASE, TraceFile=tp)
    jr = tlc(work, "MC_Trace_Feeder", cfg_text(spec="Spec", constants=jc, action_constraints=["Monitor"], postcondition="Done"), name="judge-feeder", workers=1, timeout=3600, heap="12g")
    if not jr.ok:
        raise Inconclusive("feeder judge failed: %s\n%s" % (jr.error or jr.violated, jr.out[-3000:]))
    fails = [["FAIL", f["id"], f["name"], f["i"], f["run"], f["k"], f["sig"]] for f in map(json.loads, jr.prints("FAIL"))]
    seqfam.settle(rep, "C13", fails, events, jc)
    # (5) "after transient failures of the log it retries and succeeds once they clear", for every feeder TYPE the omniwitness has (each brings its own
    # fetching code: tile readers, proof builders, JSON clients): one long-running feeder follows a growing log through a front end that answers the
    # FIRST request for every data URL (tiles, proofs) with a 503 error page and every later one normally; the witness must receive every step, with a
    # proof an independent verifier accepts. The serverless feeder runs against the serverless-log module's own test log (sizes 1..15).
    flaky = {}
    for kind in ("serverless", "sumdb", "tiles", "pixel", "rekor"):
        fp = work.path("flaky-%s.ndjson" % kind)
        # (chains: the long-running feeder; pairs: one cycle with plenty of time whose first request for each data URL outlasts the HTTP client's
        #  timeout - "slowonce" - or is answered with an error page - "flaky" -; the cycle retries and succeeds)
        o, dt = run_driver(["tile", "-out", fp, "-pairs", "0" if kind == "serverless" else ("7" if tier == "quick" else "20"), "-samples", "0", "-feeder", kind, "-seed", str(seed), "-workers", "4",
                            "-chains", "6" if tier == "quick" else "60", "-fronts", "flaky,slowonce,flaky,slowonce" if kind != "serverless" else "flaky,plain,flaky,gzip"], timeout=3000)
        fevs = read_ndjson(fp)
        jr2 = tlc(work, "Trace_Tile", cfg_text(spec="JSpec", constants={"Height": 8, "Levels": {0}, "Indices": {0}, "Widths": {1}, "TraceFile": fp},
                                               action_constraints=["Monitor"], postcondition="Done"), name="judge-flaky-" + kind, workers=1, timeout=1800, heap="8g")
        if not jr2.ok:
            raise Inconclusive("judge of the feeders behind a flaky front end failed: %s\n%s" % (jr2.error or jr2.violated, jr2.out[-2000:]))
        ff = [["FAIL", "C13", kind + "-feeder/RetriesAndSucceedsOnceTheLogsTransientFailuresClear/" + f["name"], f["i"], f["run"], f["k"], f["sig"]] for f in map(json.loads, jr2.prints("FAIL"))]
        seqfam.settle(rep, "C13", ff, fevs, {"Height": 8})
        flaky[kind] = {"steps": len(fevs), "through_the_flaky_front_end": sum(1 for e in fevs if "/flaky/" in e.get("run", ""))}
        if not fevs:
            raise Inconclusive("no growth step was observed for the %s feeder" % kind)
    rep.cov["feeder_types_behind_a_front_end_with_transient_failures"] = flaky
    # (6) "it stops when its context ends", for every feeder type, against a log that asks for patience (429 with Retry-After: 30 on the checkpoint or on
    # the data endpoints): one cycle under a 1.2 s context in a child process; Trace_Total: the cycle is over within 5 s of the end of its context
    hs = [{"feeder": f_, "wit": "held", "cp": cp_, "data": d_} for f_ in ("sumdb", "tiles", "pixel", "rekor", "serverless") for cp_, d_ in (("valid", "throttled"), ("throttled", "valid"))]
    hp, ht = work.path("throttled.jsonl"), work.path("throttled.ndjson")
    open(hp, "w").write("\n".join(json.dumps(x) for x in hs) + "\n")
    o, dt = run_driver(["hostile", "-in", hp, "-out", ht, "-seed", str(seed), "-workers", "10"], timeout=3000)
    rep.notes.append("throttled logs/" + o.strip())
    hevs = read_ndjson(ht)
    jr3 = tlc(work, "Trace_Total", cfg_text(spec="JSpec", constants={"TraceFile": ht}, action_constraints=["Monitor"], postcondition="Done"), name="judge-throttled", workers=1, timeout=1800, heap="4g")
    if not jr3.ok:
        raise Inconclusive("judge of the throttled cycles failed: %s\n%s" % (jr3.error or jr3.violated, jr3.out[-2000:]))
    hf = [["FAIL", f["id"], f["name"], f["i"], f["run"], f["k"], f["sig"]] for f in map(json.loads, jr3.prints("FAIL"))]
    seqfam.settle(rep, "C13", hf, hevs, {})
    rep.cov["cycles_against_a_log_that_asks_for_patience"] = {"cycles": len(hevs), "max_overrun_ms": max([e.get("overrunms", 0) for e in hevs] or [0])}
    calls = [e for e in events if e["e"] == "feed.call"]
    rep.cov["evaluations"] = len(calls)
    rep.cov["traces_validated_against_impl"] = sum(1 for e in events if e["e"] == "feed.start")
    rep.cov["distinct_nontrivial"] = len(set(feeds + ctxs))
    rep.cov["updates_submitted"] = sum(1 for e in calls if e["c"] == "update")
    rep.cov["results"] = {"success": sum(1 for e in events if e["e"] == "feed.result" and e["ok"]), "error": sum(1 for e in events if e["e"] == "feed.result" and not e["ok"])}
    rep.cov["rule"] = ("TLC enumerates, from Feeder.tla composed with the atomic witness, every terminated cycle for (witness size, log size) in (0..3) squared x {same history, fork, junk root} x "
                       "{verifiable, unverifiable checkpoint} with every distribution of up to %d transient failures over fetch-checkpoint / get-latest / fetch-proof / update, plus sampled cycles that only end "
                       "with their context; each is replayed on the real feeder.FeedOnce with recording, failure-injecting stubs in front of the REAL witness behind Main's adapter; the recorded call "
                       "sequence is judged by Trace_Feeder (old size = latest of the same attempt, proof from exactly that latest to the submitted checkpoint, never when ahead, only verified checkpoints, "
                       "result = what the witness returned, outcome as the composed model predicts, stops with its context); distinct = distinct (scenario, call/failure sequence)" % maxf)
    rep.cov["exhaustive"] = True
    st = [e for e in events if e["e"] == "feed.start"][:1]
    if st:
        rep.sample([e for e in events if e.get("run") == st[0]["run"]])
    rep.assumptions += ["durations are never judged (library backoff 0.5 s x 1.5, jittered), only the order and arguments of calls",
                        "the proof stub answers like an honest server of the log's branch for the sizes it is asked about"]
    return rep.finish()


CHECKS["C13"] = c13


# ----------------------------------------------------------------------------- C15

def c15(work, tier, seed, replay):
    rep = Report("C15", tier, seed, "model_checking")
    rng = random.Random(seed)
    build_driver()
    scen = []
    for n in ((1, 2) if tier == "quick" else (1, 2, 3)):
        c = {"NLogs": n}
        cfg = cfg_text(spec="Spec", constants=c, invariants=["OnlyVerifiedArePushed", "EveryLogAttempted", "ErrorIffSomeLogFailed", "EmitDist"], properties=["Terminates"])
        r = require_ok(tlc(work, "Distributor", cfg, name="MC_Distributor%d" % n, timeout=3000), "design check Distributor(%d logs)" % n)
        rep.add_model("MC_Distributor(%d logs: all assignments of 8 witness answers x 6 distributor answers)" % n, r)
        scen += sorted(set(r.prints("DIST")))
    # 4..6 logs: sampled assignments (simulation mode)
    for n in ((4,) if tier == "quick" else (4, 5, 6)):
        c = {"NLogs": n}
        sr = tlc(work, "Distributor", cfg_text(spec="Spec", constants=c, invariants=["EmitDist"]), name="sim-dist%d" % n, workers=1,
                 args=["-simulate", "num=%d" % (150 if tier == "quick" else 1500), "-depth", "12", "-seed", str(seed + n)], timeout=600)
        scen += sorted(set(sr.prints("DIST")))
        rep.cov["exhaustive"] = False
    sp, tp = work.path("dist.jsonl"), work.path("dist.ndjson")
    open(sp, "w").write("\n".join(scen) + "\n")
    o, dt = run_driver(["dist", "-in", sp, "-out", tp, "-seed", str(seed), "-workers", str(NCPU)], timeout=3000)
    rep.notes.append(o.strip())
    # the distributor as an operator gets it: inside omniwitness.Main, round after round at the distribute interval, with answers that take several
    # intervals ("slow200"), fail, or are fine; some logs without a checkpoint yet
    V, M = "valid", "missing"
    main_scens = [([V, V, V], ["slow200", "200", "200"]), ([V, V, V], ["200", "slow200", "200"]), ([V, V, V], ["500", "200", "slow200"]), ([M, V, V], ["200", "200", "200"]),
                  ([V, M, V], ["slow200", "200", "200"])]
    if tier != "quick":
        import itertools
        main_scens = [([V, V, V], list(d_)) for d_ in itertools.product(["200", "500", "slow200"], repeat=3)] + [([M, V, V], ["200", "slow200", "200"]), ([V, M, V], ["slow200", "200", "500"])]
    mp, mt = work.path("dist-main.jsonl"), work.path("dist-main.ndjson")
    open(mp, "w").write("\n".join(json.dumps({"wit": w_, "dist": d_}) for w_, d_ in main_scens) + "\n")
    o, dt = run_driver(["dist-main", "-in", mp, "-out", mt, "-seed", str(seed)], timeout=3000)
    rep.notes.append(o.strip())
    with open(tp, "a") as f_:
        f_.write(open(mt).read())
    rep.cov["runs_inside_omniwitness_Main"] = len(main_scens)
    # ... and inside the production binary (its Prometheus metric factory, its flags): three logs hold a checkpoint, the binary is restarted with
    # --rest_distro_url, and the distributor answers one of them with a status line some proxy mangled (reason phrase not UTF-8, very long, empty)
    pt_ = work.path("dist-prod.ndjson")
    o, dt = run_driver(["dist-prod", "-bin", build_prod_binary(), "-out", pt_, "-seed", str(seed), "-dir", work.sub("db")], timeout=3000)
    rep.notes.append(o.strip())
    with open(tp, "a") as f_:
        f_.write(open(pt_).read())
    rep.cov["runs_inside_the_production_binary"] = 3
    events = read_ndjson(tp)
    jr = tlc(work, "MC_Trace_Dist", cfg_text(spec="TSpec", constants={"NLogs": 1, "TraceFile": tp}, action_constraints=["Monitor"], postcondition="Done"),
             name="judge-dist", workers=1, timeout=3600, heap="12g")
    if not jr.ok:
        raise Inconclusive("distributor judge failed: %s\n%s" % (jr.error or jr.violated, jr.out[-3000:]))
    fails = [["FAIL", f["id"], f["name"], f["i"], f["run"], f["k"], f["sig"]] for f in map(json.loads, jr.prints("FAIL"))]
    seqfam.settle(rep, "C15", fails, events, {"NLogs": 0})
    rep.cov["evaluations"] = len(scen)
    rep.cov["traces_validated_against_impl"] = sum(1 for e in events if e["e"] == "dist.start")
    rep.cov["distinct_nontrivial"] = len(set(scen))
    rep.cov["puts_observed"] = sum(1 for e in events if e["e"] == "dist.put")
    rep.cov["rule"] = ("TLC enumerates every assignment of witness answers {valid, missing, error, wrong log key, no witness signature, invalid witness signature, corrupted, other log's checkpoint} and "
                       "distributor answers {200, 404, 500, connection error, redirect 302, redirect 307} to 1..3 logs (thorough; quick 1..2) and samples assignments for up to 6 logs; each is executed on the real "
                       "DistributeOnce with a stub witness and a stub distributor; Trace_Dist judges: PUT only for verified checkpoints, bytes identical, path = /distributor/v0/logs/<id>/byWitness/<name>/checkpoint, "
                       "every log attempted, error iff some log failed; distinct = distinct scenarios")
    rep.cov.setdefault("exhaustive", True)
    st = [e for e in events if e["e"] == "dist.start"][:1]
    if st:
        rep.sample([e for e in events if e.get("run") == st[0]["run"]])
    rep.assumptions += ["a 307 redirect (method and body preserved) whose target answers 200 counts as delivered; a 302 (PUT turned into GET) as failed"]
    return rep.finish()


CHECKS["C15"] = c15
