"""Sequential family (Witness.tla): C01 C02 C03 C04 C08 C09 C12 C16 C20.
TLC model-checks the bounded model and emits every transition; the Go driver executes
them (and random walks / shortest paths over the emitted graph) against the real witness
over the chosen stores and size embeddings; TLC judges the recorded trace."""
import json, os, random, collections, hashlib
from vlib import *

ALL_BAD = {"flip", "drop", "add", "random", "short"}
ALL_AUTH = {"badsig", "badtext", "unknownkey", "peercp", "wrongorigin", "nosig", "hashflip", "garbage", "truncated", "lineedit", "peerkey", "witonly", "trailingblank"}


def consts(**kw):
    c = dict(Logs={"l1"}, MaxSize=3, NBranch=2, ForkAt=Sub("Fork_2"), MaxLines=6, NWitKeys=2,
             ZeroWedge=True, PadGuard=True, Olds={0, 1, 2, 3, 4}, Extras={0}, Stales={0}, Exts={0},
             BadKinds=ALL_BAD, BadAuths={"badsig", "peercp"}, WithUnknown=True, EnvActions=set())
    c.update(kw)
    return c


FORKS = {"Fork_2": [2], "Fork_1": [1], "Fork_2_0": [2, 0], "Fork_3_1": [3, 1], "Fork_8_3": [8, 3]}


def params_of(c, keyof=None):
    return {"Logs": sorted(c["Logs"]), "KeyOf": keyof or {}, "MaxSize": c["MaxSize"], "NBranch": c["NBranch"],
            "ForkAt": FORKS[c["ForkAt"].op][:c["NBranch"] - 1], "MaxLines": c["MaxLines"], "NWitKeys": c["NWitKeys"]}


INVS = ["TypeOK", "HonestProgress", "DecideIsSpec"]
PROPS = ["AppendOnly", "Authentic", "RefusalNoEffect", "AcceptShape", "FirstMatch", "Isolation", "ReadExact", "CountersTrue"]


def model_check(work, rep, name, c, spec="Spec", emit=True, workers=None, timeout=1800, edge_cap=None, rng=None):
    cfg = cfg_text(spec=spec, constants=c, invariants=INVS, properties=PROPS, view="View",
                   action_constraints=["Emit"] if emit else [])
    r = require_ok(tlc(work, "MC_Witness", cfg, name=name, workers=workers, timeout=timeout), "design check " + name)
    rep.add_model(name, r)
    if not emit:
        return r, []
    if not edge_cap:
        return r, [json.loads(x) for x in r.prints("EDGE")]
    # big models: keep every state-changing transition and a bounded random sample of the others per pre-state
    rng = rng or random.Random(1)
    kept, quiet, seen = [], {}, {}
    pat = '"EDGE '
    for line in r.out.splitlines():
        if not line.startswith(pat):
            continue
        e = json.loads(json.loads(line)[5:])
        if e["pre"] != e["post"]:
            kept.append(e)
            continue
        k = key(e["pre"])
        n = seen[k] = seen.get(k, 0) + 1
        bucket = quiet.setdefault(k, [])
        if len(bucket) < edge_cap:
            bucket.append(e)
        else:
            j = rng.randrange(n)
            if j < edge_cap:
                bucket[j] = e
    for b in quiet.values():
        kept += b
    rep.cov.setdefault("edge_sampling", []).append({"config": name, "transitions_emitted": r.generated, "kept": len(kept), "rule": "all state-changing transitions + <= %d others per state" % edge_cap})
    r.out = ""
    return r, kept


def judge(work, rep, c, trace_path, name="judge", timeout=3600):
    jc = dict(c)
    jc["TraceFile"] = trace_path
    cfg = cfg_text(spec="TraceSpec", constants=jc, action_constraints=["Monitor"], postcondition="Done")
    r = tlc(work, "MC_Trace_Witness", cfg, name=name, workers=1, timeout=timeout, heap="12g")
    if not r.ok:
        raise Inconclusive("judge failed: %s\n%s" % (r.error or r.violated, r.out[-3000:]))
    return [["FAIL", f["id"], f["name"], f["i"], f["run"], f["k"], f["sig"]] for f in map(json.loads, r.prints("FAIL"))]


def execute(work, rep, c, runs, stores, embeds, seed, http=False, keyof=None, tag="t", faults=False):
    """Runs the driver for every (store, embedding) and returns the concatenated trace path."""
    runs_path = work.path("runs-%s.jsonl" % tag)
    write_runs(runs_path, params_of(c, keyof), runs)
    trace = work.path("trace-%s.ndjson" % tag)
    with open(trace, "w") as out:
        for st in stores:
            for em in embeds:
                part = work.path("part-%s-%s-%s.ndjson" % (tag, st, em))
                args = ["seq", "-in", runs_path, "-out", part, "-store", st, "-embed", em, "-seed", str(seed),
                        "-workers", str(NCPU), "-dir", work.sub("db")]
                if http:
                    args.append("-http")
                if faults:
                    args.append("-faults")
                o, dt = run_driver(args)
                rep.notes.append(o.strip().splitlines()[-1] if o.strip() else "")
                with open(part) as f:
                    shutil.copyfileobj(f, out)
                os.remove(part)
    return trace, runs_path


def index_trace(trace_path):
    """trace line number (1-based, as the judge's cursor) -> event (lazily read)"""
    return TraceIndex(trace_path)


def settle(rep, prop, fails, events, c, extra_replay=None):
    """Turns the judge's FAIL tuples into violations / known findings / drift / oracle problems."""
    other = collections.Counter()
    oracle = []
    for f in fails:
        _, pid, name, i, run, k, sig = f[:7]
        if pid == "DRIFT":
            rep.cov["drift"] += 1
            if len(rep.notes) < 40:
                rep.notes.append("drift: run %s step %s: implementation step is not the model's (property formulas still evaluated)" % (run, k))
            continue
        if pid == "ORACLE":
            oracle.append(f)
            continue
        if pid != prop:
            other[pid + "/" + name] += 1
            continue
        if sig != "-" and is_known(prop, sig):
            rep.known[sig] = rep.known.get(sig, 0) + 1
            continue
        ev = events[i - 1] if 0 < i <= len(events) else None
        if len(rep.violations) >= 25:
            rep.more_violations = getattr(rep, "more_violations", 0) + 1
            continue
        run_events = [e for e in events if e.get("run") == run]
        rep.violation("%s/%s fails at trace event %d (run %s step %s, signature %s): %s" % (prop, name, i, run, k, sig, json.dumps(ev)[:600]),
                      {"property": prop, "formula": name, "signature": sig, "constants": {k2: (v.op if isinstance(v, Sub) else sorted(v) if isinstance(v, (set, frozenset)) else v) for k2, v in c.items()},
                       "run": run, "step": k, "observed_run": run_events, "extra": extra_replay})
    if other:
        rep.cov["failures_of_other_properties_seen"] = dict(other)
    if oracle:
        raise Inconclusive("harness oracle disagreement (abstract proof class vs reference verifier) at %s" % oracle[:3])


def count_events(rep, events, nontrivial):
    seen = rep.cov.setdefault("_distinct", set())
    for e in events:
        k = e.get("e")
        if k == "reset":
            rep.cov["traces_validated_against_impl"] += 1
        if k in ("update", "get", "getlogs", "getodd"):
            rep.cov["evaluations"] += 1
            if nontrivial(e):
                seen.add(hashlib.sha1(json.dumps([k, e.get("req"), e.get("v"), e.get("stored"), e.get("log"), e.get("cls")], sort_keys=True).encode()).digest()[:10])


def finish_counts(rep):
    rep.cov["distinct_nontrivial"] = len(rep.cov.pop("_distinct", set()))


def walks(graph, init, n, depth, rng, prefix="w", want=None):
    """n random walks over the emitted transition graph; returns [(run, final abstract state)]"""
    res = []
    for j in range(n):
        path = graph.walk(init, depth, rng, want)
        final = path[-1]["post"] if path else init
        res.append(({"id": "%s%d" % (prefix, j), "steps": [act_step(e["act"]) for e in path]}, final))
    return res
