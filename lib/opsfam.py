"""Storage-operation family (WitnessOps.tla): C05 (schedules), C06 (crash points), C07 (fault sequences)."""
import json, os, random, collections
from vlib import *

OPS_BASE = dict(Logs={"l1", "l2"}, MaxSize=3, NBranch=2, ForkAt=Sub("Fork_1"), MaxLines=6, NWitKeys=2, ZeroWedge=True, PadGuard=True)
OPS_PARAMS = {"Logs": ["l1", "l2"], "KeyOf": {}, "MaxSize": 3, "NBranch": 2, "ForkAt": [1], "MaxLines": 6, "NWitKeys": 2}
S1 = {"b": 0, "n": 1, "lines": 3, "ext": 0}
NONE = {"none": True}

# name -> (number of processes, initial committed state)
SCEN2 = {"Sc_TofuSame": "none", "Sc_TofuFork": "none", "Sc_TofuSizes": "none", "Sc_TofuLogs": "none", "Sc_TofuRead": "none",
         "Sc_GrowSame": "s1", "Sc_GrowFork": "s1", "Sc_GrowSizes": "s1", "Sc_GrowRefresh": "s1", "Sc_RefRef": "s1", "Sc_GrowStale": "s1",
         "Sc_GrowBad": "s1", "Sc_GrowLogs": "s1", "Sc_GrowRead": "s1", "Sc_Chain": "s1"}
SCEN3 = {"Sc3_TofuForkRead": "none", "Sc3_TofuTofuTofu": "none", "Sc3_GrowForkRead": "s1", "Sc3_GrowGrowGrow": "s1", "Sc3_GrowRefRead": "s1"}
SCEN4 = {"Sc4_Tofu4": "none", "Sc4_Grow4": "s1", "Sc4_GrowReaders": "s1"}
HIST = {"H_ZeroRefresh": "none", "H_TofuReadGrow": "none", "H_Tofu": "none", "H_TofuGrow": "none", "H_TofuRefresh": "none", "H_TofuForkGrow": "none", "H_TofuBadGrow": "none", "H_Grow": "s1", "H_GrowGrow": "s1"}


def nprocs(name):
    if name.startswith("Sc3"):
        return 3
    if name.startswith("Sc4"):
        return 4
    if name.startswith("H_"):
        return 1
    return 2


def ops_consts(scen, db0, store, faults=0, crash=0, driver_steps=False, eager=True):
    c = dict(OPS_BASE)
    c.update(Store=store, Procs=set(range(1, nprocs(scen) + 1)), Prog=Sub(scen), Db0=Sub("DbS1" if db0 == "s1" else "DbNone"),
             MaxFaults=faults, MaxCrash=crash, DriverSteps=driver_steps, EagerInvoke=eager)
    return c


OPS_INV = ["NoLeak", "OldOrNew"]
OPS_PROPS = ["CommitIsAtomicAccept", "NoRegress", "Linearizable", "ErrOnlyOnConflict", "NoTofuOnReadError"]


def ops_model_check(work, rep, scen, c, name=None):
    """property run: the schedule history is hidden by VIEW"""
    cfg = cfg_text(spec="Spec", constants=c, invariants=OPS_INV, properties=OPS_PROPS, view="ViewNoSched")
    r = require_ok(tlc(work, "MC_Ops", cfg, name=name or scen, workers=4, timeout=1800), "design check " + scen)
    rep.add_model("%s/%s" % (scen, c["Store"]), r)
    return r


def ops_list(work, scen, c, simulate=None, seed=1, timeout=1800):
    """listing run: every complete behaviour (schedule) of the scenario, one SCHED line each"""
    cfg = cfg_text(spec="Spec", constants=c, invariants=["EmitSched"])
    args = []
    if simulate:
        args = ["-simulate", "num=%d" % simulate, "-depth", "100", "-seed", str(seed)]
    r = tlc(work, "MC_Ops", cfg, name="list-" + scen, workers=1 if simulate else 4, args=args, timeout=timeout)
    if not (r.ok or simulate):
        raise Inconclusive("listing %s failed: %s\n%s" % (scen, r.error or r.violated, r.out[-2000:]))
    seen, out = set(), []
    for x in r.prints("SCHED"):
        if x in seen:
            continue
        seen.add(x)
        out.append(json.loads(x))
    return out


PROGS = None


def scenario_programs(work):
    """the programs of every scenario, printed by TLC from MC_Ops (one source of truth)"""
    global PROGS
    if PROGS is not None:
        return PROGS
    names = list(SCEN2) + list(SCEN3) + list(SCEN4) + list(HIST)
    d = work.sub("progs")
    for f in os.listdir(SPEC):
        if f.endswith(".tla"):
            shutil.copy(os.path.join(SPEC, f), d)
    body = "---- MODULE MC_Progs ----\nEXTENDS MC_Ops\n" + "\n".join(
        'ASSUME PrintT("PROG " \\o ToJson([name |-> "%s", prog |-> %s]))' % (n, n) for n in names) + "\n====\n"
    open(os.path.join(d, "MC_Progs.tla"), "w").write(body)
    c = ops_consts("H_Tofu", "none", "InMem")
    open(os.path.join(d, "run.cfg"), "w").write(cfg_text(spec="Spec", constants=c))
    rc, out, dt = sh(["tlc", "-workers", "1", "-metadir", os.path.join(d, "md"), "-config", "run.cfg", "MC_Progs.tla"], cwd=d, timeout=300)
    r = TLCResult(rc, out, dt)
    PROGS = {}
    for x in r.prints("PROG"):
        j = json.loads(x)
        PROGS[j["name"]] = j["prog"]
    if len(PROGS) != len(names):
        raise Inconclusive("could not obtain scenario programs from MC_Ops:\n" + out[-2000:])
    return PROGS


def db0_of(kind):
    return {"l1": S1, "l2": S1} if kind == "s1" else {"l1": NONE, "l2": NONE}


def lin_judge(work, rep, trace, nproc, name="lin"):
    """Trace_Lin on a concatenated trace; returns list of rejected run tags (re-judging the rest after each rejection)"""
    rejected = []
    lines = open(trace).read().splitlines(True)
    for attempt in range(12):
        p = work.path("lin-%s-%d.ndjson" % (name, attempt))
        open(p, "w").writelines(lines)
        c = dict(OPS_BASE)
        c.update(TraceFile=p, Procs=set(range(1, nproc + 1)))
        cfg = cfg_text(spec="Spec", constants=c, constraints=["HighWater"], postcondition="Accepted")
        r = tlc(work, "MC_Trace_Lin", cfg, name="%s-%d" % (name, attempt), workers=1, timeout=3600, deque=True, heap="12g")
        os.remove(p)
        rej = r.prints("REJECTED")
        if not rej:
            if not r.ok:
                raise Inconclusive("linearizability judge failed: %s\n%s" % (r.error or r.violated, r.out[-3000:]))
            rep.cov["judge_states"] = rep.cov.get("judge_states", 0) + r.distinct
            return rejected
        j = json.loads(rej[0])
        rejected.append(j)
        lines = [l for l in lines if json.loads(l).get("run") != j["run"]]
    return rejected


def ops_trace_validate(work, rep, trace, scen, db, store, name="opsval"):
    """Trace_Ops: the recorded storage calls of the gated runs of one (scenario, store) must be behaviours of WitnessOps"""
    prefix = scen + "-"
    lines = [l for l in open(trace) if ('"run":"%s' % prefix) in l and '"run":"%sx-' % scen not in l and '"run":"%si-' % scen not in l]
    if not lines:
        return None
    p = work.path("opsval-%s-%s.ndjson" % (scen, store))
    open(p, "w").writelines(lines)
    c = ops_consts(scen, db, store)
    c["TraceFile"] = p
    r = tlc(work, "MC_Trace_Ops", cfg_text(spec="TSpec", constants=c, constraints=["HighWater"], postcondition="Accepted"), name="%s-%s-%s" % (name, scen, store),
            workers=1, timeout=1800, deque=True, heap="8g")
    os.remove(p)
    rej = r.prints("REJECTED")
    nruns = sum(1 for l in lines if l.startswith('{"e":"reset"'))
    if rej:
        j = json.loads(rej[0])
        return {"scenario": scen, "store": store, "runs": nruns, "accepted": False, "rejected_at": j}
    if not r.ok:
        raise Inconclusive("Trace_Ops failed on %s/%s: %s\n%s" % (scen, store, r.error or r.violated, r.out[-2500:]))
    return {"scenario": scen, "store": store, "runs": nruns, "accepted": True}


def hist_judge(work, rep, trace, nproc, name="hist"):
    """Trace_Hist: linearization-independent monitors over concurrent histories (C01 one history, C20 counters). Returns FAIL tuples."""
    c = dict(OPS_BASE)
    c.update(TraceFile=trace, Procs=set(range(1, nproc + 1)))
    r = tlc(work, "MC_Trace_Hist", cfg_text(spec="Spec", constants=c, action_constraints=["Monitor"], postcondition="Done"), name=name, workers=1, timeout=1800, heap="8g")
    if not r.ok:
        raise Inconclusive("history judge failed: %s\n%s" % (r.error or r.violated, r.out[-3000:]))
    return [["FAIL", f["id"], f["name"], f["i"], f["run"], f["k"], f["sig"]] for f in map(json.loads, r.prints("FAIL"))]


def concurrent_histories(work, rep, tier, seed, prop, binp=None):
    """C01 (and whoever else wants concurrent histories): TLC-listed interleavings of conflicting first use / forks / growth on both stores,
    the in-memory interleavings forced on SQLite, and free-running clients; judged by Trace_Hist for `prop`."""
    import seqfam
    progs = scenario_programs(work)
    scens = ["Sc_TofuFork", "Sc_GrowFork", "Sc_TofuSizes", "Sc_GrowSizes"] + ([] if tier == "quick" else ["Sc3_TofuTofuTofu", "Sc3_GrowGrowGrow", "Sc_GrowRefresh", "Sc_TofuSame"])
    by_store = {"InMem": [], "Sql1": []}
    for scen in scens:
        db = dict(SCEN2, **SCEN3)[scen]
        lists = {}
        for store in ("InMem", "Sql1"):
            lists[store] = ops_list(work, scen, ops_consts(scen, db, store))
            for j, s in enumerate(lists[store]):
                by_store[store].append({"id": "%s-%d" % (scen, j), "mode": "gated", "eager": True, "db0": db0_of(db), "prog": progs[scen], "sched": s["sched"]})
        for j, s in enumerate(lists["InMem"][::2 if tier == "quick" else 1]):
            by_store["Sql1"].append({"id": "%sx-%d" % (scen, j), "mode": "gated", "eager": True, "waitms": 40, "db0": db0_of(db), "prog": progs[scen], "sched": s["sched"]})
    n = 0
    all_events = []
    for store, runs in by_store.items():
        rp, tp = work.path("conc-%s.jsonl" % store), work.path("conc-%s.ndjson" % store)
        write_runs(rp, OPS_PARAMS, runs)
        o, dt = run_driver(["ops", "-in", rp, "-out", tp, "-store", {"InMem": "inmem", "Sql1": "sqlfile"}[store], "-seed", str(seed), "-workers", str(NCPU), "-dir", work.sub("db")])
        rep.notes.append("concurrent/" + o.strip())
        events = read_ndjson(tp)
        fails = hist_judge(work, rep, tp, 4, name="hist-" + store)
        seqfam.settle(rep, prop, fails, events, dict(OPS_BASE), extra_replay={"store": store, "kind": "forced interleaving"})
        n += len(runs)
        all_events += events
    rep.cov["concurrent_histories"] = n
    rep.cov["traces_validated_against_impl"] += n
    return all_events
