"""Assembled-service family: C14 (OmniRun.tla), C17 / C12 identity half (Omni.tla), C18 (TilePath.tla), C19 (Totality)."""
import json, random, os, re, subprocess
from vlib import *
import seqfam

CHECKS = {}
O_BASE = dict(Logs={"l1", "l2"}, MaxSize=3, NBranch=2, ForkAt=Sub("Fork_1"), MaxLines=6, NWitKeys=2, ZeroWedge=True, PadGuard=True)
SIGMAS = {"id": [0, 1, 2, 3], "tile": [0, 255, 256, 257], "tile2": [0, 65535, 65536, 65537], "mixed": [0, 256, 65536, 65537], "big": [0, 1000, 70000, 200001]}


def parallel_driver(cmds, timeout=3000):
    """runs several driver processes at once (omniwitness.ConfigLogs is process-global)"""
    drv = build_driver()
    procs = [subprocess.Popen([drv] + c, stdout=subprocess.PIPE, stderr=subprocess.STDOUT, text=True, env=GOENV) for c in cmds]
    outs = []
    for p, c in zip(procs, cmds):
        try:
            o, _ = p.communicate(timeout=timeout)
        except subprocess.TimeoutExpired:
            p.kill()
            raise Inconclusive("driver %s timed out" % c[0])
        if p.returncode != 0:
            raise Inconclusive("driver %s failed (%d):\n%s" % (c[0], p.returncode, o[-3000:]))
        outs.append(o)
    return outs


def stall_job(id_, types, store):
    evs = []
    for l in ("l1", "l2"):
        evs += [{"a": "grow", "l": l, "b": 0, "n": 2}, {"a": "outage", "l": l, "b": 0, "n": 0}, {"a": "grow", "l": l, "b": 0, "n": 3}, {"a": "recover", "l": l, "b": 0, "n": 0}]
    return {"id": id_, "store": store, "sigma": SIGMAS["tile"], "types": types, "events": evs, "partial": False, "stall": True}


def stall_part(work, rep, tier, seed, prop):
    """A log server that goes SILENT (accepts requests, never answers, keeps the connections open) in front of the assembled service - omniwitness.Main
    in process and the production binary: every feeder cycle ends (the HTTP client's timeout), so the cycles after the outage run and the served
    checkpoint catches up. Judged by Trace_Omni; failures are reported for `prop`."""
    binp = build_prod_binary()
    jobs = [stall_job("stall-a", ["sumdb", "tiles"], "inmem"), stall_job("stall-b", ["tiles", "sumdb"], "sqlfile")]
    pjobs = [stall_job("pstall-a", ["sumdb", "tiles"], "sqlfile"), stall_job("pstall-b", ["tiles", "sumdb"], "sqlfile")]
    cmds, outs = [], []
    for k, (part, prod) in enumerate([(jobs[:1], False), (jobs[1:], False), (pjobs[:1], True), (pjobs[1:], True)]):
        ip, op = work.path("stall-%d.jsonl" % k), work.path("stall-%d.ndjson" % k)
        open(ip, "w").write("\n".join(json.dumps(x) for x in part) + "\n")
        cmds.append(["omni", "-in", ip, "-out", op, "-dir", work.sub("db"), "-seed", str(seed)] + (["-prod", binp] if prod else []))
        outs.append(op)
    res = parallel_driver(cmds)
    tp = work.path("stall.ndjson")
    with open(tp, "w") as f:
        for op in outs:
            f.write(open(op).read())
    events = read_ndjson(tp)
    jc = dict(O_BASE, Durable=True, MaxEvents=8, TraceFile=tp, MaxSize=8)
    jr = tlc(work, "MC_Trace_Omni", cfg_text(spec="TSpec", constants=jc, action_constraints=["Monitor"], postcondition="Done"), name="judge-stall", workers=1, timeout=1800, heap="8g")
    if not jr.ok:
        raise Inconclusive("omni judge (silent log servers) failed: %s\n%s" % (jr.error or jr.violated, jr.out[-3000:]))
    fails = [["FAIL", prop, "silent log server/" + f["name"], f["i"], f["run"], f["k"], f["sig"]] for f in map(json.loads, jr.prints("FAIL"))]
    seqfam.settle(rep, prop, fails, events, jc)
    rep.cov["schedules_with_a_silent_log_server"] = len(jobs) + len(pjobs)
    rep.cov["evaluations"] += sum(1 for e in events if e["e"] == "omni.obs")


def c14(work, tier, seed, replay):
    rep = Report("C14", tier, seed, "model_checking")
    rng = random.Random(seed)
    build_driver()
    nev = 3 if tier == "quick" else 4
    for durable in (True, False):
        c = dict(O_BASE, Durable=durable, MaxEvents=nev)
        r = require_ok(tlc(work, "MC_OmniRun", cfg_text(spec="RSpec", constants=c, properties=["StaysOnHistory", "CatchesUp"], view="RView"),
                           name="MC_OmniRun-%s" % durable, timeout=3000), "design check MC_OmniRun")
        rep.add_model("MC_OmniRun(2 logs, sizes 1..3, fork, %d events, durable=%s; safety + liveness under WF(Poll))" % (nev, durable), r)
    lr = tlc(work, "MC_OmniRun", cfg_text(spec="ESpec", constants=dict(O_BASE, Durable=True, MaxEvents=nev), invariants=["EmitSched"]), name="list-omni", timeout=3000)
    scheds = [json.loads(x) for x in sorted(set(lr.prints("OMNI")))]
    rep.cov["schedules_listed_by_tlc"] = len(scheds)
    rng.shuffle(scheds)
    take = scheds[:48 if tier == "quick" else 480]
    if len(take) < len(scheds):
        rep.cov["exhaustive"] = False
    jobs = []
    sig_names = ["tile", "tile2", "id", "mixed", "big"]
    for j, s in enumerate(take):
        has_restart = any(e["a"] == "restart" for e in s["events"])
        store = "sqlfile" if (has_restart or j % 2 == 0) else "inmem"
        types = ["sumdb", "tiles"] if j % 3 else ["tiles", "tiles"]
        jobs.append({"id": "o%d" % j, "store": store, "sigma": SIGMAS[sig_names[j % len(sig_names)]], "types": types, "events": s["events"], "partial": j % 2 == 0})
    # long growth chains inside ONE process (no restart), every log stepping through sizes around the tile boundaries:
    # behaviours of OmniRun with MaxSize = 8 (judged like the others)
    CH = [0, 5, 200, 255, 256, 257, 300, 65536, 65537]
    chains = []
    for j, types in enumerate((["sumdb", "tiles"], ["tiles", "sumdb"], ["tiles", "tiles"])):
        evs = []
        for n in range(2, 9):
            evs.append({"a": "grow", "l": "l1", "b": 0, "n": n})
            evs.append({"a": "grow", "l": "l2", "b": 0, "n": n})
        if j == 2:
            evs = [e for e in evs if e["n"] in (3, 4, 6, 8)]       # bigger jumps: 5 -> 255 -> 256 -> 300 -> 65537
        chains.append({"id": "chain%d" % j, "store": "sqlfile" if j == 1 else "inmem", "sigma": CH, "types": types, "events": evs, "nonefirst": j != 1})
    # outages during which the log GROWS: total (every request fails) and partial (the checkpoint is still served, tiles / proofs fail)
    for j, (types, partial) in enumerate(((["sumdb", "tiles"], True), (["tiles", "sumdb"], True), (["sumdb", "tiles"], False))):
        evs = []
        for l in ("l1", "l2"):
            evs += [{"a": "grow", "l": l, "b": 0, "n": 2}, {"a": "outage", "l": l, "b": 0, "n": 0}, {"a": "grow", "l": l, "b": 0, "n": 3}, {"a": "recover", "l": l, "b": 0, "n": 0}]
        chains.append({"id": "outage%d" % j, "store": "inmem", "sigma": SIGMAS["tile"], "types": types, "events": evs, "partial": partial})
    # SILENT outages: the log server accepts every request and then says nothing (the connection stays open for the rest of the run); only the
    # HTTP client's own timeout ends such a request, and the cycles after the outage must run
    for j, types in enumerate((["sumdb", "tiles"], ["tiles", "sumdb"])):
        chains.append(stall_job("stall%d" % j, types, "inmem"))
    # a log whose first published checkpoint has size 0 (the known finding F1 is expected here)
    jobs.append({"id": "ozero", "store": "inmem", "sigma": SIGMAS["tile"], "types": ["sumdb", "tiles"], "start": 0,
                 "events": [{"a": "grow", "l": "l1", "b": 0, "n": 2}]})
    nshard = NCPU - 1
    cmds, outs = [], []
    zero = [jobs.pop()]
    nshard -= len(chains)
    for k in range(nshard + 1 + len(chains)):
        part = jobs[k::nshard] if k < nshard else (zero if k == nshard else [chains[k - nshard - 1]])
        if not part:
            continue
        ip, op = work.path("omni-%d.jsonl" % k), work.path("omni-%d.ndjson" % k)
        open(ip, "w").write("\n".join(json.dumps(x) for x in part) + "\n")
        cmds.append(["omni", "-in", ip, "-out", op, "-dir", work.sub("db"), "-seed", str(seed)])
        outs.append(op)
    # the same schedules on the PRODUCTION BINARY (cmd/omniwitness --db_file --poll_interval; the generated configuration reaches it through the
    # exported ConfigLogs variable): a restart is a SIGKILL of the process followed by a fresh start on the same file
    binp = build_prod_binary()
    durable_jobs = [j_ for j_ in jobs if j_["store"] == "sqlfile"]
    def fork_then_restart(j_):      # the schedules in which lost state shows: the log forks, then the witness is killed and comes back
        acts = [e["a"] if e["a"] != "fork" or e["n"] >= 2 else "fork-in-name-only" for e in j_["events"]]     # branch 1 shares its first leaf with the main history
        return "fork" in acts and "restart" in acts[acts.index("fork"):]
    with_restart = sorted([j_ for j_ in durable_jobs if any(e["a"] == "restart" for e in j_["events"])], key=lambda j_: not fork_then_restart(j_))
    rest = [j_ for j_ in durable_jobs if j_ not in with_restart]
    nprod = 10 if tier == "quick" else 80
    prod_jobs = [dict(j_, id="p" + j_["id"]) for j_ in (with_restart[:nprod * 3 // 4] + rest)[:nprod]]
    # always: the log forks for real (sizes >= 2 differ), then the witness is killed and restarted: it must still be on the history it witnessed
    for j, (types, sg) in enumerate(((["sumdb", "tiles"], "tile"), (["tiles", "tiles"], "mixed"))):
        prod_jobs.append({"id": "pfork%d" % j, "store": "sqlfile", "sigma": SIGMAS[sg], "types": types, "partial": False,
                          "events": [{"a": "grow", "l": "l1", "b": 0, "n": 2}, {"a": "fork", "l": "l1", "b": 1, "n": 3}, {"a": "fork", "l": "l2", "b": 1, "n": 2},
                                     {"a": "restart", "l": "", "b": 0, "n": 0}, {"a": "restart", "l": "", "b": 0, "n": 0}]})
    # the host reaches the outside through an EGRESS PROXY announced in its environment (HTTP_PROXY): the logs' URLs carry host names only the proxy
    # resolves; every other prod schedule (and two fixed growth schedules) runs that way
    for j, j_ in enumerate(prod_jobs):
        if j % 2 == 1:
            j_["proxy"] = True
    for j, (types, sg) in enumerate(((["sumdb", "tiles"], "tile"), (["tiles", "sumdb"], "id"))):
        prod_jobs.append({"id": "pproxy%d" % j, "store": "sqlfile", "sigma": SIGMAS[sg], "types": types, "partial": False, "proxy": True,
                          "events": [{"a": "grow", "l": "l1", "b": 0, "n": 2}, {"a": "grow", "l": "l2", "b": 0, "n": 2}, {"a": "restart", "l": "", "b": 0, "n": 0}, {"a": "grow", "l": "l1", "b": 0, "n": 3}]})
    prod_jobs.append(stall_job("pstall0", ["sumdb", "tiles"], "sqlfile"))
    rep.cov["production_binary_schedules_behind_an_egress_proxy"] = sum(1 for j_ in prod_jobs if j_.get("proxy"))
    pshards = 6 if tier == "quick" else 8
    for k in range(pshards):
        part = prod_jobs[k::pshards]
        if not part:
            continue
        ip, op = work.path("omni-prod-%d.jsonl" % k), work.path("omni-prod-%d.ndjson" % k)
        open(ip, "w").write("\n".join(json.dumps(x) for x in part) + "\n")
        cmds.append(["omni", "-in", ip, "-out", op, "-dir", work.sub("db"), "-seed", str(seed), "-prod", binp])
        outs.append(op)
    rep.cov["production_binary_schedules"] = len(prod_jobs)
    rep.cov["production_binary_schedules_with_kill_and_restart"] = sum(1 for j_ in prod_jobs if any(e["a"] == "restart" for e in j_["events"]))
    t0 = time.time()
    res = parallel_driver(cmds)
    rep.notes.append("%d driver processes, %.0fs: %s" % (len(cmds), time.time() - t0, res[0].strip()))
    tp = work.path("omni.ndjson")
    with open(tp, "w") as f:
        for op in outs:
            f.write(open(op).read())
    events = read_ndjson(tp)
    jobs = jobs + chains + prod_jobs
    jc = dict(O_BASE, Durable=True, MaxEvents=nev, TraceFile=tp, MaxSize=8)
    jr = tlc(work, "MC_Trace_Omni", cfg_text(spec="TSpec", constants=jc, action_constraints=["Monitor"], postcondition="Done"), name="judge-omni", workers=1, timeout=3600, heap="8g")
    if not jr.ok:
        raise Inconclusive("omni judge failed: %s\n%s" % (jr.error or jr.violated, jr.out[-3000:]))
    fails = [["FAIL", f["id"], f["name"], f["i"], f["run"], f["k"], f["sig"]] for f in map(json.loads, jr.prints("FAIL"))]
    seqfam.settle(rep, "C14", fails, events, jc)
    # proof sweeps: each tiled feeder type (and rekor) builds the proof for every pair of sizes against a stub server over a generated tree
    sweep = {}
    npairs = 150 if tier == "quick" else 700
    tfails, tevents = [], []
    for kind in ("tiles", "pixel", "rekor"):
        sp = work.path("sweep-%s.ndjson" % kind)
        o, dt = run_driver(["tile", "-out", sp, "-pairs", str(npairs), "-samples", "0" if kind == "pixel" else ("100" if tier == "quick" else "1500"),
                            "-feeder", kind, "-seed", str(seed), "-workers", str(NCPU), "-chains", "10" if tier == "quick" else "150"], timeout=6000)
        evs = read_ndjson(sp)
        jr2 = tlc(work, "Trace_Tile", cfg_text(spec="JSpec", constants={"Height": 8, "Levels": {0}, "Indices": {0}, "Widths": {1}, "TraceFile": sp},
                                               action_constraints=["Monitor"], postcondition="Done"), name="judge-sweep-" + kind, workers=1, timeout=3600, heap="12g")
        if not jr2.ok:
            raise Inconclusive("proof sweep judge failed: %s\n%s" % (jr2.error or jr2.violated, jr2.out[-2000:]))
        for f in map(json.loads, jr2.prints("FAIL")):
            tfails.append(["FAIL", "C14", kind + "-feeder/" + f["name"], f["i"] + len(tevents), f["run"], f["k"], f["sig"]])
        tevents += evs
        sweep[kind] = len(evs)
    seqfam.settle(rep, "C14", tfails, tevents, {"Height": 8})
    rep.cov["feeder_proof_sweeps"] = dict(sweep, pairs="all 1 <= from < to <= %d plus samples to 2^20 (pixel: pairs only, its path format is only defined below tile index 1000)" % npairs)
    obs = [e for e in events if e["e"] == "omni.obs"]
    rep.cov["distributor_puts_observed"] = sum(1 for e in events if e["e"] == "omni.put")
    rep.cov["evaluations"] = len(obs) + len(tevents) + rep.cov["distributor_puts_observed"]
    rep.cov["traces_validated_against_impl"] = len(take)
    rep.cov["distinct_nontrivial"] = len({json.dumps([j["events"], j["store"], j["sigma"], j["types"]]) for j in jobs})
    waits = sorted(e["waitedms"] for e in obs if e["waitedms"] > 0)
    rep.cov["convergence_ms"] = {"median": waits[len(waits) // 2] if waits else 0, "max": waits[-1] if waits else 0, "poll_interval_ms": 250, "deadline_ms": 25000}
    rep.cov["rule"] = ("TLC lists every schedule of %d growth / fork / restart events over two logs (sizes 1..3, one fork) from OmniRun.tla; schedules (all, or a seeded sample) run on the real "
                       "omniwitness.Main (ConfigLogs pointed at a generated configuration, real HTTP listener, real sumdb and tlog-tiles feeders, poll interval 250 ms) against stub SumDB "
                       "(x/mod's reference server) and tlog-tiles servers over generated trees whose sizes cross 255/256/257 and 65535/65536/65537, on in-memory and SQLite storage with restarts; "
                       "a share of the durable schedules also runs on the production binary (cmd/omniwitness as built from the tree, restart = SIGKILL + start on the same file); "
                       "after each event the served checkpoint of every log is observed; judged by Trace_Omni (catches up with an honest log, stops at a fork, stays on the witnessed history, cosigned); "
                       "distinct = distinct (schedule, store, embedding, feeder types)" % nev)
    rep.cov.setdefault("exhaustive", True)
    first = take[0] if take else None
    if obs:
        rep.sample([e for e in events if e["run"] == obs[0]["run"]][:8])
    rep.assumptions += ["convergence deadline = 100 poll intervals; a forked log is watched for 8 intervals", "stub log servers are honest about the trees they were given"]
    return rep.finish()


CHECKS["C14"] = c14


# ----------------------------------------------------------------------------- C18

BOUNDARY = [0, 1, 9, 10, 99, 100, 255, 256, 998, 999, 1000, 1001, 1999, 2000, 9999, 10000, 99999, 100000, 999998, 999999, 1000000, 1000001, 1999999, 2000000,
            9999999, 99999999, 999999998, 999999999, 1000000000, 1000000001, 1000999, 1001000, 123456789, 2147483]


def c18(work, tier, seed, replay):
    rep = Report("C18", tier, seed, "model_checking")
    rng = random.Random(seed)
    build_driver()
    idx = set(BOUNDARY) | {rng.randrange(0, 10 ** 9) for _ in range(40 if tier == "quick" else 400)} | {rng.randrange(0, 10 ** 6) for _ in range(20)}
    widths = {1, 2, 128, 255, 256} if tier == "quick" else set(range(1, 257, 17)) | {1, 2, 255, 256}
    c = {"Height": 8, "Levels": set(range(0, 8)), "Indices": idx, "Widths": widths}
    d = work.sub("tilepath")
    shutil.copy(os.path.join(SPEC, "TilePath.tla"), d)
    open(os.path.join(d, "run.cfg"), "w").write(cfg_text(init_next=("TInit", "TNext"), constants=c))
    rc, out, dt = sh(["tlc", "-workers", "4", "-metadir", os.path.join(d, "md"), "-config", "run.cfg", "TilePath.tla"], cwd=d, timeout=1800,
                     env=dict(os.environ, JAVA_TOOL_OPTIONS="-Xss64m"))
    r = TLCResult(rc, out, dt)
    if not r.ok:
        raise Inconclusive("TilePath evaluation failed: %s\n%s" % (r.error or r.violated, out[-2000:]))
    vecs = r.prints("TILE")
    rep.add_model("TilePath(levels 0..7 x %d indices x %d widths)" % (len(idx), len(widths)), r)
    rep.cov["transitions"] = len(vecs)
    vp, tp = work.path("tiles.jsonl"), work.path("tile.ndjson")
    open(vp, "w").write("\n".join(vecs) + "\n")
    o, dt = run_driver(["tile", "-in", vp, "-out", tp, "-pairs", "300" if tier == "quick" else "1200", "-samples", "300" if tier == "quick" else "3000",
                        "-seed", str(seed), "-workers", str(NCPU), "-chains", "24" if tier == "quick" else "400"], timeout=6000)
    rep.notes.append(o.strip() + " (%.0fs)" % dt)
    events = read_ndjson(tp)
    fails = []
    lines = open(tp).read().splitlines(True)
    for start in range(0, len(lines), 150000):
        cp = work.path("tilechunk.ndjson")
        open(cp, "w").writelines(lines[start:start + 150000])
        jr = tlc(work, "Trace_Tile", cfg_text(spec="JSpec", constants=dict(c, Indices={0}, Widths={1}, Levels={0}, TraceFile=cp), action_constraints=["Monitor"], postcondition="Done"),
                 name="judge-tile", workers=1, timeout=3600, heap="12g")
        if not jr.ok:
            raise Inconclusive("tile judge failed: %s\n%s" % (jr.error or jr.violated, jr.out[-3000:]))
        for f in map(json.loads, jr.prints("FAIL")):
            fails.append(["FAIL", f["id"], f["name"], f["i"] + start, f["run"], f["k"], f["sig"]])
        os.remove(cp)
    seqfam.settle(rep, "C18", fails, events, {"Height": 8})
    paths = [e for e in events if e["e"] == "tile.path"]
    proofs = [e for e in events if e["e"] == "tile.proof"]
    rep.cov["proofs_built_by_one_long_running_feeder_along_growth_chains"] = sum(1 for e in proofs if "/chain" in e["run"])
    rep.cov["evaluations"] = len(events)
    rep.cov["traces_validated_against_impl"] = 1
    rep.cov["distinct_nontrivial"] = len({(e["l"], e["n"], e["w"]) for e in paths}) + len({(e["from"], e["to"]) for e in proofs})
    rep.cov["tile_paths"] = len(paths)
    rep.cov["proof_pairs"] = len(proofs)
    rep.cov["max_proof_len"] = max([e["pflen"] for e in proofs] or [0])
    rep.cov["rule"] = ("paths: TLC evaluates TilePath.tla on levels 0..7 x {every carry boundary of the x%03d encoding and neighbours, seeded random indices up to 10^9} x widths; the real SumDB client "
                       "(through the feeder's tile reader, which maps width 256 to 'full tile') requests each tile from a stub server; the request must equal the specified path and tlog.Tile.Path(), and "
                       "tlog.ParseTilePath must parse it back to the same tile.  proofs: the real sumdb feeder (FeedLog, one cycle) against a stub SumDB (x/mod's reference server over a generated tree) in front "
                       "of the real witness for ALL pairs 1 <= from < to <= N (quick 300, thorough 1200) plus sampled pairs up to 2^20 incl. tile boundaries; each proof must be accepted by the independent RFC 6962 "
                       "verifier and by the witness; distinct = distinct tiles + distinct size pairs")
    rep.cov["exhaustive"] = False
    for e in paths[:1] + proofs[:1]:
        rep.sample(e)
    rep.assumptions += ["indices are sampled (every carry boundary included); TLC integers limit indices to < 2^31"]
    return rep.finish()


CHECKS["C18"] = c18


# ----------------------------------------------------------------------------- C17 and the identity half of C12

def startup_part(work, rep, tier, seed, prop):
    """Omni.tla start-up machine: model check, enumerate configurations, run the real Main on them (one child process each),
    walk the shipped configurations through Main's own functions, record the id every interface uses; judge with Trace_Start."""
    rng = random.Random(seed)
    build_driver()
    c = {"MaxEntries": 2, "Origins": {"o1", "o2"}, "SchemePanics": True}
    r = require_ok(tlc(work, "Omni", cfg_text(spec="SSpec", constants=c, invariants=["MapAndFeedersAgree"], properties=["StartsIffCoherent", "CoherentStarts"]),
                       name="MC_Omni_startup", timeout=3000), "design check Omni start-up")
    rep.add_model("Omni start-up (all configurations of 1..2 entries: 2 origins x 3 key classes x 7 feeder classes x 4 URL classes)", r)
    lr = tlc(work, "Omni", cfg_text(spec="SSpec", constants=dict(c, MaxEntries=1), invariants=["EmitStart"]), name="list-omni1", timeout=600)
    one = sorted(set(lr.prints("START")))
    lr2 = tlc(work, "Omni", cfg_text(spec="SSpec", constants=c, invariants=["EmitStart"]), name="list-omni2", timeout=3000)
    two = [x for x in sorted(set(lr2.prints("START"))) if len(json.loads(x)["entries"]) == 2]
    rng.shuffle(two)
    dups = [x for x in two if json.loads(x)["entries"][0]["origin"] == json.loads(x)["entries"][1]["origin"]]
    def startable(e):
        return e["feeder"] in ("tiles", "sumdb", "none") and e["url"] == "ok"
    # always: a genuine entry together with one whose key string borrows the genuine key's name and hash (either order)
    stale = [x for x in two if sorted(e["key"] for e in json.loads(x)["entries"]) == ["ok", "stalehash"] and all(startable(e) for e in json.loads(x)["entries"])
             and json.loads(x)["entries"][0]["origin"] != json.loads(x)["entries"][1]["origin"]]
    take = one + stale[:8 if tier == "quick" else 60] + dups[:40 if tier == "quick" else 400] + two[:80 if tier == "quick" else 1500]
    gp, tp = work.path("gencfg.jsonl"), work.path("start.ndjson")
    open(gp, "w").write("\n".join(take) + "\n")
    o, dt = run_driver(["config", "-in", gp, "-out", tp, "-repo", REPO, "-dir", work.sub("cfg"), "-workers", str(NCPU)], timeout=3000)
    rep.notes.append(o.strip() + " (%.0fs)" % dt)
    # the shipped configuration once more on a 32-bit build of the same code (int is 32 bits wide: the platform of the ArmoredWitness)
    d386 = build_driver_386()
    tp386 = work.path("start-386.ndjson")
    rc, o386, dt = sh([d386, "config", "-out", tp386, "-repo", REPO, "-dir", work.sub("cfg386"), "-workers", "4"], env=GOENV, timeout=1200)
    if rc != 0:
        raise Inconclusive("32-bit start-up walk failed to run (%d):\n%s" % (rc, o386[-3000:]))
    with open(tp, "a") as f:
        for l in open(tp386):
            e = json.loads(l)
            if e.get("e") == "start.shipped":
                e["run"] = e["run"] + " [GOARCH=386]"
                f.write(json.dumps(e) + "\n")
    events = read_ndjson(tp)
    jr = tlc(work, "Trace_Start", cfg_text(spec="JSpec", constants=dict(c, TraceFile=tp), action_constraints=["Monitor"], postcondition="Done"), name="judge-start", workers=1,
             timeout=1800, heap="8g")
    if not jr.ok:
        raise Inconclusive("start-up judge failed: %s\n%s" % (jr.error or jr.violated, jr.out[-3000:]))
    fails = [["FAIL", f["id"], f["name"], f["i"], f["run"], f["k"], f["sig"]] for f in map(json.loads, jr.prints("FAIL"))]
    seqfam.settle(rep, prop, fails, events, c)
    gen = [e for e in events if e["e"] == "start.generated"]
    ids = [e for e in events if e["e"] == "id"]
    ship = [e for e in events if e["e"] == "start.shipped"]
    rep.cov["evaluations"] += len(events)
    rep.cov["traces_validated_against_impl"] += len(gen) + len(ship)
    rep.cov["startup"] = {"shipped_files": [e["run"] for e in ship], "shipped_entries": [e["nentries"] for e in ship],
                          "generated_configurations_run_through_Main": len(gen),
                          "outcomes": {k: sum(1 for e in gen if e["outcome"] == k) for k in sorted({e["outcome"] for e in gen})},
                          "identity_observations": len(ids), "interfaces": sorted({e["iface"] for e in ids})}
    return events


def keytypes_part(work, rep, seed, prop):
    """every kind of log key the configuration format admits, through config.NewLog and a real witness; judged by Trace_Start (C02, C19)"""
    build_driver()
    tp = work.path("keytypes.ndjson")
    o, dt = run_driver(["keytypes", "-out", tp, "-seed", str(seed)])
    rep.notes.append(o.strip())
    c = {"MaxEntries": 2, "Origins": {"o1", "o2"}, "SchemePanics": True}
    jr = tlc(work, "Trace_Start", cfg_text(spec="JSpec", constants=dict(c, TraceFile=tp), action_constraints=["Monitor"], postcondition="Done"), name="judge-keytypes", workers=1, timeout=600)
    if not jr.ok:
        raise Inconclusive("key-type judge failed: %s\n%s" % (jr.error or jr.violated, jr.out[-2000:]))
    events = read_ndjson(tp)
    fails = [["FAIL", f["id"], f["name"], f["i"], f["run"], f["k"], f["sig"]] for f in map(json.loads, jr.prints("FAIL"))]
    seqfam.settle(rep, prop, fails, events, c)
    rep.cov["key_kinds_exercised"] = [e["alg"] for e in events]
    rep.cov["evaluations"] += len(events)


def c17(work, tier, seed, replay):
    rep = Report("C17", tier, seed, "model_checking")
    events = startup_part(work, rep, tier, seed, "C17")
    ship = [e for e in events if e["e"] == "start.shipped"]
    rep.cov["distinct_nontrivial"] = sum(e["nentries"] for e in ship)
    rep.cov["rule"] = ("the embedded logs.yaml and logs_test.yaml OF THE WORKING TREE go, entry by entry, through the functions Main uses (YAML decoding incl. the feeder enum, config.NewLog, AsLogMap, "
                       "each feeder started with a cancelled context and a refusing HTTP client so that its URL validation runs) and through omniwitness.Main itself in a child process; the start-up trace "
                       "must be one the start-up machine of Omni.tla accepts for a coherent configuration and end in 'serving'; the machine itself is model-checked over all configurations of 1..2 entries and the "
                       "real Main is run on them; distinct = entries of the shipped files")
    rep.cov["exhaustive"] = True
    for e in ship[:2]:
        rep.sample({k: e[k] for k in ("run", "parsed", "nentries", "badkeys", "unknownfeeders", "mapok", "distinctids", "feederfailed", "feederpanicked", "main")})
    rep.assumptions += ["reachability of the configured URLs is not part of the claim (no network): only well-formedness, scheme and required parameters"]
    if rep.cov["distinct_nontrivial"] < 2:
        raise Inconclusive("shipped configuration could not be read")
    return rep.finish()


CHECKS["C17"] = c17


# ----------------------------------------------------------------------------- C19

def c19(work, tier, seed, replay):
    import checks_bastion as cb
    rep = Report("C19", tier, seed, "exploration")
    rng = random.Random(seed)
    build_driver()
    # (1) the hostile-server menu, enumerated by TLC from Totality.tla
    r = require_ok(tlc(work, "Totality", cfg_text(spec="Spec", constants={}, invariants=["OnlyAllowed", "EmitScen"], properties=["Total"]), name="MC_Totality", timeout=600),
                   "design check Totality")
    rep.add_model("Totality (5 feeders and the three Rekor shards of one instance x 2 witness states x 19 checkpoint classes x 9 data classes; the REST distributor x 12 distributor answers; first submissions of thousands of logs at once)", r)
    scens = [json.loads(x) for x in sorted(set(r.prints("HOSTILE")))]
    if tier == "quick":
        must = [s for s in scens if s["feeder"] in ("distributor", "storm") or (s["feeder"] == "rekor-shards" and s["wit"] == "held" and s["cp"] in ("valid", "status500", "random", "json-odd-types", "truncated") and s["data"] in ("valid", "status500")) or (s["wit"] == "held" and s["cp"] == "valid") or (s["wit"] == "held" and s["cp"] in ("hash0", "hash5", "hash33") and s["data"] == "valid") or (s["cp"].startswith("size2") and s["data"] == "valid") or (s["feeder"] == "rekor" and (s["cp"].startswith("json-") or s["data"].startswith("json-")) and s["data"] in ("valid", "json-null", "json-odd") and s["cp"] in ("valid", "json-null-shard", "json-inactive-shard", "json-odd-types"))]
        rest = [s for s in scens if s not in must]
        rng.shuffle(rest)
        scens = must + rest[:220]
    hp, ht = work.path("hostile.jsonl"), work.path("hostile.ndjson")
    open(hp, "w").write("\n".join(json.dumps(s) for s in scens) + "\n")
    o, dt = run_driver(["hostile", "-in", hp, "-out", ht, "-seed", str(seed), "-workers", str(NCPU * 2)], timeout=6000)
    rep.notes.append(o.strip() + " (%.0fs)" % dt)
    # (2) seeded random / mutated bytes to the two text parsers
    pt = work.path("parsefuzz.ndjson")
    o, dt = run_driver(["parsefuzz", "-out", pt, "-n", "20000" if tier == "quick" else "300000", "-seed", str(seed)], timeout=3000)
    rep.notes.append(o.strip())
    # (2b) coverage-guided native Go fuzzing of the real handler in front of a real witness, seeded with valid requests of every verdict class
    fz = build_bastion_fuzz_test()
    fcfg, fdir = work.path("fuzzcfg.json"), work.sub("fuzz")
    run_driver(["fuzzcfg", "-out", fcfg, "-seed", str(seed)])
    secs = 8 if tier == "quick" else 120
    rc, fo, fdt = sh([fz, "-test.run", "^$", "-test.fuzz", "FuzzAddCheckpoint", "-test.fuzztime", "%ds" % secs, "-test.fuzzcachedir", os.path.join(fdir, "cache"), "-test.parallel", str(NCPU)],
                     cwd=fdir, env=dict(GOENV, VERIF_FUZZ_CFG=fcfg), timeout=secs * 10 + 600)
    m = re.findall(r"execs: (\d+)", fo)
    mi = re.findall(r"total: (\d+)\)", fo)
    rep.cov["native_fuzzing"] = {"seconds": secs, "executions": int(m[-1]) if m else 0, "interesting_inputs": int(mi[-1]) if mi else 0, "coverage_guided": "not built with coverage" not in fo}
    fuzz_outcome = "result" if rc == 0 and "PASS" in fo else "panic"
    fz_ev = {"e": "cycle", "run": "native-fuzz", "k": 0, "comp": "endpoint/native-fuzz", "wit": "held", "cp": "valid", "data": "random", "overrunms": 0, "outcome": fuzz_outcome,
             "sig": "-" if fuzz_outcome == "result" else "endpoint/native-fuzz/crash", "detail": fo[-1500:] if fuzz_outcome != "result" else ""}
    if not m:
        raise Inconclusive("native fuzzing did not run:\n" + fo[-1500:])
    tp = work.path("cycles.ndjson")
    open(tp, "w").write(open(ht).read() + open(pt).read() + json.dumps(fz_ev) + "\n")
    events = read_ndjson(tp)
    fails = []
    lines = open(tp).read().splitlines(True)
    for start in range(0, len(lines), 150000):
        cp = work.path("cyc-chunk.ndjson")
        open(cp, "w").writelines(lines[start:start + 150000])
        jr = tlc(work, "Trace_Total", cfg_text(spec="JSpec", constants={"TraceFile": cp}, action_constraints=["Monitor"], postcondition="Done"), name="judge-total", workers=1, timeout=3600, heap="12g")
        if not jr.ok:
            raise Inconclusive("totality judge failed: %s\n%s" % (jr.error or jr.violated, jr.out[-3000:]))
        for f in map(json.loads, jr.prints("FAIL")):
            fails.append(["FAIL", f["id"], f["name"], f["i"] + start, f["run"], f["k"], f["sig"]])
        os.remove(cp)
    seqfam.settle(rep, "C19", fails, events, {})
    keytypes_part(work, rep, seed, "C19")
    # a log server that goes silent in front of the assembled service (Main in process and the production binary): every cycle ends, later cycles run
    stall_part(work, rep, tier, seed, "C19")
    # the endpoint inside the production binary (Prometheus factory, verbosity 2): origins nobody configured, of many shapes, and malformed bodies
    cb.endpoint_e2e_part(work, rep, tier, seed, "C19", ["unknown-origin", "nosize", "oversize"], prod=True)
    # (3) the add-checkpoint endpoint: one valid request per verdict class and body class (TLC-emitted transitions of MC_Bastion) plus byte-level mutations
    c = cb.bconsts("quick", MaxSize=2, Olds={0, 1, 2, 3}, BadKinds={"random", "flip"})
    cfg = cfg_text(spec="BSpec", constants=c, invariants=["TypeOK"], properties=["AnswersDocumented"], view="BView", action_constraints=["BEmit"])
    br = require_ok(tlc(work, "MC_Bastion", cfg, name="MC_Bastion", timeout=1800), "design check MC_Bastion")
    rep.add_model("MC_Bastion (documented statuses only; seeds of the endpoint fuzzing)", br)
    edges = [e for e in map(json.loads, br.prints("EDGE")) if e["act"].get("kind") != "limited"]
    by_pre = {}
    for e in edges:
        by_pre.setdefault(key(e["pre"]), []).append(e)
    runs, n = [], 0
    for k, es in by_pre.items():
        setup = cb.tofu_posts(es[0]["pre"], c["NWitKeys"])
        rng.shuffle(es)
        for j in range(0, min(len(es), 120 if tier == "quick" else 100000), 40):
            n += 1
            runs.append({"id": "fz%d" % n, "limit": 100000, "steps": setup + [cb.post_step(e["act"]) for e in es[j:j + 40] if e["act"]["status"] != 200]})
    rp, bt = work.path("fuzz-runs.jsonl"), work.path("fuzz.ndjson")
    write_runs(rp, seqfam.params_of(c), runs)
    o, dt = run_driver(["bastion", "-in", rp, "-out", bt, "-store", "inmem", "-embed", "id", "-seed", str(seed), "-workers", str(NCPU), "-dir", work.sub("db"),
                        "-fuzz", "6" if tier == "quick" else "40"])
    rep.notes.append(o.strip())
    bevents = read_ndjson(bt)
    bf = []
    blines = open(bt).read().splitlines(True)
    start = 0
    while start < len(blines):
        end = min(len(blines), start + 120000)
        while end < len(blines) and not blines[end].startswith('{"e":"reset"'):
            end += 1
        cp = work.path("fz-chunk.ndjson")
        open(cp, "w").writelines(blines[start:end])
        for f in cb.bastion_judge(work, rep, c, cp, name="judge-fuzz"):
            f[3] += start
            bf.append(f)
        os.remove(cp)
        start = end
    seqfam.settle(rep, "C19", bf, bevents, c)
    cyc = [e for e in events if e["e"] == "cycle"]
    posts = [e for e in bevents if e["e"] == "post"]
    rep.cov["evaluations"] = len(cyc) + len(posts)
    rep.cov["traces_validated_against_impl"] = len(scens) + len(runs) + 1
    rep.cov["distinct_nontrivial"] = len({(e["comp"], e["wit"], e["cp"], e["data"]) for e in cyc if e["comp"].startswith("feeder")}) + len({(e["kind"], e["status"], e["conc"]) for e in posts})
    rep.cov["feeder_cycles"] = {"total": sum(1 for e in cyc if e["comp"].startswith("feeder")),
                                "outcomes": {k: sum(1 for e in cyc if e["comp"].startswith("feeder") and e["outcome"] == k) for k in sorted({e["outcome"] for e in cyc})}}
    rep.cov["parser_inputs"] = sum(1 for e in cyc if not e["comp"].startswith("feeder"))
    rep.cov["endpoint_requests"] = {"total": len(posts), "mutated": sum(1 for e in posts if e["kind"] == "fuzz"),
                                    "statuses": {str(s): sum(1 for e in posts if e["status"] == s) for s in sorted({e["status"] for e in posts})}}
    rep.cov["rule"] = ("feeders: TLC enumerates the hostile-server menu of Totality.tla (feeder type x witness state x 16 checkpoint classes incl. log-signed sizes 0, 2^62, 2^62+k, 2^63, 2^64-1 and root hashes of 0/5/33 bytes, "
                       "bad signature, truncated, oversized, random, error statuses x 7 tile/proof answer classes); each runs ONE real feed cycle in a child process under a watchdog (20 s, then a second attempt with 40 s; the "
                       "cycle's own context ends after 1.2 s), outcome must be result or error; parsers: seeded random / mutated byte strings to parseBody and Proof.Unmarshal; endpoint: TLC-emitted requests of every verdict and "
                       "body class plus seeded byte-level mutations of each, every answer must be a documented status (a panic is recorded as status -1); distinct = distinct hostile scenarios + distinct (kind, status, size) of endpoint requests")
    rep.cov["exhaustive"] = False
    for e in cyc[:2] + posts[:1]:
        rep.sample(e)
    rep.assumptions += ["byte-level input diversity comes from seeded generators, not from TLC: the level claimed is exploration",
                        "a hang is reported only after two attempts whose deadlines are 16x and 33x the cycle's own context timeout"]
    return rep.finish()


CHECKS["C19"] = c19
