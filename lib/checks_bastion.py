"""Bastion family (Bastion.tla): C10 (endpoint protocol), C11 (body / proof formats), C19 (totality)."""
import json, re, random, os
from vlib import *
import seqfam
from seqfam import consts, params_of, FORKS

CHECKS = {}
B_AUTH = {"badsig", "badtext", "unknownkey", "hashflip", "nosig", "trailingblank"}
MALFORMED = {"nosize", "suffix", "notb64", "noblank", "cp-one-line", "empty-body", "oversize"}


def bconsts(tier, **kw):
    if tier == "quick":
        c = consts(MaxSize=3, NBranch=2, ForkAt=Sub("Fork_2"), Olds={0, 1, 2, 3, 4}, BadKinds={"flip", "drop", "add", "random", "short"}, BadAuths=B_AUTH, WithUnknown=False)
    else:
        c = consts(MaxSize=4, NBranch=3, ForkAt=Sub("Fork_2_0"), Olds={0, 1, 2, 3, 4, 5}, BadKinds={"flip", "drop", "add", "random", "short"}, BadAuths=B_AUTH, WithUnknown=False)
    c.update(Burst=1, Malformed=MALFORMED, Exts={0, 1})
    c.update(kw)
    return c


def post_step(act):
    k = act["kind"]
    if k == "ok":
        return {"op": "post", "kind": "ok", "log": act["log"], "req": act["req"]}
    return {"op": "post", "kind": k, "log": "l1"}


def tofu_posts(pre, nwit):
    return [dict(s, op="post", kind="ok") for s in seqfam.tofu_steps(pre, nwit)]


def bastion_judge(work, rep, c, trace, name="judge-bastion"):
    jc = dict(c)
    jc["TraceFile"] = trace
    r = tlc(work, "MC_Trace_Bastion", cfg_text(spec="TraceSpec", constants=jc, action_constraints=["Monitor"], postcondition="Done"),
            name=name, workers=1, timeout=3600, heap="12g")
    if not r.ok:
        raise Inconclusive("bastion judge failed: %s\n%s" % (r.error or r.violated, r.out[-3000:]))
    return [["FAIL", f["id"], f["name"], f["i"], f["run"], f["k"], f["sig"]] for f in map(json.loads, r.prints("FAIL"))]


def rate_runs():
    E = {"k": "empty"}
    mk = lambda old, n, pf: {"op": "post", "kind": "ok", "log": "l1", "req": {"auth": "good", "old": old, "b": 0, "n": n, "extra": 0, "stale": 0, "ext": 0, "pf": pf}}
    runs = []
    for j in range(3):
        # limit 1 (burst 1): served, refused at once, refused again, served after the bucket refilled
        runs.append({"id": "rate1-%d" % j, "limit": 1, "steps": [mk(0, 1, E), mk(1, 2, {"k": "right", "b": 0, "m": 1, "n": 2}), {"op": "post", "kind": "nosize", "log": "l1"},
                                                                dict(mk(1, 2, {"k": "right", "b": 0, "m": 1, "n": 2}), sleep_ms=1100), mk(2, 2, E)]})
        # limit 0: nothing is served
        runs.append({"id": "rate0-%d" % j, "limit": 0, "steps": [mk(0, 1, E), {"op": "post", "kind": "nosize", "log": "l1"}, {"op": "post", "kind": "unknown-origin", "log": "l1"}]})
        # a fractional limit below 1 gives burst int(limit) = 0: nothing is ever served (what the code does; modelled by Burst = 0)
        runs.append({"id": "ratefrac-%d" % j, "limit": 0.5, "steps": [mk(0, 1, E), dict(mk(0, 1, E), sleep_ms=2100), {"op": "post", "kind": "nosize", "log": "l1"}]})
    return runs


def bastion_part(work, rep, tier, seed, prop):
    """The witness seen through the add-checkpoint endpoint, for the properties that are about the witness but that callers experience there
    (C03 refusals change nothing, C08 the honest next step is accepted whatever came before, C09 first matching rule): long series of refused
    requests of every kind followed by honest steps; checkpoints carrying lines under the witness' own key id; consistency proofs of 62 and 63
    hashes (the longest the protocol permits). In process (handler as FeedBastion builds it) on two stores; judged by Trace_Bastion."""
    build_driver()
    E = {"k": "empty"}
    def ok(old, b, n, pf, **kw):
        return {"op": "post", "kind": "ok", "log": "l1", "req": dict({"auth": "good", "old": old, "b": b, "n": n, "extra": 0, "stale": 0, "ext": 0, "pf": pf}, **kw)}
    def bad(kind):
        return {"op": "post", "kind": kind, "log": "l1"}
    R12, R23, R13 = {"k": "right", "b": 0, "m": 1, "n": 2}, {"k": "right", "b": 0, "m": 2, "n": 3}, {"k": "right", "b": 0, "m": 1, "n": 3}
    junk = [bad(k_) for k_ in MALFORMED] + [bad("unknown-origin")]
    refused = junk * 8 + [ok(0, 0, 1, E), ok(3, 0, 2, E), ok(1, 0, 2, {"k": "bad", "kind": "flip"}), ok(1, 0, 2, E, auth="badsig"), ok(1, 1, 1, E, auth="nosig"),
                          ok(1, 0, 2, R12, auth="trailingblank"), ok(1, 0, 1, E, auth="trailingblank")] * 3
    runs = [
        {"id": "ep-refusals-then-honest", "limit": 100000, "steps": [ok(0, 0, 1, E)] + refused + [ok(1, 0, 2, R12), ok(2, 0, 2, E)] + junk * 5 + [ok(2, 0, 3, R23)]},
        {"id": "ep-refusals-first", "limit": 100000, "steps": junk * 9 + [ok(0, 0, 1, E, auth="trailingblank")] * 3 + [ok(0, 0, 1, E), ok(1, 0, 3, R13)]},
        {"id": "ep-own-key-lines", "limit": 100000, "steps": [ok(0, 0, 1, E, stale=1), ok(1, 0, 1, E, stale=1), ok(1, 0, 2, R12, stale=1), ok(2, 0, 2, E), ok(1, 0, 2, R12, stale=1),
                                                             ok(2, 0, 3, R23, stale=1, ext=1), ok(3, 0, 3, E, stale=1, extra=1)]},
    ]
    c = bconsts("quick", Stales={0, 1})
    tp = work.path("ep.ndjson")
    open(tp, "w").close()
    def go(runs_, params, tag):
        rp = work.path("ep-%s.jsonl" % tag)
        write_runs(rp, params, runs_)
        for st in ("inmem", "sqlmem"):
            part = work.path("ep-part.ndjson")
            o, dt = run_driver(["bastion", "-in", rp, "-out", part, "-store", st, "-embed", "id", "-seed", str(seed), "-workers", str(NCPU), "-dir", work.sub("db")])
            rep.notes.append("endpoint/" + o.strip())
            with open(tp, "a") as out:
                out.write(open(part).read())
            os.remove(part)
    go(runs, params_of(c), "a")
    # the same through the handler exactly as the real FeedBastion constructs it (whatever it sets up besides the limiter is in place): the witness
    # side runs FeedBastion in a child process and dials a stub bastion
    rp_e, rt_e = work.path("ep-e2e.jsonl"), work.path("ep-e2e.ndjson")
    write_runs(rp_e, params_of(c), runs)
    o, dt = run_driver(["bastion-e2e", "-in", rp_e, "-out", rt_e, "-dir", work.sub("db"), "-seed", str(seed)], timeout=3000)
    rep.notes.append("endpoint/" + o.strip())
    with open(tp, "a") as out:
        out.write(open(rt_e).read())
    # proofs of 62 and 63 hashes: sizes 3 -> 2^61+5 -> 2^62 (and the refusals that come with such a proof)
    big = dict(params_of(c), Sigma=[0, 3, (1 << 61) + 5, 1 << 62])
    go([{"id": "ep-longest-proofs", "limit": 100000, "steps": [ok(0, 0, 1, E), ok(0, 0, 2, R12), ok(1, 0, 2, {"k": "bad", "kind": "flip"}), ok(1, 0, 2, R12), ok(1, 0, 3, R13), ok(2, 0, 3, R23)]},
        {"id": "ep-longest-proofs-2", "limit": 100000, "steps": [ok(0, 0, 1, E), ok(1, 0, 3, R13), ok(1, 0, 3, R13)]}], big, "b")
    events = read_ndjson(tp)
    fails = bastion_judge(work, rep, c, tp, name="judge-endpoint")
    seqfam.settle(rep, prop, fails, events, c)
    posts = [e for e in events if e["e"] == "post"]
    rep.cov["evaluations"] += len(posts)
    rep.cov["requests_through_the_endpoint"] = len(posts)
    rep.cov["longest_proof_through_the_endpoint"] = max([int(m.group(1)) for e in posts for m in [re.search(r"proof=(\d+)", e.get("conc", ""))] if m] or [0])


def endpoint_e2e_part(work, rep, tier, seed, prop, kinds, prod):
    """requests of the given body kinds, 40 of each after one accepted checkpoint, through the real FeedBastion (child process) or the production
    binary (real flags, Prometheus factory, verbosity 2); judged by Trace_Bastion for `prop`"""
    build_driver()
    c = bconsts("quick")
    E = {"k": "empty"}
    tofu = {"op": "post", "kind": "ok", "log": "l1", "req": {"auth": "good", "old": 0, "b": 0, "n": 1, "extra": 0, "stale": 0, "ext": 0, "pf": E}}
    grow = {"op": "post", "kind": "ok", "log": "l1", "req": {"auth": "good", "old": 1, "b": 0, "n": 2, "extra": 0, "stale": 0, "ext": 0, "pf": {"k": "right", "b": 0, "m": 1, "n": 2}}}
    runs = [{"id": "e2e-%s-%s" % (prop, k_), "limit": 100000, "steps": [tofu] + [{"op": "post", "kind": k_, "log": "l1"}] * 40 + [grow]} for k_ in kinds]
    rp, rt = work.path("epx-%s.jsonl" % prop), work.path("epx-%s.ndjson" % prop)
    write_runs(rp, params_of(c), runs)
    o, dt = run_driver(["bastion-e2e", "-in", rp, "-out", rt, "-dir", work.sub("db"), "-seed", str(seed)] + (["-prod", build_prod_binary()] if prod else []), timeout=3000)
    rep.notes.append("endpoint e2e%s: %s" % (" (production binary)" if prod else "", o.strip()))
    events = read_ndjson(rt)
    fails = bastion_judge(work, rep, c, rt, name="judge-epx")
    seqfam.settle(rep, prop, fails, events, c)
    n = sum(1 for e in events if e["e"] == "post")
    rep.cov["evaluations"] += n
    rep.cov["requests_end_to_end" + ("_production_binary" if prod else "")] = rep.cov.get("requests_end_to_end" + ("_production_binary" if prod else ""), 0) + n


def extlock_part(work, rep, tier, seed, prop):
    """The production binary on its database file while ANOTHER connection to that file (a backup, an operator's sqlite3 shell) holds a read
    transaction during one request: the witness' COMMIT cannot get its exclusive lock within SQLite's busy timeout. Whatever the endpoint answers,
    200 means the checkpoint is what a read returns afterwards; the same request is accepted once the other connection is gone."""
    build_driver()
    c = bconsts("quick")
    E = {"k": "empty"}
    def ok(old, b, n, pf, **kw):
        return dict({"op": "post", "kind": "ok", "log": "l1", "req": {"auth": "good", "old": old, "b": b, "n": n, "extra": 0, "stale": 0, "ext": 0, "pf": pf}}, **kw)
    R12, R23 = {"k": "right", "b": 0, "m": 1, "n": 2}, {"k": "right", "b": 0, "m": 2, "n": 3}
    runs = [{"id": "extlock-%s-grow" % prop, "limit": 100000, "steps": [ok(0, 0, 1, E), ok(1, 0, 2, R12, extlock=True), ok(1, 0, 2, R12), ok(2, 0, 2, E), ok(2, 0, 3, R23)]},
            {"id": "extlock-%s-first" % prop, "limit": 100000, "steps": [ok(0, 0, 1, E), ok(1, 0, 1, E, extlock=True), ok(1, 0, 2, R12)]}]
    rp, rt = work.path("extlock-%s.jsonl" % prop), work.path("extlock-%s.ndjson" % prop)
    write_runs(rp, params_of(c), runs)
    o, dt = run_driver(["bastion-e2e", "-in", rp, "-out", rt, "-dir", work.sub("db"), "-seed", str(seed), "-prod", build_prod_binary()], timeout=3000)
    rep.notes.append("endpoint while another connection holds the database: %s (%.0fs)" % (o.strip(), dt))
    events = read_ndjson(rt)
    fails = bastion_judge(work, rep, c, rt, name="judge-extlock")
    seqfam.settle(rep, prop, fails, events, c)
    held = [e for e in events if e["e"] == "post" and e.get("extlock")]
    if not held:
        raise Inconclusive("no request was served while the outside reader held the database")
    rep.cov["requests_served_while_another_connection_held_the_database"] = {str(e["status"]): sum(1 for x in held if x["status"] == e["status"]) for e in held}
    rep.cov["evaluations"] += sum(1 for e in events if e["e"] == "post")


def legacy_db_part(work, rep, tier, seed, prop):
    """The production binary STARTED ON A DATABASE THE PINNED RELEASE WROTE (its schema, its parameter binding) that holds an acknowledged checkpoint
    of size 1: the endpoint answers from that state - a stale old size gets 409 with the size, growth from 1 is accepted, a fork of the same size 409."""
    build_driver()
    c = bconsts("quick")
    E = {"k": "empty"}
    def ok(old, b, n, pf, **kw):
        return dict({"op": "post", "kind": "ok", "log": "l1", "req": {"auth": "good", "old": old, "b": b, "n": n, "extra": 0, "stale": 0, "ext": 0, "pf": pf}}, **kw)
    R12, R13 = {"k": "right", "b": 0, "m": 1, "n": 2}, {"k": "right", "b": 0, "m": 1, "n": 3}
    sync = {"op": "preset", "kind": "ok", "log": "l1"}       # (tells the judge what the harness wrote into the file before the binary was started)
    runs = [{"id": "legacydb-%s-a" % prop, "limit": 100000, "steps": [sync, ok(0, 0, 2, E), ok(0, 0, 1, E), ok(1, 0, 2, R12), ok(2, 1, 2, E)]},
            {"id": "legacydb-%s-b" % prop, "limit": 100000, "steps": [sync, ok(0, 1, 2, E), ok(2, 0, 2, E), ok(1, 0, 3, R13)]}]
    rp, rt = work.path("legacydb-%s.jsonl" % prop), work.path("legacydb-%s.ndjson" % prop)
    write_runs(rp, params_of(c), runs)
    o, dt = run_driver(["bastion-e2e", "-in", rp, "-out", rt, "-dir", work.sub("db"), "-seed", str(seed), "-prod", build_prod_binary(), "-legacy"], timeout=3000)
    rep.notes.append("endpoint of the binary started on a database of the pinned release: %s" % o.strip())
    events = read_ndjson(rt)
    fails = bastion_judge(work, rep, c, rt, name="judge-legacydb")
    seqfam.settle(rep, prop, fails, events, c)
    posts = [e for e in events if e["e"] == "post"]
    if not any(e["status"] == 409 for e in posts):
        raise Inconclusive("the binary did not answer from the state in the release's database (no 409 seen): %s" % [e["status"] for e in posts])
    rep.cov["requests_to_the_binary_started_on_a_release_database"] = len(posts)
    rep.cov["evaluations"] += len(posts)


def c10(work, tier, seed, replay):
    rep = Report("C10", tier, seed, "model_checking")
    rng = random.Random(seed)
    build_driver()
    c = bconsts(tier)
    cfg = cfg_text(spec="BSpec", constants=c, invariants=["TypeOK"], properties=["AnswersDocumented", "OKOnlyWhenAccepted", "LimitedNotProcessed", "RefusedUnchanged", "AppendOnly"],
                   view="BView", action_constraints=["BEmit"])
    r = require_ok(tlc(work, "MC_Bastion", cfg, name="MC_Bastion", timeout=1800), "design check MC_Bastion")
    rep.add_model("MC_Bastion", r)
    edges = [json.loads(x) for x in r.prints("EDGE")]
    edges = [e for e in edges if e["act"].get("kind") != "limited"]
    by_pre = {}
    for e in edges:
        by_pre.setdefault(key(e["pre"]), []).append(e)
    runs, n = [], 0
    for k, es in by_pre.items():
        setup = tofu_posts(es[0]["pre"], c["NWitKeys"])
        quiet = [e for e in es if e["act"]["status"] != 200]
        loud = [e for e in es if e["act"]["status"] == 200]
        for j in range(0, len(quiet), 120):
            n += 1
            # ... and after the series of refusals one request that must be accepted (refusals must not use anything up)
            runs.append({"id": "b%d" % n, "limit": 100000, "steps": setup + [post_step(e["act"]) for e in quiet[j:j + 120]] + ([post_step(loud[0]["act"])] if loud else [])})
        for e in loud:
            n += 1
            runs.append({"id": "b%d" % n, "limit": 100000, "steps": setup + [post_step(e["act"])]})
    # histories through the endpoint: random walks over the emitted graph
    g = Graph(edges)
    init = {l: {"none": True} for l in sorted(c["Logs"])}
    for j in range(150 if tier == "quick" else 1500):
        path = g.walk(init, 25, rng, lambda e: e["act"]["status"] == 200)
        runs.append({"id": "bw%d" % j, "limit": 100000, "steps": [post_step(e["act"]) for e in path]})
    # origins that are not configured, of many shapes (short, long, non-ASCII around every small offset): the same request 80 times, the
    # driver draws a new origin for each
    unk = [e for e in edges if e["act"].get("kind") == "unknown-origin"]
    unk_runs = []
    if unk:
        for j in range(2 if tier == "quick" else 8):
            e0 = unk[(j * 7) % len(unk)]
            unk_runs.append({"id": "unk%d" % j, "limit": 100000, "steps": tofu_posts(e0["pre"], c["NWitKeys"]) + [post_step(e0["act"])] * 80})
    runs += unk_runs
    runs += rate_runs()
    stores = ("inmem", "sqlmem") if tier == "quick" else ("inmem", "sqlmem", "sqlfile")
    embeds = ("id", "huge") if tier == "quick" else ("id", "pow2", "mixed", "huge")
    rp = work.path("bastion-runs.jsonl")
    write_runs(rp, params_of(c), runs)
    tp = work.path("bastion.ndjson")
    with open(tp, "w") as out:
        for st in stores:
            for em in embeds:
                part = work.path("bpart.ndjson")
                o, dt = run_driver(["bastion", "-in", rp, "-out", part, "-store", st, "-embed", em, "-seed", str(seed), "-workers", str(NCPU), "-dir", work.sub("db")])
                rep.notes.append(o.strip())
                out.write(open(part).read())
                os.remove(part)
    # end to end: the REAL FeedBastion dials a stub bastion over TLS 1.3 (ALPN bastion/0); the stub speaks HTTP/2 as a client over that
    # reverse connection; witness state is read back through the real read API
    e2e = [r for r in runs if not r["id"].startswith("rate")]
    rng.shuffle(e2e)
    ne2e = 60 if tier == "quick" else 900
    quiet_runs = [r_ for r_ in e2e if r_["id"].startswith("b") and not r_["id"].startswith("bw") and len(r_["steps"]) > 3]
    prod_e2e = unk_runs + quiet_runs[:12 if tier == "quick" else 200] + e2e[ne2e:ne2e + (50 if tier == "quick" else 500)]
    prod_e2e = list({r_["id"]: r_ for r_ in prod_e2e}.values())
    e2e = list({r_["id"]: r_ for r_ in [r_ for r_ in e2e[:ne2e] if r_ not in unk_runs] + unk_runs[:1]}.values())
    ep, et = work.path("e2e-runs.jsonl"), work.path("e2e.ndjson")
    write_runs(ep, params_of(c), e2e)
    o, dt = run_driver(["bastion-e2e", "-in", ep, "-out", et, "-dir", work.sub("db"), "-seed", str(seed)], timeout=3000)
    rep.notes.append(o.strip() + " (%.0fs)" % dt)
    with open(tp, "a") as out:
        out.write(open(et).read())
    rep.cov["end_to_end_runs"] = len(e2e)
    # the rate limiter as the real FeedBastion (and the production binary's flag) builds it: configured rate 0 (nothing may be served, not even the
    # first request) and rate 1 (burst 1)
    rl = [r_ for r_ in runs if r_["id"].startswith("rate0") or r_["id"].startswith("rate1")]
    for lim, pref, extra in ((0, "rate0", []), (1, "rate1", []), (0, "rate0", ["-prod", build_prod_binary()])):
        rp_, rt_ = work.path("e2e-rate.jsonl"), work.path("e2e-rate.ndjson")
        sel = [dict(r_, id=r_["id"] + ("-prod" if extra else "")) for r_ in rl if r_["id"].startswith(pref)][:2 if lim == 0 else 1]       # (the limiter lives as long as the witness side: one rate-1 run per start)
        write_runs(rp_, params_of(c), sel)
        o, dt = run_driver(["bastion-e2e", "-in", rp_, "-out", rt_, "-dir", work.sub("db"), "-seed", str(seed), "-limit", str(lim)] + extra, timeout=3000)
        rep.notes.append("rate %d end to end%s: %s" % (lim, " (production binary)" if extra else "", o.strip()))
        with open(tp, "a") as out:
            out.write(open(rt_).read())
    # the same, with the PRODUCTION BINARY on the witness side (cmd/omniwitness --db_file --bastion_addr ...: flags, key files, SQLite, omniwitness.Main)
    if prod_e2e:
        pp, pt = work.path("e2e-prod-runs.jsonl"), work.path("e2e-prod.ndjson")
        write_runs(pp, params_of(c), prod_e2e)
        o, dt = run_driver(["bastion-e2e", "-in", pp, "-out", pt, "-dir", work.sub("db"), "-seed", str(seed), "-prod", build_prod_binary()], timeout=3000)
        rep.notes.append("production binary: " + o.strip() + " (%.0fs)" % dt)
        with open(tp, "a") as out:
            out.write(open(pt).read())
    rep.cov["end_to_end_runs_production_binary"] = len(prod_e2e)
    events = read_ndjson(tp)
    fails = bastion_judge(work, rep, c, tp)
    posts = [e for e in events if e["e"] == "post"]
    rep.cov["evaluations"] = len(posts)
    rep.cov["traces_validated_against_impl"] = sum(1 for e in events if e["e"] == "reset")
    rep.cov["distinct_nontrivial"] = len({json.dumps([e["kind"], e.get("req"), e["status"], e["stored"]], sort_keys=True) for e in posts})
    rep.cov["status_histogram"] = {str(s): sum(1 for e in posts if e["status"] == s) for s in sorted({e["status"] for e in posts})}
    seqfam.settle(rep, "C10", fails, events, c)
    rep.cov["rule"] = ("every transition of MC_Bastion (every body class: well-formed for every verdict class, 7 malformed classes, unknown origin x every witness state, states reached through the "
                       "endpoint itself) plus random histories, executed in process against the real handler (built as FeedBastion builds it, incl. the 16 KiB cap) wired to the real witness through "
                       "the adapter Main uses; rate limiter at limit 0 and limit 1 (burst 1) judged on monotonic-time bounds; TLC (Trace_Bastion) judges status, content type, body class, cosignature "
                       "validity and witness state; distinct = distinct (body class, request, status, state after)")
    rep.cov["exhaustive"] = True
    for e in posts[:2]:
        rep.sample(e)
    # every request is answered for ITSELF also when requests overlap (concurrent streams on the bastion connection): status per request as the table
    # says for some order of the overlapping requests, and a 200 body that verifies over the text THIS request submitted
    import checks_ops
    checks_ops.prod_conc_part(work, rep, tier, seed, "C10", "the endpoint's answer belongs to the request it answers")
    extlock_part(work, rep, tier, seed, "C10")
    legacy_db_part(work, rep, tier, seed, "C10")
    rep.assumptions += ["the overlay shim builds the in-process handler exactly as FeedBastion does; a sample of the same runs goes end to end through the exported FeedBastion over TLS 1.3 + HTTP/2",
                        "monotonic clock for the rate-limit bounds"]
    return rep.finish()


CHECKS["C10"] = c10


# ----------------------------------------------------------------------------- C11

def c11(work, tier, seed, replay):
    rep = Report("C11", tier, seed, "model_checking")
    build_driver()
    n = 4 if tier == "quick" else 5
    c = bconsts("quick")
    # TLC enumerates every token sequence up to length n, checks the grammar (ASSUME), and emits it with the parser's verdict
    d = work.sub("grammar")
    for f in os.listdir(SPEC):
        if f.endswith(".tla"):
            shutil.copy(os.path.join(SPEC, f), d)
    open(os.path.join(d, "MC_Grammar.tla"), "w").write(
        "---- MODULE MC_Grammar ----\nEXTENDS MC_Bastion\nASSUME GrammarSane(%d)\nASSUME EmitBodies(%d)\nGNext == UNCHANGED bvars\n====\n" % (n, n))
    open(os.path.join(d, "run.cfg"), "w").write(cfg_text(init_next=("BInit", "GNext"), constants=dict(c, Olds={0}, BadKinds={"random"}, BadAuths={"badsig"}, MaxSize=1, NBranch=1, Malformed={"nosize"})))
    rc, out, dt = sh(["tlc", "-workers", "4", "-metadir", os.path.join(d, "md"), "-config", "run.cfg", "MC_Grammar.tla"], cwd=d, timeout=1800,
                     env=dict(os.environ, JAVA_TOOL_OPTIONS="-Xss64m"))
    r = TLCResult(rc, out, dt)
    if not r.ok:
        raise Inconclusive("MC_Grammar failed: %s\n%s" % (r.error or r.violated, out[-2000:]))
    toks = r.prints("TOK")
    rep.add_model("MC_Grammar(len<=%d)" % n, r)
    rep.cov["states"] = max(rep.cov["states"], 1)
    rep.cov["transitions"] = len(toks)
    # proofs of every length up to the protocol's 63 lines (and a few beyond, which may be refused but not misread)
    for k_ in list(range(5, 67)) + [70, 100, 127]:
        toks.append(json.dumps({"toks": ["size"] + ["b64"] * k_ + ["blank", "cp"] + (["cp"] if k_ % 2 else [])}))
        if k_ in (62, 63, 64):
            toks.append(json.dumps({"toks": ["size"] + ["b64"] * k_}))                       # no separator
            toks.append(json.dumps({"toks": ["size"] + ["b64"] * (k_ - 1) + ["notb64", "blank", "cp"]}))
    vec = work.path("toks.jsonl")
    open(vec, "w").write("\n".join(toks) + "\n")
    # the repository's own writer of the body format
    fb = build_feedbastion_writer_test()
    win, wout = work.path("writer-in.jsonl"), work.path("writer-out.txt")
    run_driver(["body", "-writer-in", win, "-seed", str(seed)])
    rc, o, dt = sh([fb, "-test.run", "TestVerifWriter", "-test.count", "1"], env=dict(GOENV, VERIF_WRITER_IN=win, VERIF_WRITER_OUT=wout), timeout=600)
    if rc != 0 or not os.path.exists(wout):
        raise Inconclusive("cmd/feedbastion writer test failed:\n" + o[-2000:])
    tp = work.path("body.ndjson")
    o, dt = run_driver(["body", "-in", vec, "-out", tp, "-seed", str(seed), "-reps", "2" if tier == "quick" else "6", "-proofs", "400" if tier == "quick" else "4000",
                        "-writer-out", wout, "-writer-vec", win])
    rep.notes.append(o.strip())
    # bodies longer than what the endpoint reads (16 KiB), through the endpoint as the real FeedBastion sets it up: refused, not cut and understood
    endpoint_e2e_part(work, rep, tier, seed, "C11", ["oversize", "noblank"], prod=False)
    # ... and well-formed bodies that REACH the handler in pieces (cut anywhere, or line by line: a streamed sender, a relay, HTTP/2 DATA frames) are
    # understood exactly as the same bytes arriving at once (the in-process driver picks the delivery from the body's content)
    bastion_part(work, rep, tier, seed, "C11")
    events = read_ndjson(tp)
    jc = dict(c)
    jc["TraceFile"] = tp
    jr = tlc(work, "MC_Trace_Body", cfg_text(spec="TSpec", constants=jc, action_constraints=["Monitor"], postcondition="Done"), name="judge-body", workers=1, timeout=3600, heap="12g")
    if not jr.ok:
        raise Inconclusive("body judge failed: %s\n%s" % (jr.error or jr.violated, jr.out[-3000:]))
    fails = [["FAIL", f["id"], f["name"], f["i"], f["run"], f["k"], f["sig"]] for f in map(json.loads, jr.prints("FAIL"))]
    seqfam.settle(rep, "C11", fails, events, c)
    rep.cov["evaluations"] = len(events)
    rep.cov["traces_validated_against_impl"] = 1
    rep.cov["distinct_nontrivial"] = len({json.dumps([e["e"], e["toks"], e["kind"], e["accepted"], e["conc"] if e["e"] != "body" else ""]) for e in events})
    rep.cov["bodies_accepted"] = sum(1 for e in events if e["e"] == "body" and e["accepted"])
    rep.cov["writer_bodies"] = sum(1 for e in events if e["e"] == "writer")
    rep.cov["proof_round_trips"] = sum(1 for e in events if e["e"] == "proof" and e["kind"] == "roundtrip")
    rep.cov["rule"] = ("TLC enumerates EVERY sequence of line tokens (canonical / sloppy / garbage-suffixed / missing size line, base64 line, non-base64 line, blank, checkpoint line) up to length %d with the "
                       "grammar's verdict; each is rendered with seeded values (old sizes over 0..2^64-1 incl. every decimal length, 1..64-byte hashes, checkpoint bytes with blank lines and non-UTF-8) and fed to "
                       "the real parseBody; Proof.Marshal/Unmarshal for every length 0..64 and damaged texts; bodies written by cmd/feedbastion's own writer; judged by Trace_Body; "
                       "the VALUE domain is sampled, the STRUCTURE domain is exhaustive; distinct = distinct (kind, token sequence / shape, outcome)" % n)
    rep.cov["exhaustive"] = False
    bodies = [e for e in events if e["e"] == "body" and e["accepted"]]
    for e in bodies[:2] + [e for e in events if e["e"] == "proof"][:1]:
        rep.sample(e)
    rep.assumptions += ["byte values are sampled by seeded generators (encode/decode fidelity is the corner this family is weakest at)",
                        "cmd/feedbastion's writer is only ever called with old size 0 by its feeder (its GetLatestCheckpoint always answers 'none'); it is driven with old size 0"]
    return rep.finish()


CHECKS["C11"] = c11
