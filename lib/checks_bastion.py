"""Bastion family (Bastion.tla): C10 (endpoint protocol), C11 (body / proof formats), C19 (totality)."""
import json, random, os, re
from vlib import *
import seqfam
from seqfam import consts, params_of, FORKS

CHECKS = {}
B_AUTH = {"badsig", "badtext", "unknownkey", "hashflip", "nosig"}
MALFORMED = {"nosize", "suffix", "notb64", "noblank", "cp-one-line", "empty-body", "oversize"}


def bconsts(tier, **kw):
    if tier == "quick":
        c = consts(MaxSize=3, NBranch=2, ForkAt=Sub("Fork_2"), Olds={0, 1, 2, 3, 4}, BadKinds={"flip", "drop", "add", "random", "short"}, BadAuths=B_AUTH, WithUnknown=False)
    else:
        c = consts(MaxSize=4, NBranch=3, ForkAt=Sub("Fork_2_0"), Olds={0, 1, 2, 3, 4, 5}, BadKinds={"flip", "drop", "add", "random", "short"}, BadAuths=B_AUTH, WithUnknown=False)
    c.update(Burst=1, Malformed=MALFORMED)
    c.update(kw)
    return c


def post_step(act):
    k = act["kind"]
    if k == "ok":
        return {"op": "post", "kind": "ok", "log": act["log"], "req": act["req"]}
    return {"op": "post", "kind": k, "log": "l1"}


def tofu_posts(pre, nwit):
    return [dict(s, op="post", kind="ok") for s in seqfam.tofu_steps(pre, nwit)]


def bastion_judge(work, rep, c, trace, name="judge-bastion"):
    jc = dict(c)
    jc["TraceFile"] = trace
    r = tlc(work, "MC_Trace_Bastion", cfg_text(spec="TraceSpec", constants=jc, action_constraints=["Monitor"], postcondition="Done"),
            name=name, workers=1, timeout=3600, heap="12g")
    if not r.ok:
        raise Inconclusive("bastion judge failed: %s\n%s" % (r.error or r.violated, r.out[-3000:]))
    return [["FAIL", f["id"], f["name"], f["i"], f["run"], f["k"], f["sig"]] for f in map(json.loads, r.prints("FAIL"))]


def rate_runs():
    E = {"k": "empty"}
    mk = lambda old, n, pf: {"op": "post", "kind": "ok", "log": "l1", "req": {"auth": "good", "old": old, "b": 0, "n": n, "extra": 0, "stale": 0, "ext": 0, "pf": pf}}
    runs = []
    for j in range(3):
        # limit 1 (burst 1): served, refused at once, refused again, served after the bucket refilled
        runs.append({"id": "rate1-%d" % j, "limit": 1, "steps": [mk(0, 1, E), mk(1, 2, {"k": "right", "b": 0, "m": 1, "n": 2}), {"op": "post", "kind": "nosize", "log": "l1"},
                                                                dict(mk(1, 2, {"k": "right", "b": 0, "m": 1, "n": 2}), sleep_ms=1100), mk(2, 2, E)]})
        # limit 0: nothing is served
        runs.append({"id": "rate0-%d" % j, "limit": 0, "steps": [mk(0, 1, E), {"op": "post", "kind": "nosize", "log": "l1"}, {"op": "post", "kind": "unknown-origin", "log": "l1"}]})
    return runs


def c10(work, tier, seed, replay):
    rep = Report("C10", tier, seed, "model_checking")
    rng = random.Random(seed)
    build_driver()
    c = bconsts(tier)
    cfg = cfg_text(spec="BSpec", constants=c, invariants=["TypeOK"], properties=["AnswersDocumented", "OKOnlyWhenAccepted", "LimitedNotProcessed", "RefusedUnchanged", "AppendOnly"],
                   view="BView", action_constraints=["BEmit"])
    r = require_ok(tlc(work, "MC_Bastion", cfg, name="MC_Bastion", timeout=1800), "design check MC_Bastion")
    rep.add_model("MC_Bastion", r)
    edges = [json.loads(x) for x in r.prints("EDGE")]
    edges = [e for e in edges if e["act"].get("kind") != "limited"]
    by_pre = {}
    for e in edges:
        by_pre.setdefault(key(e["pre"]), []).append(e)
    runs, n = [], 0
    for k, es in by_pre.items():
        setup = tofu_posts(es[0]["pre"], c["NWitKeys"])
        quiet = [e for e in es if e["act"]["status"] != 200]
        loud = [e for e in es if e["act"]["status"] == 200]
        for j in range(0, len(quiet), 120):
            n += 1
            runs.append({"id": "b%d" % n, "limit": 100000, "steps": setup + [post_step(e["act"]) for e in quiet[j:j + 120]]})
        for e in loud:
            n += 1
            runs.append({"id": "b%d" % n, "limit": 100000, "steps": setup + [post_step(e["act"])]})
    # histories through the endpoint: random walks over the emitted graph
    g = Graph(edges)
    init = {l: {"none": True} for l in sorted(c["Logs"])}
    for j in range(150 if tier == "quick" else 1500):
        path = g.walk(init, 25, rng, lambda e: e["act"]["status"] == 200)
        runs.append({"id": "bw%d" % j, "limit": 100000, "steps": [post_step(e["act"]) for e in path]})
    runs += rate_runs()
    stores = ("inmem", "sqlmem") if tier == "quick" else ("inmem", "sqlmem", "sqlfile")
    embeds = ("id", "huge") if tier == "quick" else ("id", "pow2", "mixed", "huge")
    rp = work.path("bastion-runs.jsonl")
    write_runs(rp, params_of(c), runs)
    tp = work.path("bastion.ndjson")
    with open(tp, "w") as out:
        for st in stores:
            for em in embeds:
                part = work.path("bpart.ndjson")
                o, dt = run_driver(["bastion", "-in", rp, "-out", part, "-store", st, "-embed", em, "-seed", str(seed), "-workers", str(NCPU), "-dir", work.sub("db")])
                rep.notes.append(o.strip())
                out.write(open(part).read())
                os.remove(part)
    events = read_ndjson(tp)
    fails = bastion_judge(work, rep, c, tp)
    posts = [e for e in events if e["e"] == "post"]
    rep.cov["evaluations"] = len(posts)
    rep.cov["traces_validated_against_impl"] = sum(1 for e in events if e["e"] == "reset")
    rep.cov["distinct_nontrivial"] = len({json.dumps([e["kind"], e.get("req"), e["status"], e["stored"]], sort_keys=True) for e in posts})
    rep.cov["status_histogram"] = {str(s): sum(1 for e in posts if e["status"] == s) for s in sorted({e["status"] for e in posts})}
    seqfam.settle(rep, "C10", fails, events, c)
    rep.cov["rule"] = ("every transition of MC_Bastion (every body class: well-formed for every verdict class, 7 malformed classes, unknown origin x every witness state, states reached through the "
                       "endpoint itself) plus random histories, executed in process against the real handler (built as FeedBastion builds it, incl. the 16 KiB cap) wired to the real witness through "
                       "the adapter Main uses; rate limiter at limit 0 and limit 1 (burst 1) judged on monotonic-time bounds; TLC (Trace_Bastion) judges status, content type, body class, cosignature "
                       "validity and witness state; distinct = distinct (body class, request, status, state after)")
    rep.cov["exhaustive"] = True
    for e in posts[:2]:
        rep.sample(e)
    rep.assumptions += ["the overlay shim builds the handler exactly as FeedBastion does (the end-to-end variant over TLS1.3+HTTP/2 exercises the exported path)",
                        "monotonic clock for the rate-limit bounds"]
    return rep.finish()


CHECKS["C10"] = c10
