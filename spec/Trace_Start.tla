----------------------------- MODULE Trace_Start -----------------------------
(***************************************************************************)
(* Judge for C17 and the identity half of C12: start-up of the real        *)
(* omniwitness on the shipped configurations (step by step through the     *)
(* functions Main uses, and Main itself) and on TLC-enumerated generated   *)
(* configurations; and the id every interface uses for an origin.          *)
(***************************************************************************)
EXTENDS Omni

CONSTANT TraceFile
Trace == ndJsonDeserialize(TraceFile)
VARIABLE i
Ev == Trace[i]
JInit == i = 1 /\ Entries = <<>> /\ sphase = "trace" /\ widx = 0 /\ witmap = {} /\ feeders = {}
JNext == i <= Len(Trace) /\ i' = i + 1 /\ UNCHANGED svars
JSpec == JInit /\ [][JNext]_<<i, svars>>

Check(id, name, ok) == ok \/ PrintT("FAIL " \o ToJson([id |-> id, name |-> name, i |-> i, run |-> Ev.run, k |-> Ev.k, sig |-> "-"]))
SeqToSet(s) == {s[j] : j \in DOMAIN s}

\* outcomes the start-up machine allows for a configuration (feeders are started concurrently, so with several
\* defective feeders either defect may decide)
Allowed(E) ==
    LET n == Len(E)
        parseBad == \E j \in 1..n : E[j].key \in {"bad", "stalehash"} \/ E[j].feeder = "unknown"
        dup == \E j, k \in 1..n : j # k /\ E[j].origin = E[k].origin
        fed == {j \in 1..n : E[j].feeder # "none"}
        panics == {j \in fed : SchemePanics /\ E[j].feeder = "serverless" /\ E[j].url = "badscheme"}
        fails == {j \in fed \ panics : ~UrlOK(E[j])}
    IN IF parseBad \/ dup THEN {"failed"}
       ELSE IF panics = {} /\ fails = {} THEN {"serving"}
       ELSE (IF panics # {} THEN {"panicked"} ELSE {}) \cup (IF fails # {} THEN {"failed"} ELSE {})

\* C17: the shipped configuration: every step succeeds, nothing panics, map and feeder list describe the same logs
MonShipped ==
    /\ Check("C17", "ParsesAndHasEntries", Ev.parsed /\ Ev.nentries > 0)
    /\ Check("C17", "EveryKeyParses", Ev.badkeys = <<>>)
    /\ Check("C17", "EveryFeederKnown", Ev.unknownfeeders = <<>>)
    /\ Check("C17", "NoIdCollision", Ev.mapok /\ Ev.distinctids = Ev.nentries)
    /\ Check("C17", "EveryFeederStartsFromItsURL", Ev.feederfailed = <<>> /\ Ev.feederpanicked = <<>>)
    /\ Check("C17", "MapAndFeedersDescribeTheSameLogs", SeqToSet(Ev.feederids) \subseteq SeqToSet(Ev.mapids) /\ SeqToSet(Ev.mapids) = SeqToSet(Ev.logids))
    /\ Check("C17", "MainStarts", Ev.main = "serving")
    \* ... and inside Main the feeder of every entry that has one is actually RUNNING from its URL (with all the cores of this machine, with two, with one)
    /\ Check("C17", "EveryConfiguredFeederIsRunning", Ev.unpolled = <<>>)
    \* ... and the add-checkpoint endpoint inside Main knows every entry the witness knows (403 for an unsigned checkpoint of its origin, not 404),
    \* with polling on and with polling off (a bastion-only witness)
    /\ Check("C17", "EndpointKnowsEveryShippedLog", Ev.bastionunknown = <<>>)

\* generated configurations: the real Main ends the way the start-up machine says
MonGenerated ==
    /\ Check("C12", "StartupOutcomeAsModel", Ev.outcome \in Allowed(Ev.entries))
    /\ Check("C02", "EveryEntryIsCheckedAgainstItsOwnKey", (\E j \in 1..Len(Ev.entries) : Ev.entries[j].key = "stalehash") => Ev.outcome = "failed")
    /\ Check("C12", "DuplicateIdsRefused",
             (\E j, k \in 1..Len(Ev.entries) : j # k /\ Ev.entries[j].origin = Ev.entries[k].origin) => Ev.outcome = "failed")

\* C12: every interface files an origin under the same id, and different origins get different ids
MonId ==
    /\ Check("C12", "SameIdOnEveryInterface", Ev.id = Ev.want)
    /\ Check("C12", "IdsDistinct", Ev.distinct)

\* every kind of log key the configuration format admits: what the configured key did not sign is refused (C02), whatever its length (C19)
CheckSig(id, name, sig, ok) == ok \/ PrintT("FAIL " \o ToJson([id |-> id, name |-> name, i |-> i, run |-> Ev.run, k |-> Ev.k, sig |-> sig]))
MonKeyType ==
    /\ CheckSig("C02", "ConfiguredKeyVerifiesWhatItSigned", "keytype/" \o Ev.alg \o "/signature-check",
                Ev.configok => Ev.validaccepted /\ Ev.garbagerefused /\ Ev.otherkeyrefused)
    /\ CheckSig("C19", "NoSignatureMakesTheVerifierPanic", "keytype/" \o Ev.alg \o "/panic", Ev.oddlengthssurvived)
    \* C08: a log that signs its unchanged checkpoint again (key kinds with randomised signatures produce other, equally valid bytes) gets its refresh
    /\ CheckSig("C08", "ResignedCheckpointRefreshes", "keytype/" \o Ev.alg \o "/resigned-refresh", Ev.configok /\ Ev.validaccepted => Ev.resignedrefresh)

Monitor == CASE Ev.e = "start.shipped" -> MonShipped
             [] Ev.e = "keytype" -> MonKeyType
             [] Ev.e = "start.generated" -> MonGenerated
             [] Ev.e = "id" -> MonId
             [] OTHER -> TRUE
Done == TLCGet("stats").diameter - 1 = Len(Trace)
=============================================================================
