------------------------------ MODULE Trace_Ops ------------------------------
(***************************************************************************)
(* Trace validation of WitnessOps itself: the storage calls the real       *)
(* witness made in a gated run (recorded by the wrapping persistence, in   *)
(* completion order, with their results) must be a behaviour of the        *)
(* specification, action by action, and every response must be the one the *)
(* specification computes.  All runs of one (scenario, store) are checked  *)
(* in one pass (Reset between runs).  A rejection is model drift or a      *)
(* defect; the property verdict of C05 comes from Trace_Lin.               *)
(***************************************************************************)
EXTENDS WitnessOps

CONSTANT TraceFile
Trace == ndJsonDeserialize(TraceFile)
VARIABLE i
tvars == <<vars, i>>
Ev == Trace[i]

TInit == InitE /\ i = 1

\* the next run starts from the initial state again
ResetEv ==
    /\ Ev.e = "reset"
    /\ db' = Db0 /\ conn' = 0 /\ lk' = NoLocks /\ tx' = [p \in Procs |-> None] /\ ip' = [p \in Procs |-> 1]
    /\ pc' = [p \in Procs |-> IF Len(Prog[p]) = 0 THEN "idle" ELSE IF Prog[p][1].kind = "read" THEN "rops" ELSE "wops"]
    /\ snap' = [p \in Procs |-> None] /\ dec' = [p \in Procs |-> NoDec] /\ res' = [p \in Procs |-> <<>>]
    /\ seen' = [p \in Procs |-> {}] /\ faults' = 0 /\ crashed' = FALSE /\ acked' = Db0 /\ sched' = <<>>
    /\ i' = i + 1

IsOp(name) == Ev.e = "op" /\ Ev.name = name
ObsOK == Ev.res = "ok"

TWriteOps == IsOp("WriteOps") /\ ObsOK /\ WriteOps(Ev.p) /\ i' = i + 1
TReadOps  == IsOp("ReadOps") /\ ObsOK /\ ReadOps(Ev.p) /\ i' = i + 1
TGetLatest ==
    /\ IsOp("GetLatest") /\ ObsOK
    /\ IF pc[Ev.p] = "rget" THEN ReadGet(Ev.p) ELSE GetLatest(Ev.p)
    /\ i' = i + 1
\* Set: the logged result must be the one the specification computes (a lost compare-and-set is an error)
TSet ==
    /\ IsOp("Set") /\ Set(Ev.p)
    /\ (Ev.res = "ok") = (dec'[Ev.p] # StorageErr)
    /\ i' = i + 1
TClose == IsOp("Close") /\ Close(Ev.p) /\ i' = i + 1

\* responses and the final state are compared with what the specification holds
V(v) == IF v = "StorageErr" THEN "Internal" ELSE v
TRet ==
    /\ Ev.e = "ret"
    /\ Len(res[Ev.p]) >= 1
    /\ LET r == res[Ev.p][Len(res[Ev.p])] IN
         /\ V(r.v) = Ev.v
         /\ (Ev.v \in {"Accept", "Read"} => r.val = Ev.val)
    /\ UNCHANGED vars /\ i' = i + 1
TInv == Ev.e = "inv" /\ UNCHANGED vars /\ i' = i + 1
TFinal == Ev.e = "final" /\ (\A l \in Logs : Ev.stored[l] = db[l]) /\ AllDone /\ UNCHANGED vars /\ i' = i + 1

TNext == i <= Len(Trace) /\ (ResetEv \/ TWriteOps \/ TReadOps \/ TGetLatest \/ TSet \/ TClose \/ TRet \/ TInv \/ TFinal)
TSpec == TInit /\ [][TNext]_tvars

HighWater == TLCSet(1, IF i > TLCGet(1) THEN i ELSE TLCGet(1))
Accepted == IF TLCGet(1) = Len(Trace) + 1 THEN TRUE
            ELSE PrintT("REJECTED " \o ToJson([i |-> TLCGet(1), run |-> Trace[TLCGet(1)].run, ev |-> Trace[TLCGet(1)]])) /\ FALSE
ASSUME TLCSet(1, 0)
=============================================================================
