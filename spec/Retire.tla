------------------------------- MODULE Retire -------------------------------
(***************************************************************************)
(* The witness across CHANGES OF ITS CONFIGURATION.  Witness.tla has a     *)
(* fixed set of configured logs; here `conf` (the logs the running         *)
(* instance was started with) is a variable and `Reconfigure(S)` - the     *)
(* operator edits the log list and restarts on the same store - is an      *)
(* environment action.  One step of the witness = one call of Update,      *)
(* GetCheckpoint or GetLogs, decided by the same Decide of WitnessCore.    *)
(*                                                                         *)
(* What the code does (internal/witness/witness.go): Update looks the id   *)
(* up in w.Logs (the configuration) before anything else - ErrUnknownLog,  *)
(* no counter, nothing read or written; GetCheckpoint and GetLogs go       *)
(* straight to the store and never ask the configuration.  So a retired    *)
(* log is frozen, still served and still listed, and a reinstated log      *)
(* carries on from what was kept: no second history begins.                *)
(***************************************************************************)
EXTENDS WitnessCore, Json

CONSTANTS Olds,      \* old sizes a request may carry
          BadAuths   \* classes of notes that are not the log's

VARIABLES stored,    \* [Logs -> CP \cup {None}]  what the store holds
          conf,      \* SUBSET Logs: the configuration of the running instance
          last,      \* observation
          ctr        \* observation: [Logs -> counters]

rvars == <<stored, conf, last, ctr>>
Ctr0 == [attempt |-> 0, success |-> 0, badproof |-> 0, inconsistent |-> 0]

GoodReq(old, b, n, pf) == [auth |-> "good", old |-> old, b |-> b, n |-> n, extra |-> 0, stale |-> 0, ext |-> 0, pf |-> pf]
BadReq(a, n)           == [auth |-> a, old |-> 0, b |-> 0, n |-> n, extra |-> 0, stale |-> 0, ext |-> 0, pf |-> Empty]
ProofMenu(st, b, n) ==
    {Empty} \cup (IF st # None /\ st.n >= 1 /\ st.n < n
                  THEN {Right(bb, st.n, n) : bb \in ({b, st.b} \cap RealBranch)} ELSE {})

RInit == /\ stored = [l \in Logs |-> None]
         /\ conf = Logs
         /\ last = [a |-> "init"]
         /\ ctr = [l \in Logs |-> Ctr0]

\* the counters are bumped only after the configuration look-up succeeded
RBump(c, cf, l, v) ==
    IF l \notin cf THEN c
    ELSE [c EXCEPT ![l] = [attempt      |-> @.attempt + 1,
                           success      |-> @.success + (IF v = "Accept" THEN 1 ELSE 0),
                           badproof     |-> @.badproof + (IF v = "InvalidProof" THEN 1 ELSE 0),
                           inconsistent |-> @.inconsistent + (IF v = "RootMismatch" THEN 1 ELSE 0)]]

RUpdate(l, req) ==
    LET d == Decide(l \in conf, stored[l], req)
    IN /\ stored' = IF d.write THEN [stored EXCEPT ![l] = d.new] ELSE stored
       /\ last' = [a |-> "update", log |-> l, req |-> req, v |-> d.v, ret |-> d.ret]
       /\ ctr' = RBump(ctr, conf, l, d.v)
       /\ UNCHANGED conf

\* reads do not consult the configuration
RGet(l) == last' = [a |-> "get", log |-> l, val |-> stored[l]] /\ UNCHANGED <<stored, conf, ctr>>
RGetLogs == last' = [a |-> "getlogs", val |-> {l \in Logs : stored[l] # None}] /\ UNCHANGED <<stored, conf, ctr>>

\* the operator restarts the witness with log list S on the same store
Reconfigure(S) ==
    /\ S \in SUBSET Logs /\ S # conf
    /\ conf' = S
    /\ last' = [a |-> "conf", val |-> S]
    /\ UNCHANGED <<stored, ctr>>

RNext ==
    \/ \E l \in Logs :
         \/ \E old \in Olds, b \in Branch, n \in Size : \E pf \in ProofMenu(stored[l], b, n) : RUpdate(l, GoodReq(old, b, n, pf))
         \/ \E a \in BadAuths, n \in Size : RUpdate(l, BadReq(a, n))
         \/ RGet(l)
    \/ RGetLogs
    \/ \E S \in SUBSET Logs : Reconfigure(S)

RSpec == RInit /\ [][RNext]_rvars

RTypeOK == conf \subseteq Logs

-----------------------------------------------------------------------------
(* Step formulas (unprimed = before, primed = after); Trace_Retire evaluates the *)
(* same operators on what the implementation did.                                *)

\* C12/C16: a log that is not configured is frozen - no request, for it or for another log, moves it
FrozenStep(s, sp, cf) == \A l \in Logs \ cf : sp[l] = s[l]
RetiredFrozen == [][FrozenStep(stored, stored', conf)]_rvars

\* C02/C03/C20: a request for a log that is not configured is refused outright: no bytes, no effect, no counter
RefusedStep(s, sp, c, cp, cf, la) ==
    la.a = "update" /\ la.log \notin cf => la.v = "UnknownLog" /\ la.ret = "nil" /\ sp = s /\ cp = c
RetiredRefused == [][RefusedStep(stored, stored', ctr, ctr', conf, last')]_rvars

\* C16: reads serve the store, whatever the configuration
ReadStep(s, sp, la) ==
    /\ (la.a = "get" => sp = s /\ la.val = s[la.log])
    /\ (la.a = "getlogs" => sp = s /\ la.val = {l \in Logs : s[l] # None})
ReadsIgnoreConf == [][ReadStep(stored, stored', last')]_rvars

\* a change of configuration moves nothing in the store
ReconfStep(s, sp, la) == la.a = "conf" => sp = s
ReconfKeepsStore == [][ReconfStep(stored, stored', last')]_rvars

\* C01: one append-only history per log ACROSS retirement and reinstatement
AppendStep(s, sp) ==
    \A l \in Logs : s[l] # None /\ sp[l] # s[l] => sp[l] # None /\ (Extends(s[l], sp[l]) \/ SameTree(s[l], sp[l]))
OneHistory == [][AppendStep(stored, stored')]_rvars

\* C09/C20 for configured logs: the step is the atomic witness' step under the CURRENT configuration
ConformsStep(s, sp, c, cp, cf, la) ==
    la.a = "update" =>
      LET d == Decide(la.log \in cf, s[la.log], la.req)
      IN /\ la.v = d.v /\ la.ret = d.ret
         /\ sp = (IF d.write THEN [s EXCEPT ![la.log] = d.new] ELSE s)
         /\ cp = RBump(c, cf, la.log, d.v)

\* C08: whatever was kept for a log - through any number of retirements - is a state an honest log moves the witness on from
HonestReq(st, n) ==
    GoodReq(IF st = None THEN 0 ELSE st.n, 0, n, IF st = None \/ st.n = n \/ st.n = 0 THEN Empty ELSE Right(0, st.n, n))
OnMain(st) == st = None \/ (st.b # Junk /\ CanonB(st.b, st.n) = 0)
CarriesOn ==
    \A l \in conf : OnMain(stored[l]) =>
        \A n \in Size : (stored[l] = None \/ n >= stored[l].n) =>
            \/ Decide(TRUE, stored[l], HonestReq(stored[l], n)).v = "Accept"
            \/ (ZeroWedge /\ stored[l] # None /\ stored[l].n = 0 /\ n > 0)      \* known finding F1

RView == <<stored, conf>>
=============================================================================
