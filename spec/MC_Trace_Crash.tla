---- MODULE MC_Trace_Crash ----
EXTENDS Trace_Crash
Fork_1 == <<1>>
====
