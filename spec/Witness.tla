------------------------------ MODULE Witness ------------------------------
(***************************************************************************)
(* The witness as an atomic machine: one step = one call of Update,        *)
(* GetCheckpoint or GetLogs.  `stored` is the real state; `last` and `ctr` *)
(* are observation-only (hidden from TLC's fingerprint by VIEW).           *)
(* The property formulas defined here are the ones the trace judges        *)
(* (Trace_Witness.tla) evaluate on what the implementation did.            *)
(***************************************************************************)
EXTENDS WitnessCore, Json

CONSTANTS
    Olds,        \* old sizes a request may carry (abstract; MaxSize+1 = "above everything")
    Extras,      \* numbers of extra (unknown-key) signature lines
    Stales,      \* subset of {0,1}: stale copies of the witness' own signature lines in the input
    Exts,        \* subset of {0,1}: extension lines in the checkpoint text
    BadKinds,    \* kinds of wrong proofs (flip, drop, add, random, short)
    BadAuths,    \* classes of notes that are not "text signed by this log's key with this log's origin"
    WithUnknown, \* also submit under an unknown log id
    EnvActions   \* environment steps that may happen between requests: subset of {"restart", "upgrade", "distribute", "future", "legacyonly"}

VARIABLES stored,   \* [Logs -> CP \cup {None}]
          last,     \* last request and reply (observation)
          ctr       \* [Logs -> [attempt, success, badproof, inconsistent]] (observation)

vars == <<stored, last, ctr>>

AllLogs == IF WithUnknown THEN Logs \cup {"unknown"} ELSE Logs
CP == [b : Branch, n : Size, lines : 1..(MaxLines + 2*NWitKeys + 1), ext : {0,1}]
Ctr0 == [attempt |-> 0, success |-> 0, badproof |-> 0, inconsistent |-> 0]

\* Request menus are relative to the state so that they stay small: the genuine proof
\* between the stored and the submitted size (over the submitted and over the stored
\* branch), between the claimed old size and the submitted size, a genuine proof for
\* other sizes (replay), empty, and one wrong proof per kind.
ProofMenu(st, old, b, n) ==
    {Empty} \cup {Bad(kd) : kd \in BadKinds}
    \cup (IF st # None /\ st.n >= 1 /\ st.n < n
          THEN {Right(bb, st.n, n) : bb \in ({b, st.b} \cap RealBranch)}
          ELSE {})
    \cup (IF old >= 1 /\ old < n /\ b # Junk THEN {Right(b, old, n)} ELSE {})
    \cup (IF n >= 2 /\ b # Junk THEN {Right(b, 1, n)} ELSE {})
    \cup (IF n >= 3 /\ b # Junk THEN {Right(b, n-1, n)} ELSE {})

GoodReq(old, b, n, e, s, x, pf) ==
    [auth |-> "good", old |-> old, b |-> b, n |-> n, extra |-> e, stale |-> s, ext |-> x, pf |-> pf]
BadReqO(a, n, o) ==
    [auth |-> a, old |-> o, b |-> 0, n |-> n, extra |-> 0, stale |-> 0, ext |-> 0, pf |-> Empty]
BadReq(a, n) == BadReqO(a, n, 0)
\* old sizes a note that is NOT the log's is submitted with: 0, and the size the witness holds (with the text it holds, this is the
\* re-submission of the current checkpoint in everything but the signature: it is refused like any other)
BadOlds(st) == {0} \cup (IF st # None THEN {st.n} ELSE {})

Init == /\ stored = [l \in Logs |-> None]
        /\ last = [a |-> "init"]
        /\ ctr = [l \in Logs |-> Ctr0]

\* every stored value of the bounded model is an initial state (one-step configurations)
InitAny == /\ stored \in [Logs -> {None} \cup {c \in CP : c.b = CanonB(c.b, c.n) /\ c.lines = 1 + NWitKeys /\ c.ext = 0}]
           /\ last = [a |-> "init"]
           /\ ctr = [l \in Logs |-> Ctr0]

Bump(c, l, v) ==
    IF l \notin Logs THEN c
    ELSE [c EXCEPT ![l] = [attempt      |-> @.attempt + 1,
                           success      |-> @.success + (IF v = "Accept" THEN 1 ELSE 0),
                           badproof     |-> @.badproof + (IF v = "InvalidProof" THEN 1 ELSE 0),
                           inconsistent |-> @.inconsistent + (IF v = "RootMismatch" THEN 1 ELSE 0)]]

Update(l, req) ==
    LET known == l \in Logs
        st == IF known THEN stored[l] ELSE None
        d == Decide(known, st, req)
    IN /\ stored' = IF d.write THEN [stored EXCEPT ![l] = d.new] ELSE stored
       /\ last' = [a |-> "update", log |-> l, req |-> req, v |-> d.v, ret |-> d.ret]
       /\ ctr' = Bump(ctr, l, d.v)

GetCheckpoint(l) ==
    /\ last' = [a |-> "get", log |-> l, val |-> IF l \in Logs THEN stored[l] ELSE None]
    /\ UNCHANGED <<stored, ctr>>

GetLogs ==
    /\ last' = [a |-> "getlogs", val |-> {l \in Logs : stored[l] # None}]
    /\ UNCHANGED <<stored, ctr>>

NextUpdate ==
    \E l \in AllLogs :
       LET st == IF l \in Logs THEN stored[l] ELSE None IN
       \/ \E old \in Olds, b \in Branch, n \in Size, e \in Extras, s \in Stales, x \in Exts :
             \E pf \in ProofMenu(st, old, b, n) : Update(l, GoodReq(old, b, n, e, s, x, pf))
       \/ \E a \in BadAuths, n \in Size, o \in BadOlds(st) : Update(l, BadReqO(a, n, o))

(***************************************************************************)
(* The environment between two requests.  None of these steps is taken by  *)
(* the witness; every property below has to survive them.                  *)
(*   restart    : the process is stopped and started on the same store     *)
(*   upgrade    : ... on the store as the pinned release left it (same     *)
(*                rows, the release's schema and parameter binding)        *)
(*   distribute : the witness' own REST distributor makes a pass (it reads  *)
(*                every log's latest checkpoint, verifies it, pushes it):   *)
(*                a READER inside the process, between two requests          *)
(*   future     : the stored checkpoint of a log is the one an earlier     *)
(*                incarnation cosigned while its clock ran ahead           *)
(*   legacyonly : ... cosigned before the cosignature/v1 key joined the    *)
(*                signer set (one witness line fewer)                      *)
(* The abstract state keeps tree and extension; legacyonly drops a line.   *)
(***************************************************************************)
Restart(kind) ==
    /\ kind \in EnvActions \cap {"restart", "upgrade", "distribute"}
    /\ last' = [a |-> "env", kind |-> kind, log |-> "-"]
    /\ UNCHANGED <<stored, ctr>>

Reincarnate(l, kind) ==
    /\ kind \in EnvActions \cap {"future", "legacyonly"}
    /\ l \in Logs /\ stored[l] # None
    /\ (kind = "legacyonly" => NWitKeys = 2 /\ stored[l].lines = 1 + NWitKeys)      \* (both witness lines present, no foreign ones: dropped once)
    /\ stored' = [stored EXCEPT ![l] = IF kind = "legacyonly" THEN [@ EXCEPT !.lines = @ - 1] ELSE @]
    /\ last' = [a |-> "env", kind |-> kind, log |-> l]
    /\ UNCHANGED ctr

NextEnv == (\E k \in EnvActions : Restart(k)) \/ (\E l \in Logs, k \in EnvActions : Reincarnate(l, k))

Next == NextUpdate \/ (\E l \in AllLogs : GetCheckpoint(l)) \/ GetLogs \/ NextEnv

Spec    == Init /\ [][Next]_vars
SpecAny == InitAny /\ [][NextUpdate]_vars

TypeOK == \A l \in Logs : stored[l] = None \/ stored[l] \in CP

-----------------------------------------------------------------------------
(* Property formulas, stated over one step (unprimed = before, primed = after). *)
(* The action properties below wrap them in [][...]_vars for the design check;  *)
(* the trace judge evaluates the same Step operators on observed steps.         *)

IsUpd(la) == la.a = "update"

\* C01: whatever replaces a stored checkpoint extends it (or is the same tree)
AppendOnlyStep(s, sp) ==
    \A l \in Logs : s[l] # None /\ sp[l] # s[l] =>
        sp[l] # None /\ (Extends(s[l], sp[l]) \/ SameTree(s[l], sp[l]))
AppendOnly == [][AppendOnlyStep(stored, stored')]_vars

\* C02: only authentic checkpoints are ever stored, unknown ids are refused outright
AuthenticStep(s, sp, la) ==
    IsUpd(la) =>
      /\ (la.req.auth # "good" => la.v = "NoValidSig" \/ la.v = "UnknownLog")
      /\ (la.log \notin Logs => la.v = "UnknownLog")
      /\ (la.req.auth # "good" \/ la.log \notin Logs => sp = s /\ la.ret = "nil")
Authentic == [][AuthenticStep(stored, stored', last')]_vars

\* C03: a refusal changes nothing and hands out nothing but the stored checkpoint
RefusalNoEffectStep(s, sp, la) ==
    IsUpd(la) /\ la.v # "Accept" => sp = s /\ la.ret \in {"nil", "prev"}
RefusalNoEffect == [][RefusalNoEffectStep(stored, stored', last')]_vars

\* C04 (state part): an accepted update stores the cosigned submitted checkpoint and returns it
AcceptShapeStep(s, sp, la) ==
    IsUpd(la) /\ la.v = "Accept" =>
      /\ la.ret = "new"
      /\ la.log \in Logs
      /\ sp[la.log] = Signed(la.req)
      /\ sp[la.log].lines = 1 + la.req.extra + NWitKeys       \* exactly one line per witness key
AcceptShape == [][AcceptShapeStep(stored, stored', last')]_vars

\* C09: the verdict is the first matching rule of the protocol
FirstMatchStep(s, la) ==
    IsUpd(la) =>
      LET known == la.log \in Logs
          st == IF known THEN s[la.log] ELSE None
      IN InC09Domain(known, st, la.req) =>
           /\ la.v = SpecVerdict(known, st, la.req)
           /\ la.ret = RetForVerdict(la.v)
FirstMatch == [][FirstMatchStep(stored, last')]_vars

\* C12: an update touches only the log it names
IsolationStep(s, sp, la) ==
    IsUpd(la) => \A m \in Logs : m # la.log => sp[m] = s[m]
Isolation == [][IsolationStep(stored, stored', last')]_vars

\* C16: reads return exactly the stored state
ReadExactStep(s, sp, la) ==
    /\ (la.a = "get" => sp = s /\ la.val = (IF la.log \in Logs THEN s[la.log] ELSE None))
    /\ (la.a = "getlogs" => sp = s /\ la.val = {l \in Logs : s[l] # None})
ReadExact == [][ReadExactStep(stored, stored', last')]_vars

\* C20: counters
CountersStep(c, cp, la) ==
    IF IsUpd(la) THEN cp = Bump(c, la.log, la.v) ELSE cp = c
CountersTrue == [][CountersStep(ctr, ctr', last')]_vars

\* the implementation step is one the model's own action allows
ConformsStep(s, sp, la) ==
    IsUpd(la) =>
      LET known == la.log \in Logs
          d == Decide(known, IF known THEN s[la.log] ELSE None, la.req)
      IN /\ la.v = d.v /\ la.ret = d.ret
         /\ sp = IF d.write THEN [s EXCEPT ![la.log] = d.new] ELSE s

\* C08: an honest step is accepted in every reachable state (modulo the known wedges)
HonestReq(st, n) ==
    [auth |-> "good", old |-> (IF st = None THEN 0 ELSE st.n), b |-> 0, n |-> n, extra |-> 0, stale |-> 0, ext |-> 0,
     pf |-> IF st = None \/ st.n = n \/ st.n = 0 THEN Empty ELSE Right(0, st.n, n)]
OnMain(st) == st = None \/ (st.b # Junk /\ CanonB(st.b, st.n) = 0)
F1(st, n) == ZeroWedge /\ st # None /\ st.n = 0 /\ n > 0          \* known finding F1
F2(st)    == ~PadGuard /\ st # None /\ st.lines > MaxLines        \* finding F2 (fixed: PadGuard)
HonestProgressAt(st) ==
    OnMain(st) =>
        \A n \in Size : (st = None \/ n >= st.n) =>
            \/ Decide(TRUE, st, HonestReq(st, n)).v = "Accept"
            \/ F1(st, n)
            \/ F2(st)
HonestProgress == \A l \in Logs : HonestProgressAt(stored[l])
\* the same without the exceptions: TLC must find F1 (and F2 when PadGuard = FALSE)
HonestProgressStrict ==
    \A l \in Logs : OnMain(stored[l]) =>
        \A n \in Size : (stored[l] = None \/ n >= stored[l].n) =>
            Decide(TRUE, stored[l], HonestReq(stored[l], n)).v = "Accept"

\* the code-shaped rule list and the declarative one coincide on C09's domain
DecideIsSpec ==
    \A l \in AllLogs :
       LET known == l \in Logs
           st == IF known THEN stored[l] ELSE None
       IN \A old \in Olds, b \in Branch, n \in Size :
             \A pf \in ProofMenu(st, old, b, n) :
                LET req == GoodReq(old, b, n, 0, 0, 0, pf) IN
                InC09Domain(known, st, req) =>
                    /\ Decide(known, st, req).v = SpecVerdict(known, st, req)
                    /\ Decide(known, st, req).ret = RetForVerdict(SpecVerdict(known, st, req))

\* generator: print every transition TLC explores (ACTION_CONSTRAINT, always TRUE)
Emit == PrintT("EDGE " \o ToJson([pre |-> stored, act |-> last', post |-> stored']))
View == stored
=============================================================================
