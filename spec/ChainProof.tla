----------------------------- MODULE ChainProof -----------------------------
(* Unbounded design-level argument for C01: everything the witness ever      *)
(* cosigned for a log is a prefix of what it holds now.                      *)
EXTENDS TLAPS

CONSTANTS CP,            \* all checkpoints (any size, any branch)
          Prefix(_, _),  \* Prefix(a, b): tree a is a prefix of tree b
          Verifies(_, _, _),  \* proof check of the implementation
          Proofs, None

ASSUME NoneNotCP == None \notin CP
ASSUME PrefixRefl == \A a \in CP : Prefix(a, a)
ASSUME PrefixTrans == \A a, b, c \in CP : Prefix(a, b) /\ Prefix(b, c) => Prefix(a, c)
\* Merkle soundness (checked on the term model by Merkle.tla, assumed here)
ASSUME Sound == \A a, b \in CP : \A p \in Proofs : Verifies(a, b, p) => Prefix(a, b)

VARIABLES stored, seen
vars == <<stored, seen>>

Init == stored = None /\ seen = {}

FirstUse(c) == /\ stored = None /\ c \in CP
               /\ stored' = c /\ seen' = seen \cup {c}
Advance(c, p) == /\ stored \in CP /\ c \in CP /\ p \in Proofs
                 /\ Verifies(stored, c, p)
                 /\ stored' = c /\ seen' = seen \cup {c}
Refuse == UNCHANGED vars

Next == (\E c \in CP : FirstUse(c)) \/ (\E c \in CP, p \in Proofs : Advance(c, p)) \/ Refuse
Spec == Init /\ [][Next]_vars

Inv == /\ stored \in CP \cup {None}
       /\ seen \subseteq CP
       /\ (stored = None => seen = {})
       /\ (stored \in CP => \A c \in seen : Prefix(c, stored))

THEOREM Safety == Spec => []Inv
<1>1. Init => Inv
  BY NoneNotCP DEF Init, Inv
<1>2. Inv /\ [Next]_vars => Inv'
  <2> SUFFICES ASSUME Inv, [Next]_vars PROVE Inv'
    OBVIOUS
  <2>1. ASSUME NEW c \in CP, FirstUse(c) PROVE Inv'
    BY <2>1, PrefixRefl, NoneNotCP DEF FirstUse, Inv
  <2>2. ASSUME NEW c \in CP, NEW p \in Proofs, Advance(c, p) PROVE Inv'
    <3>1. Prefix(stored, c)
      BY <2>2, Sound DEF Advance
    <3>2. \A d \in seen : Prefix(d, c)
      BY <3>1, <2>2, PrefixTrans DEF Advance, Inv
    <3> QED
      BY <3>1, <3>2, <2>2, PrefixRefl, NoneNotCP DEF Advance, Inv
  <2>3. CASE UNCHANGED vars
    BY <2>3 DEF vars, Inv
  <2> QED
    BY <2>1, <2>2, <2>3 DEF Next, Refuse
<1> QED
  BY <1>1, <1>2, PTL DEF Spec
=============================================================================
