----------------------------- MODULE Trace_Omni -----------------------------
(***************************************************************************)
(* Judge for C14: what the running omniwitness (omniwitness.Main over real *)
(* HTTP, real feeders, stub log servers) served after each event of a      *)
(* TLC-generated growth / fork / restart schedule.  Polls are the system's *)
(* own silent steps: an observation is taken after the harness has waited  *)
(* for convergence (deadline 100 poll intervals) or, for a forked log,     *)
(* watched for 8 intervals.                                                *)
(***************************************************************************)
EXTENDS OmniRun, Integers

CONSTANT TraceFile
Trace == ndJsonDeserialize(TraceFile)
VARIABLE i
tvars == <<rvars, i>>
Ev == Trace[i]

TInit == RInit /\ i = 1
Start == Ev.e = "omni.start" /\ published' = [l \in Logs |-> [b |-> 0, n |-> Ev.n]] /\ stored' = [l \in Logs |-> None] /\ down' = {}
         /\ UNCHANGED <<nev, evs>> /\ i' = i + 1
EvStep == /\ Ev.e = "omni.ev"
          /\ published' = IF Ev.a \in {"grow", "fork"} THEN [published EXCEPT ![Ev.l] = [b |-> Ev.b, n |-> Ev.n]] ELSE published
          /\ down' = IF Ev.a = "outage" THEN down \cup {Ev.l} ELSE IF Ev.a = "recover" THEN down \ {Ev.l} ELSE down
          /\ UNCHANGED <<stored, nev, evs>> /\ i' = i + 1
Obs == /\ Ev.e = "omni.obs"
       /\ stored' = [stored EXCEPT ![Ev.l] = Ev.served]
       /\ UNCHANGED <<published, nev, evs, down>> /\ i' = i + 1
\* a PUT received by the stub distributor from the service's REST distributor (state is not touched)
PutEv == Ev.e = "omni.put" /\ UNCHANGED rvars /\ i' = i + 1
TNext == i <= Len(Trace) /\ (Start \/ EvStep \/ Obs \/ PutEv)
TSpec == TInit /\ [][TNext]_tvars

Check(name, sig, ok) == ok \/ PrintT("FAIL " \o ToJson([id |-> "C14", name |-> name, i |-> i, run |-> Ev.run, k |-> Ev.k, sig |-> sig]))

MonObs ==
    LET l == Ev.l
        st == stored[l]
        p == published[l]
        pcp == AsCP(p.b, p.n)
        follows == l \notin down /\ (st = None \/ Extends(st, pcp) \/ SameTree(st, pcp))
    IN
    /\ Check("StaysOnWitnessedHistory", "-", st # None => Ev.served # None /\ Ev.served.b # 99 /\ (Extends(st, Ev.served) \/ SameTree(st, Ev.served)))
    /\ Check("ServedIsCosigned", "-", Ev.cosigned)
    /\ Check("CatchesUpWithHonestLog", IF st # None /\ st.n = 0 /\ p.n > 0 THEN "zero-size-wedge" ELSE "-",
             follows => Ev.served # None /\ SameTree(Ev.served, pcp))
    /\ Check("StopsAtFork", "-", l \notin down /\ ~follows => Ev.served = st)
    /\ Check("KeepsServingDuringOutage", "-", l \in down => Ev.served = st)
MonEv == Check("MainStopsCleanly", "-", Ev.mainerr = "")
\* what the service pushes to the distributor is a cosigned checkpoint of that log on the witnessed history
\* (it was read from the witness a moment ago, so it is a prefix of - or equal to - what was observed last or is observed next)
MonPut ==
    /\ Check("DistributedToTheRightPath", "-", Ev.l \in Logs)
    /\ Check("DistributedIsCosigned", "-", Ev.cosigned /\ Ev.served.b # 99)
    /\ Check("DistributedIsOnWitnessedHistory", "-",
             Ev.l \in Logs /\ Ev.served.b # 99 =>
                 LET st == stored[Ev.l]
                     pcp == AsCP(published[Ev.l].b, published[Ev.l].n)
                 IN (st # None /\ (Extends(Ev.served, st) \/ SameTree(Ev.served, st) \/ Extends(st, Ev.served)))
                    \/ (st = None /\ (Extends(Ev.served, pcp) \/ SameTree(Ev.served, pcp))))
Monitor == CASE Ev.e = "omni.obs" -> MonObs [] Ev.e = "omni.ev" -> MonEv [] Ev.e = "omni.put" -> MonPut [] OTHER -> TRUE
Done == TLCGet("stats").diameter - 1 = Len(Trace)
=============================================================================
