----------------------------- MODULE Trace_Crash -----------------------------
(***************************************************************************)
(* Judge for C06.  A child process performs a history of updates on a      *)
(* file-backed SQLite store and is SIGKILLed at a driver-operation         *)
(* boundary (or at a random instant); the acknowledgements it managed to   *)
(* write to a pipe, the kill point, and what a fresh process finds after   *)
(* reopening the file are the trace.  cur = what the acknowledgements say  *)
(* the witness holds; infl = the update that was in flight.                *)
(***************************************************************************)
EXTENDS WitnessCore, Json

CONSTANT TraceFile
Trace == ndJsonDeserialize(TraceFile)
VARIABLES i, cur, infl
tvars == <<i, cur, infl>>
Ev == Trace[i]
NoInfl == [none |-> TRUE]

Init == i = 1 /\ cur = [l \in Logs |-> None] /\ infl = NoInfl

Reset == Ev.e = "reset" /\ cur' = [l \in Logs |-> None] /\ infl' = NoInfl /\ i' = i + 1

Upd == /\ Ev.e = "upd"
       /\ IF Ev.acked
          THEN /\ cur' = IF Ev.v = "Accept" THEN [cur EXCEPT ![Ev.log] = Ev.retcp] ELSE cur
               /\ infl' = NoInfl
          ELSE /\ cur' = cur
               /\ infl' = [log |-> Ev.log, req |-> Ev.req]
       /\ i' = i + 1

CrashEv == Ev.e = "crash" /\ UNCHANGED <<cur, infl>> /\ i' = i + 1
Recover == Ev.e = "recover" /\ UNCHANGED <<cur, infl>> /\ i' = i + 1

Next == i <= Len(Trace) /\ (Reset \/ Upd \/ CrashEv \/ Recover)
Spec == Init /\ [][Next]_tvars

-----------------------------------------------------------------------------
\* the value the interrupted update was writing (the old one if it would have been refused)
Written(l) ==
    IF infl # NoInfl /\ infl.log = l /\ Decide(TRUE, cur[l], infl.req).v = "Accept"
    THEN Signed(infl.req) ELSE cur[l]

ForgedReq == [auth |-> "good", old |-> 0, b |-> 1, n |-> 2, extra |-> 0, stale |-> 0, ext |-> 0, pf |-> Empty]

Say(name, sig) == PrintT("FAIL " \o ToJson([id |-> "C06", name |-> name, i |-> i, run |-> Ev.run, k |-> 0, sig |-> sig]))
Check(name, ok) == ok \/ Say(name, "-")

MonRecover ==
    /\ Check("OldOrNew", \A l \in Logs : Ev.stored[l] = cur[l] \/ Ev.stored[l] = Written(l))
    /\ Check("AcknowledgedInForce",
             \A l \in Logs : cur[l] # None =>
                 Ev.stored[l] # None /\ Ev.stored[l].b # 99 /\ (Extends(cur[l], Ev.stored[l]) \/ SameTree(cur[l], Ev.stored[l])))
    /\ Check("CompleteAndCosigned", Ev.complete)
    \* the restarted witness refuses what is inconsistent with the recovered (hence the acknowledged) state
    /\ Check("RefusesForgedFirstUse", Ev.stored["l1"] # None => Ev.forged # "Accept")
    /\ Check("HonestAfterRestart", Ev.honest \in {"Accept", "skipped"} \/ (Ev.stored["l1"] # None /\ Ev.stored["l1"].n = 0))
    /\ Check("AfterProbesConsistent",
             \A l \in Logs : Ev.stored[l] # None => Ev.after[l] # None /\ (Extends(Ev.stored[l], Ev.after[l]) \/ SameTree(Ev.stored[l], Ev.after[l])))

\* acknowledgements themselves are those of the atomic machine (drift, not a verdict)
MonUpd ==
    Ev.acked => (Ev.v = Decide(TRUE, cur[Ev.log], Ev.req).v
                 \/ PrintT("FAIL " \o ToJson([id |-> "DRIFT", name |-> "AckConforms", i |-> i, run |-> Ev.run, k |-> Ev.k, sig |-> "-"])))

Monitor == CASE Ev.e = "recover" -> MonRecover
             [] Ev.e = "upd"     -> MonUpd
             [] OTHER            -> TRUE

Done == TLCGet("stats").diameter - 1 = Len(Trace)
=============================================================================
