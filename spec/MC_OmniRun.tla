---- MODULE MC_OmniRun ----
EXTENDS OmniRun
Fork_1 == <<1>>
====
