---- MODULE MC_Ops ----
(* Scenario menu for the storage-operation families (C05, C06, C07); DESIGN.md Appendix B. *)
EXTENDS WitnessOps
Fork_1 == <<1>>      \* branch 1 shares one leaf with the main history

E == Empty
U(l, old, b, n, pf) == [kind |-> "update", log |-> l,
                        req |-> [auth |-> "good", old |-> old, b |-> b, n |-> n, extra |-> 0, stale |-> 0, ext |-> 0, pf |-> pf]]
R(l) == [kind |-> "read", log |-> l]
S1 == [b |-> 0, n |-> 1, lines |-> 1 + NWitKeys, ext |-> 0]
DbNone == [l \in Logs |-> None]
DbS1   == [l \in Logs |-> S1]

Tofu1   == U("l1", 0, 0, 1, E)
Tofu2   == U("l1", 0, 0, 2, E)
Tofu2F  == U("l1", 0, 1, 2, E)
G12     == U("l1", 1, 0, 2, Right(0, 1, 2))
G12F    == U("l1", 1, 1, 2, Right(1, 1, 2))
G13     == U("l1", 1, 0, 3, Right(0, 1, 3))
G23     == U("l1", 2, 0, 3, Right(0, 2, 3))
Ref1    == U("l1", 1, 0, 1, E)
Stale   == U("l1", 0, 0, 2, Right(0, 1, 2))
BadPf   == U("l1", 1, 0, 2, Bad("flip"))
G12L2   == U("l2", 1, 0, 2, Right(0, 1, 2))
Tofu1L2 == U("l2", 0, 0, 1, E)

\* two processes, from an empty witness
Sc_TofuSame   == << <<Tofu1>>, <<Tofu1>> >>
Sc_TofuFork   == << <<Tofu2>>, <<Tofu2F>> >>
Sc_TofuSizes  == << <<Tofu1>>, <<Tofu2>> >>
Sc_TofuLogs   == << <<Tofu1>>, <<Tofu1L2>> >>
Sc_TofuRead   == << <<Tofu1>>, <<R("l1"), R("l1")>> >>
\* two processes, witness holds S1
Sc_GrowSame   == << <<G12>>, <<G12>> >>
Sc_GrowFork   == << <<G12>>, <<G12F>> >>
Sc_GrowSizes  == << <<G12>>, <<G13>> >>
Sc_GrowRefresh== << <<G12>>, <<Ref1>> >>
Sc_RefRef     == << <<Ref1>>, <<Ref1>> >>
Sc_GrowStale  == << <<G12>>, <<Stale>> >>
Sc_GrowBad    == << <<G12>>, <<BadPf>> >>
Sc_GrowLogs   == << <<G12>>, <<G12L2>> >>
Sc_GrowRead   == << <<G12, G23>>, <<R("l1"), R("l1")>> >>
Sc_Chain      == << <<G12>>, <<G23>> >>
\* three processes
Sc3_TofuForkRead == << <<Tofu2>>, <<Tofu2F>>, <<R("l1")>> >>
Sc3_TofuTofuTofu == << <<Tofu1>>, <<Tofu2>>, <<Tofu2F>> >>
Sc3_GrowForkRead == << <<G12>>, <<G12F>>, <<R("l1"), R("l1")>> >>
Sc3_GrowGrowGrow == << <<G12>>, <<G12F>>, <<G13>> >>
Sc3_GrowRefRead  == << <<G12>>, <<Ref1>>, <<R("l1")>> >>
\* four processes
Sc4_Tofu4        == << <<Tofu1>>, <<Tofu2>>, <<Tofu2F>>, <<Tofu1>> >>
Sc4_Grow4        == << <<G12>>, <<G12F>>, <<G13>>, <<Ref1>> >>
Sc4_GrowReaders  == << <<G12>>, <<G12F>>, <<R("l1")>>, <<R("l1")>> >>
\* single process histories (C06 crash points, C07 fault placements)
H_Tofu        == << <<Tofu1>> >>
H_TofuGrow    == << <<Tofu1, G12>> >>
H_TofuRefresh == << <<Tofu1, Ref1>> >>
H_TofuForkGrow== << <<Tofu1, G12F, G12, G23>> >>
H_TofuBadGrow == << <<Tofu1, BadPf, Stale, G12>> >>
Tofu0   == U("l1", 0, 0, 0, E)
Ref0    == U("l1", 0, 0, 0, E)
H_ZeroRefresh == << <<Tofu0, Ref0, Ref0>> >>
H_TofuReadGrow== << <<Tofu1, R("l1"), G12, R("l1")>> >>
H_Grow        == << <<G12>> >>
H_GrowGrow    == << <<G12, G23>> >>
====
