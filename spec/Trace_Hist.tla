----------------------------- MODULE Trace_Hist -----------------------------
(***************************************************************************)
(* Judge of CONCURRENT invocation/response histories for the properties    *)
(* that do not depend on how the calls are linearized (Trace_Lin decides    *)
(* that for C05):                                                           *)
(*                                                                         *)
(*  C01  whatever the interleaving, everything the witness handed out as    *)
(*       accepted for a log (and what it held at the start and holds at     *)
(*       the end) lies on ONE append-only history;                          *)
(*  C03  a call that was refused (also one that lost a race in the store)  *)
(*       leaves nothing behind: what is held at the end is what was held   *)
(*       at the start or what some ACCEPTED call returned;                  *)
(*  C20  the operational counters, read after the run (the production       *)
(*       binary's /metrics endpoint), count exactly the responses seen.     *)
(*                                                                         *)
(* The trace is consumed deterministically, one event per step; monitors    *)
(* are never fatal: a failure is printed and the trace goes on.             *)
(***************************************************************************)
EXTENDS WitnessCore, Json

CONSTANTS TraceFile, Procs
Trace == ndJsonDeserialize(TraceFile)

VARIABLES i,        \* cursor
          lastop,   \* the operation each process has invoked last
          accd,     \* per log: every checkpoint seen as accepted in this run, plus what was held at the start
          cnt       \* per log: what the counters must read
hvars == <<i, lastop, accd, cnt>>
Ev == Trace[i]
NoOp == [kind |-> "none"]
ZeroCnt == [l \in Logs |-> [attempt |-> 0, success |-> 0, badproof |-> 0, inconsistent |-> 0]]

Init == i = 1 /\ lastop = [p \in Procs |-> NoOp] /\ accd = [l \in Logs |-> {}] /\ cnt = ZeroCnt

Bump(c, v) == [attempt      |-> c.attempt + 1,
               success      |-> c.success + (IF v = "Accept" THEN 1 ELSE 0),
               badproof     |-> c.badproof + (IF v = "InvalidProof" THEN 1 ELSE 0),
               inconsistent |-> c.inconsistent + (IF v = "RootMismatch" THEN 1 ELSE 0)]

IsUpdateRet == Ev.e = "ret" /\ lastop[Ev.p].kind = "update"

Next ==
    /\ i <= Len(Trace) /\ i' = i + 1
    /\ CASE Ev.e = "reset" ->
              /\ lastop' = [p \in Procs |-> NoOp] /\ cnt' = ZeroCnt
              /\ accd' = [l \in Logs |-> IF Ev.db0[l] = None THEN {} ELSE {Ev.db0[l]}]
         [] Ev.e = "inv" ->
              lastop' = [lastop EXCEPT ![Ev.p] = Ev.op] /\ UNCHANGED <<accd, cnt>>
         [] IsUpdateRet ->
              LET l == lastop[Ev.p].log IN
              /\ accd' = IF Ev.v = "Accept" THEN [accd EXCEPT ![l] = @ \cup {Ev.val}] ELSE accd
              /\ cnt' = IF Ev.v = "UnknownLog" THEN cnt ELSE [cnt EXCEPT ![l] = Bump(@, Ev.v)]
              /\ UNCHANGED lastop
         [] OTHER -> UNCHANGED <<lastop, accd, cnt>>
Spec == Init /\ [][Next]_hvars

-----------------------------------------------------------------------------
OneHistory(a, b) == SameTree(a, b) \/ Extends(a, b) \/ Extends(b, a)

Say(id, name) == PrintT("FAIL " \o ToJson([id |-> id, name |-> name, i |-> i, run |-> Ev.run, k |-> 0, sig |-> "-"]))
Check(id, name, ok) == ok \/ Say(id, name)

Monitor ==
    CASE IsUpdateRet /\ Ev.v = "Accept" ->
            Check("C01", "CosignedSetIsOneHistory", \A a \in accd[lastop[Ev.p].log] : OneHistory(a, Ev.val))
      [] Ev.e = "final" ->
            \* C12: what a log holds is a checkpoint that was accepted FOR THAT LOG (a checkpoint of another log projects to nothing this log accepted)
            /\ Check("C12", "NothingFiledUnderAnotherLog",
                     \A l \in Logs : IF Ev.stored[l] = None THEN accd[l] = {} ELSE Ev.stored[l] \in accd[l])
            /\ Check("C03", "RefusedOverlappingCallLeavesNothing",
                     \A l \in Logs : IF Ev.stored[l] = None THEN accd[l] = {} ELSE Ev.stored[l] \in accd[l])
            \* what is held at the end is something that was handed out (or held at the start), and is the LARGEST of them
            /\ Check("C01", "HeldIsTheLatestCosigned",
                  \A l \in Logs : /\ (Ev.stored[l] = None) = (accd[l] = {})
                                  /\ Ev.stored[l] # None => /\ Ev.stored[l] \in accd[l]
                                                            /\ \A a \in accd[l] : SameTree(a, Ev.stored[l]) \/ Extends(a, Ev.stored[l]))
      [] Ev.e = "metrics" ->
            Check("C20", "CountersTrueOnMetricsEndpoint", \A l \in Logs : Ev.ctr[l] = cnt[l])
      [] OTHER -> TRUE

Done == TLCGet("stats").diameter - 1 = Len(Trace)
=============================================================================
