---- MODULE MC_Feeder ----
EXTENDS Feeder
Fork_1 == <<1>>
Fork_2 == <<2>>
====
