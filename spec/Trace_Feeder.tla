---------------------------- MODULE Trace_Feeder ----------------------------
(***************************************************************************)
(* Judge for C13: the calls the real feeder.FeedOnce made on its witness   *)
(* and on the log (recorded by stubs in front of the real witness), for    *)
(* scenarios and failure patterns enumerated by TLC from Feeder.tla.       *)
(***************************************************************************)
EXTENDS WitnessCore, Json, Integers

CONSTANT TraceFile
Trace == ndJsonDeserialize(TraceFile)
VARIABLES i, sc, lat, lastpf, lastupd
tvars == <<i, sc, lat, lastpf, lastupd>>
Ev == Trace[i]
Unset == [unset |-> TRUE]

Init == i = 1 /\ sc = Unset /\ lat = Unset /\ lastpf = Unset /\ lastupd = Unset

Start == Ev.e = "feed.start" /\ sc' = [w0 |-> Ev.w0, sub |-> Ev.sub, out |-> Ev.out]
         /\ lat' = Unset /\ lastpf' = Unset /\ lastupd' = Unset /\ i' = i + 1
Call ==
    /\ Ev.e = "feed.call"
    /\ lat' = IF Ev.c = "getlatest" THEN (IF Ev.res = "ok" THEN [n |-> Ev.n, same |-> Ev.same] ELSE IF Ev.res = "none" THEN None ELSE Unset) ELSE lat
    /\ lastpf' = IF Ev.c = "getlatest" THEN Unset
                 ELSE IF Ev.c = "fetchproof" /\ Ev.res = "ok" THEN [from |-> Ev.from, to |-> Ev.to] ELSE lastpf
    /\ lastupd' = IF Ev.c = "update" THEN [res |-> Ev.res] ELSE lastupd
    /\ sc' = sc /\ i' = i + 1
Result == Ev.e = "feed.result" /\ UNCHANGED <<sc, lat, lastpf, lastupd>> /\ i' = i + 1
Next == i <= Len(Trace) /\ (Start \/ Call \/ Result)
Spec == Init /\ [][Next]_tvars

Check(name, ok) == ok \/ PrintT("FAIL " \o ToJson([id |-> "C13", name |-> name, i |-> i, run |-> Ev.run, k |-> Ev.k, sig |-> "-"]))

Old == IF lat = None THEN 0 ELSE lat.n
MonCall ==
    /\ (Ev.c \in {"getlatest", "fetchproof", "update"} =>
          Check("OnlyVerifiedCheckpoints", sc.sub.auth = "good"))
    /\ (Ev.c = "fetchproof" =>
          Check("ProofFromLatestToSubmitted", lat # Unset /\ Ev.from = Old /\ Ev.to = sc.sub.n /\ Ev.toissub
                                              /\ (lat # None => Ev.fromislatest)))
    /\ (Ev.c = "update" =>
          /\ Check("SubmitsTheVerifiedCheckpoint", Ev.cpsub)
          /\ Check("OldSizeIsLatestOfThisAttempt", lat # Unset /\ Ev.old = Old)
          \* (the remaining two need what the witness reported in this attempt; without a report the line above has already failed)
          /\ (lat # Unset =>
                /\ Check("NeverWhenWitnessIsAhead", ~(lat # None /\ lat.n > sc.sub.n))
                /\ Check("ProofIsTheOneJustFetched",
                         IF lat # None /\ lat.n = sc.sub.n /\ lat.same THEN Ev.pf = "empty"
                         ELSE Ev.pf = "fetched" /\ lastpf # Unset /\ lastpf.from = Old /\ lastpf.to = sc.sub.n)))

MonResult ==
    /\ Check("Terminates", ~Ev.hang)
    /\ Check("ReturnsWhatTheWitnessReturned", Ev.ok => Ev.retisupd /\ lastupd # Unset /\ lastupd.res = "accept")
    /\ Check("OutcomeAsModel", sc.out.why # "ctx" => Ev.ok = sc.out.ok)
    \* the context is only looked at between attempts: the attempt in progress may finish (and even succeed),
    \* but at most one attempt (get-latest, fetch-proof, update) runs after it ended, and the cycle returns
    /\ Check("StopsWhenContextEnds", sc.out.why = "ctx" => Ev.aftercancel <= 3 /\ (~Ev.ok => Ev.ctxerr))

Monitor == CASE Ev.e = "feed.call" -> MonCall
             [] Ev.e = "feed.result" -> MonResult
             [] OTHER -> TRUE
Done == TLCGet("stats").diameter - 1 = Len(Trace)
=============================================================================
