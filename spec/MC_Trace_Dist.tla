---- MODULE MC_Trace_Dist ----
EXTENDS Trace_Dist
====
