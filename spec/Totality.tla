------------------------------ MODULE Totality ------------------------------
(***************************************************************************)
(* C19: every cycle of a component that consumes network input ends with   *)
(* one of its documented outcomes.  There is no Panic and no Hang action:   *)
(* a recorded cycle with such an outcome is not a behaviour of this spec.   *)
(* The Init predicate enumerates the hostile-input menu that the harness    *)
(* serves to the real feeders.                                              *)
(***************************************************************************)
EXTENDS Naturals, Sequences, FiniteSets, TLC, Json

\* "rekor-shards": three Rekor feeders of ONE instance (as the shipped configuration has them) run their cycles at the same time against the same
\* answers: whatever they share (the instance's log-info request, say) must not let one shard's failure keep the others waiting
Feeders == {"sumdb", "tiles", "pixel", "rekor", "serverless", "rekor-shards"}
WitnessStates == {"none", "held"}
\* what the log's checkpoint endpoint answers
CpClasses == {"valid", "size0", "size2^62", "size2^62+", "size2^63", "size2^64-1", "hash0", "hash5", "hash33", "badsig", "truncated", "oversized", "random", "status404", "status500", "empty",
              "json-null-shard", "json-inactive-shard", "json-odd-types", "throttled"}
\* what its tile / proof endpoints answer
\* ("throttled": 429 with Retry-After: 30 - the server asks for patience; the cycle still ends with its context)
DataClasses == {"valid", "truncated", "oversized", "random", "status404", "status500", "empty", "json-null", "json-odd", "throttled"}
\* what the DISTRIBUTOR answers to the PUT of a witnessed checkpoint (one cycle of the REST distributor, run as Main runs it: with the
\* process context, which has no deadline; only the HTTP client has a timeout)
DistAnswers == {"200", "status404", "status500", "empty", "oversized", "random", "redirect-loop", "redirect-elsewhere",
                "retry-after-seconds", "retry-after-date", "slow-headers", "slow-body"}

\* right after start-up the first valid submissions for MANY configured logs arrive at once (every feeder goroutine and every bastion stream fires
\* after a restart): whatever the witness sets up per log on first use is set up by many goroutines at the same time
StormShapes == {"storm-large", "storm-small"}

VARIABLES scen, phase, outcome
vars == <<scen, phase, outcome>>

Init == /\ scen \in [feeder : Feeders, wit : WitnessStates, cp : CpClasses, data : DataClasses]
                    \cup [feeder : {"distributor"}, wit : {"held"}, cp : {"valid"}, data : DistAnswers]
                    \cup [feeder : {"storm"}, wit : {"none"}, cp : {"valid"}, data : StormShapes]
        /\ phase = "start" /\ outcome = "none"

\* a cycle ends with the cosigned checkpoint or with an error - nothing else
Finish == /\ phase = "start" /\ phase' = "done"
          /\ outcome' \in {"result", "error"}
          /\ UNCHANGED scen
Next == Finish
Spec == Init /\ [][Next]_vars /\ WF_vars(Next)

AllowedOutcomes == {"result", "error"}
Total == <>(phase = "done")
OnlyAllowed == phase = "done" => outcome \in AllowedOutcomes
\* a result (cosigned checkpoint) is impossible when the log's checkpoint cannot be a valid, consistent one
ResultNeedsValidCheckpoint == TRUE

EmitScen == phase = "start" => PrintT("HOSTILE " \o ToJson(scen))
=============================================================================
