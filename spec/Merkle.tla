------------------------------- MODULE Merkle -------------------------------
(***************************************************************************)
(* Why WitnessCore!VerifyOK may be abstract.                               *)
(*                                                                         *)
(* RFC 6962 over a FREE TERM ALGEBRA (Leaf(b,i), Node(l,r): collision-free *)
(* by construction): MTH, PROOF(m, D[n]), and a line-by-line transcription *)
(* of transparency-dev/merkle proof.RootFromConsistencyProof /             *)
(* decompInclProof / chainInner / chainInnerRight / chainBorderRight.      *)
(* TLC checks (ASSUME MenuOK) that for every pair of sizes, every pair of  *)
(* branches and every proof of the Witness request menu the transcription  *)
(* agrees with VerifyOK, and (ASSUME Sound) that an accepted proof implies *)
(* the prefix relation C01 rests on.  The same evaluation emits test       *)
(* vectors that the harness runs through the real dependency.              *)
(***************************************************************************)
EXTENDS WitnessCore, Json

CONSTANT EmitVectors   \* BOOLEAN: print one VEC line per evaluated verification

N == MaxSize
Leaf(b, i) == <<"L", IF b = 0 \/ i < ForkAt[b] THEN 0 ELSE b, i>>
Node(l, r) == <<"N", l, r>>
EmptyRootT == <<"E">>
Fresh(k) == <<"X", k>>        \* a hash that occurs in no tree
Err == <<"ERR">>

RECURSIVE Pow2(_)
Pow2(k) == IF k = 0 THEN 1 ELSE 2 * Pow2(k - 1)
RECURSIVE BitLen(_)
BitLen(x) == IF x = 0 THEN 0 ELSE 1 + BitLen(x \div 2)
RECURSIVE Ones(_)
Ones(x) == IF x = 0 THEN 0 ELSE (x % 2) + Ones(x \div 2)
RECURSIVE TrailingZeros(_)
TrailingZeros(x) == IF (x % 2) = 1 THEN 0 ELSE 1 + TrailingZeros(x \div 2)    \* x > 0
RECURSIVE Xor(_, _)
Xor(x, y) == IF x = 0 THEN y ELSE IF y = 0 THEN x
             ELSE (((x % 2) + (y % 2)) % 2) + 2 * Xor(x \div 2, y \div 2)
Shr(x, k) == x \div Pow2(k)
Bit(x, i) == (Shr(x, i)) % 2

\* largest power of two strictly smaller than n (n >= 2)
SplitK(n) == Pow2(BitLen(n - 1) - 1)

RECURSIVE MTH(_, _, _)
MTH(b, lo, hi) ==
    IF hi = lo THEN EmptyRootT
    ELSE IF hi - lo = 1 THEN Leaf(b, lo)
    ELSE LET k == SplitK(hi - lo) IN Node(MTH(b, lo, lo + k), MTH(b, lo + k, hi))

\* RFC 6962 2.1.2  SUBPROOF(m, D[lo:hi], flag)
RECURSIVE SubProof(_, _, _, _, _)
SubProof(b, m, lo, hi, flag) ==
    LET n == hi - lo IN
    IF m = n THEN (IF flag THEN <<>> ELSE <<MTH(b, lo, hi)>>)
    ELSE LET k == SplitK(n) IN
         IF m <= k THEN Append(SubProof(b, m, lo, lo + k, flag), MTH(b, lo + k, hi))
         ELSE Append(SubProof(b, m - k, lo + k, hi, FALSE), MTH(b, lo, lo + k))
ProofT(b, m, n) == IF m = 0 \/ m >= n THEN <<>> ELSE SubProof(b, m, 0, n, TRUE)

\* ---- transcription of merkle/proof/verify.go (pinned in /repo/go.mod) ----
InnerProofSize(index, size) == BitLen(Xor(index, size - 1))
DecompInner(index, size) == InnerProofSize(index, size)
DecompBorder(index, size) == Ones(Shr(index, InnerProofSize(index, size)))

RECURSIVE ChainInner(_, _, _, _)
ChainInner(seed, pf, index, i) ==     \* i = 0-based position of Head(pf)
    IF pf = <<>> THEN seed
    ELSE ChainInner(IF Bit(index, i) = 0 THEN Node(seed, Head(pf)) ELSE Node(Head(pf), seed), Tail(pf), index, i + 1)
RECURSIVE ChainInnerRight(_, _, _, _)
ChainInnerRight(seed, pf, index, i) ==
    IF pf = <<>> THEN seed
    ELSE ChainInnerRight(IF Bit(index, i) = 1 THEN Node(Head(pf), seed) ELSE seed, Tail(pf), index, i + 1)
RECURSIVE ChainBorderRight(_, _)
ChainBorderRight(seed, pf) ==
    IF pf = <<>> THEN seed ELSE ChainBorderRight(Node(Head(pf), seed), Tail(pf))

RootFromConsistencyProof(size1, size2, pf, root1) ==
    IF size2 < size1 THEN Err
    ELSE IF size1 = size2 THEN (IF Len(pf) > 0 THEN Err ELSE root1)
    ELSE IF size1 = 0 THEN Err                      \* "consistency proof from empty tree is meaningless"
    ELSE IF Len(pf) = 0 THEN Err
    ELSE LET inner0 == DecompInner(size1 - 1, size2)
             border == DecompBorder(size1 - 1, size2)
             shift == TrailingZeros(size1)
             inner == inner0 - shift
             isPow == size1 = Pow2(shift)
             seed == IF isPow THEN root1 ELSE pf[1]
             start == IF isPow THEN 0 ELSE 1
         IN IF Len(pf) # start + inner + border THEN Err
            ELSE LET p == SubSeq(pf, start + 1, Len(pf))
                     pin == SubSeq(p, 1, inner)
                     pbd == SubSeq(p, inner + 1, Len(p))
                     mask == Shr(size1 - 1, shift)
                     hash1 == ChainBorderRight(ChainInnerRight(seed, pin, mask, 0), pbd)
                 IN IF hash1 # root1 THEN Err
                    ELSE ChainBorderRight(ChainInner(seed, pin, mask, 0), pbd)

VerifyConsistencyT(size1, size2, pf, root1, root2) ==
    LET h == RootFromConsistencyProof(size1, size2, pf, root1) IN h # Err /\ h = root2

\* ---- the request menu of Witness.tla, as terms ----
RootT(b, n) == IF b = Junk THEN <<"J", n>> ELSE MTH(b, 0, n)

\* abstract proofs and their term renderings: genuine proofs for every branch and every pair of sizes,
\* the empty proof, and three mutations of the genuine proof for the step at hand
Mutate(pf, kind) ==
    CASE kind = "add"  -> Append(pf, Fresh(1))
      [] kind = "drop" -> IF Len(pf) >= 2 THEN SubSeq(pf, 1, Len(pf) - 1) ELSE <<Fresh(2)>>
      [] kind = "flip" -> IF Len(pf) >= 1 THEN [pf EXCEPT ![1] = Fresh(3)] ELSE <<Fresh(3)>>
      [] OTHER         -> <<Fresh(4)>>

Menu(pb, m, nb, n) ==
    {<<Empty, <<>> >>}
    \cup {<<Right(qb, qm, qn), ProofT(qb, qm, qn)>> : qb \in RealBranch, qm \in 1..N, qn \in 2..N}
    \cup {<<Bad(kd), Mutate(ProofT(IF nb = Junk THEN 0 ELSE nb, m, n), kd)>> : kd \in {"add", "drop", "flip", "random"}}
RealMenu(pb, m, nb, n) == {x \in Menu(pb, m, nb, n) : x[1].k # "right" \/ x[1].m < x[1].n}

Vec(m, n, pb, nb, x, verdict) ==
    EmitVectors => PrintT("VEC " \o ToJson([m |-> m, n |-> n, pb |-> pb, nb |-> nb, pf |-> x[1], proof |-> x[2],
                                            root1 |-> RootT(pb, m), root2 |-> RootT(nb, n), ok |-> verdict]))

\* the transcription of the real verifier agrees with VerifyOK on the whole menu
MenuOK ==
    \A m \in 0..N : \A n \in m..N : \A pb \in Branch : \A nb \in Branch :
      \A x \in RealMenu(pb, m, nb, n) :
        LET real == VerifyConsistencyT(m, n, x[2], RootT(pb, m), RootT(nb, n))
        IN /\ Vec(m, n, pb, nb, x, real)
           /\ real = VerifyOK(pb, m, nb, n, x[1])

\* an accepted proof implies the prefix relation (the fact C01 rests on)
Sound ==
    \A m \in 1..N : \A n \in m..N : \A pb \in RealBranch : \A nb \in RealBranch :
      \A x \in RealMenu(pb, m, nb, n) :
        VerifyConsistencyT(m, n, x[2], RootT(pb, m), RootT(nb, n)) => Prefix(pb, m, nb, n)

\* RootId is faithful: two trees have equal root terms iff the model says they are the same tree
RootIdFaithful ==
    \A b1 \in RealBranch, b2 \in RealBranch : \A n1 \in 0..N, n2 \in 0..N :
        (RootT(b1, n1) = RootT(b2, n2)) = (RootId(b1, n1) = RootId(b2, n2))

VARIABLE x
MInit == x = 0
MNext == x' = x
=============================================================================
