------------------------------ MODULE TilePath ------------------------------
(***************************************************************************)
(* The tlog tile addressing rule (golang.org/x/mod/sumdb/tlog Tile.Path):  *)
(*   tile/<H>/<L>/<N in base-1000 groups of three digits, all but the last *)
(*   prefixed with x>[.p/<W>]   (the .p suffix only for partial tiles)     *)
(* evaluated by TLC on the index set chosen in the configuration; the      *)
(* harness compares the requests of the real SumDB client with it and with *)
(* the reference implementation, and the reference server must parse them  *)
(* back to the same tile.                                                  *)
(***************************************************************************)
EXTENDS Naturals, Sequences, TLC, Json

CONSTANTS Height, Levels, Indices, Widths

Pad3(k) == IF k < 10 THEN "00" \o ToString(k) ELSE IF k < 100 THEN "0" \o ToString(k) ELSE ToString(k)
RECURSIVE XGroups(_)
XGroups(m) == IF m < 1000 THEN "x" \o Pad3(m) ELSE XGroups(m \div 1000) \o "/x" \o Pad3(m % 1000)
NPath(n) == IF n < 1000 THEN Pad3(n) ELSE XGroups(n \div 1000) \o "/" \o Pad3(n % 1000)
RECURSIVE Pow2(_)
Pow2(k) == IF k = 0 THEN 1 ELSE 2 * Pow2(k - 1)
TilePathOf(h, l, n, w) ==
    "tile/" \o ToString(h) \o "/" \o ToString(l) \o "/" \o NPath(n) \o (IF w = Pow2(h) THEN "" ELSE ".p/" \o ToString(w))

\* sanity of the rule itself: a path has one group per base-1000 digit, and different tiles have different paths
RECURSIVE NGroups(_)
NGroups(n) == IF n < 1000 THEN 1 ELSE 1 + NGroups(n \div 1000)
Injective == \A a \in Indices, b \in Indices : a # b => NPath(a) # NPath(b)
GroupCount == \A a \in Indices : Len(NPath(a)) = 3 * NGroups(a) + 2 * (NGroups(a) - 1)

EmitPaths == \A l \in Levels, n \in Indices, w \in Widths :
                PrintT("TILE " \o ToJson([h |-> Height, l |-> l, n |-> n, w |-> w, path |-> TilePathOf(Height, l, n, w)]))
ASSUME Injective
ASSUME GroupCount
ASSUME EmitPaths
VARIABLE x
TInit == x = 0
TNext == x' = x
=============================================================================
