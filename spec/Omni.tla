-------------------------------- MODULE Omni --------------------------------
(***************************************************************************)
(* The assembled omniwitness (omniwitness.Main).                           *)
(*                                                                         *)
(* Part 1 - start-up: the embedded YAML is parsed, every entry becomes a   *)
(* log (key parsed into a verifier, id = ID(origin)), the witness map is   *)
(* built with a collision check, feeders are looked up by type and started *)
(* (each validates its URL), the HTTP server is started.  A defective      *)
(* configuration ends in StartFailed - never in a panic.                   *)
(*                                                                         *)
(* Part 2 - running: logs grow or fork, each feeder polls (one Feeder      *)
(* cycle against the atomic witness), the service may restart on durable   *)
(* or volatile storage, and the served checkpoint is observed over HTTP.   *)
(***************************************************************************)
EXTENDS Naturals, Sequences, FiniteSets, TLC, Json

CONSTANTS MaxEntries,   \* configurations of 1..MaxEntries entries are enumerated
          Origins,      \* origin names (fewer origins than entries => duplicates occur)
          SchemePanics  \* named deviation: the serverless feeder panics on an unsupported URL scheme instead of failing

-----------------------------------------------------------------------------
\* Part 1: start-up
\* "stalehash": a key string whose name and key-hash field are those of ANOTHER entry's key while its key bytes are different
\* (config.NewLog / AsLogMap must decode and check every entry's key for itself)
KeyClasses == {"ok", "bad", "stalehash"}
FeederClasses == {"sumdb", "tiles", "serverless", "pixel", "rekor", "none", "unknown"}
UrlClasses == {"ok", "malformed", "badscheme", "notreeid"}

VARIABLES Entries,    \* the configuration: sequence of entries [origin, key, feeder, url]   (never changes)
          sphase,     \* "logs" | "map" | "feeders" | "serving" | "failed" | "panicked"
          widx,       \* entry being processed
          witmap,     \* ids in the witness map
          feeders     \* ids with a started feeder
svars == <<Entries, sphase, widx, witmap, feeders>>
EntrySet == [origin : Origins, key : KeyClasses, feeder : FeederClasses, url : UrlClasses]

Id(origin) == origin      \* ID is injective on origins: equal ids <=> equal origins

SInit == /\ Entries \in UNION {[1..k -> EntrySet] : k \in 1..MaxEntries}
         /\ sphase = "logs" /\ widx = 1 /\ witmap = {} /\ feeders = {}

\* config.NewLog for every entry (public key must parse; feeder type must be known to the YAML decoder)
NewLog ==
    /\ sphase = "logs"
    /\ IF widx > Len(Entries) THEN sphase' = "map" /\ widx' = 1
       ELSE IF Entries[widx].key \in {"bad", "stalehash"} \/ Entries[widx].feeder = "unknown" THEN sphase' = "failed" /\ widx' = widx
       ELSE sphase' = "logs" /\ widx' = widx + 1
    /\ UNCHANGED <<witmap, feeders>>

\* LogConfig.AsLogMap: colliding ids are refused
AsLogMap ==
    /\ sphase = "map"
    /\ IF widx > Len(Entries) THEN sphase' = "feeders" /\ widx' = 1 /\ witmap' = witmap
       ELSE IF Id(Entries[widx].origin) \in witmap THEN sphase' = "failed" /\ UNCHANGED <<widx, witmap>>
       ELSE sphase' = "map" /\ widx' = widx + 1 /\ witmap' = witmap \cup {Id(Entries[widx].origin)}
    /\ UNCHANGED feeders

\* feeders validate their URL when started (rekor needs treeID; serverless only http/https/file)
UrlOK(e) == CASE e.feeder = "rekor" -> e.url = "ok"
              [] e.feeder = "serverless" -> e.url \in {"ok", "notreeid"}
              [] e.feeder \in {"tiles", "pixel"} -> e.url \in {"ok", "notreeid", "badscheme"}
              [] OTHER -> TRUE
StartFeeder ==
    /\ sphase = "feeders"
    /\ IF widx > Len(Entries) THEN sphase' = "serving" /\ UNCHANGED <<widx, feeders>>
       ELSE IF Entries[widx].feeder = "none" THEN sphase' = "feeders" /\ widx' = widx + 1 /\ feeders' = feeders
       ELSE IF SchemePanics /\ Entries[widx].feeder = "serverless" /\ Entries[widx].url = "badscheme" THEN sphase' = "panicked" /\ UNCHANGED <<widx, feeders>>
       ELSE IF ~UrlOK(Entries[widx]) THEN sphase' = "failed" /\ UNCHANGED <<widx, feeders>>
       ELSE sphase' = "feeders" /\ widx' = widx + 1 /\ feeders' = feeders \cup {Id(Entries[widx].origin)}
    /\ UNCHANGED witmap

SNext == (NewLog \/ AsLogMap \/ StartFeeder) /\ UNCHANGED Entries
SSpec == SInit /\ [][SNext]_svars /\ WF_svars(SNext)

Coherent == /\ \A j \in 1..Len(Entries) : Entries[j].key = "ok" /\ Entries[j].feeder # "unknown" /\ UrlOK(Entries[j])
            /\ \A j, k \in 1..Len(Entries) : j # k => Entries[j].origin # Entries[k].origin
\* C17 / C12 on the model
StartsIffCoherent == <>(sphase \in {"serving", "failed", "panicked"}) /\ [](sphase = "serving" => Coherent) /\ [](sphase \in {"failed", "panicked"} => ~Coherent)
CoherentStarts == Coherent => <>(sphase = "serving")
EmitStart == sphase \in {"serving", "failed", "panicked"} => PrintT("START " \o ToJson([entries |-> Entries, outcome |-> sphase]))
MapAndFeedersAgree ==
    sphase = "serving" => /\ witmap = {Id(Entries[j].origin) : j \in 1..Len(Entries)}
                          /\ feeders = {Id(Entries[j].origin) : j \in {k \in 1..Len(Entries) : Entries[k].feeder # "none"}}
                          /\ feeders \subseteq witmap
=============================================================================
