---- MODULE MC_Trace_Feeder ----
EXTENDS Trace_Feeder
Fork_1 == <<1>>
====
