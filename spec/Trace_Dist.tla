----------------------------- MODULE Trace_Dist -----------------------------
(* Judge for C15: requests a stub distributor received from the real DistributeOnce, and its result. *)
EXTENDS Distributor, Integers

CONSTANT TraceFile
Trace == ndJsonDeserialize(TraceFile)
VARIABLES i, sw, sd, seenput, retried
tvars == <<i, sw, sd, seenput, retried>>
Ev == Trace[i]
SeqToSet(s) == {s[j] : j \in DOMAIN s}

\* the model's own variables are not used by the judge (the scenario is read from the trace)
TInit == i = 1 /\ sw = <<>> /\ sd = <<>> /\ seenput = {} /\ retried = {}
         /\ wit = <<>> /\ dist = <<>> /\ pos = 0 /\ puts = {} /\ failed = {} /\ result = "trace"
Start == Ev.e = "dist.start" /\ sw' = Ev.wit /\ sd' = Ev.dist /\ seenput' = {} /\ retried' = {} /\ i' = i + 1
Put == Ev.e = "dist.put" /\ seenput' = seenput \cup {Ev.log} /\ retried' = (IF Ev.log \in seenput THEN retried \cup {Ev.log} ELSE retried)
       /\ UNCHANGED <<sw, sd>> /\ i' = i + 1
Res == Ev.e = "dist.result" /\ UNCHANGED <<sw, sd, seenput, retried>> /\ i' = i + 1
\* one run of the distributor INSIDE omniwitness.Main (rounds at the distribute interval, slow / failing / fine answers per log)
InMain == Ev.e = "dist.main" /\ UNCHANGED <<sw, sd, seenput, retried>> /\ i' = i + 1
TNext == i <= Len(Trace) /\ (Start \/ Put \/ Res \/ InMain) /\ UNCHANGED vars
TSpec == TInit /\ [][TNext]_<<tvars, vars>>

Check(name, ok) == ok \/ PrintT("FAIL " \o ToJson([id |-> "C15", name |-> name, i |-> i, run |-> Ev.run, k |-> Ev.k, sig |-> "-"]))
N == Len(sw)
MonPut ==
    /\ Check("OnlyVerifiedArePushed", Ev.log \in 1..N /\ sw[Ev.log] = "valid")
    /\ Check("BytesAreTheWitnessAnswer", Ev.bodyisanswer)
    /\ Check("PathNamesLogIdAndWitness", Ev.pathok /\ Ev.method = "PUT")
    /\ Check("OncePerLog", Ev.log \notin seenput \/ (Ev.log \in 1..N /\ sd[Ev.log] \in Flaky \cup {"redirect307"}))
MonRes ==
    /\ Check("EveryLogAttempted", seenput = {l \in 1..N : sw[l] = "valid"})
    \* (a transient first answer: delivered exactly when the implementation came back with a second PUT, which the stub answers with 200)
    /\ Check("ErrorIffSomeLogFailed", Ev.err = (\E l \in 1..N : sw[l] # "valid" \/ ~(IF sd[l] \in Flaky THEN l \in retried ELSE Delivered(sd[l]))))
    /\ Check("WitnessAskedForEveryLog", SeqToSet(Ev.asked) = 1..N)
    /\ Check("Terminates", ~Ev.hang)
MonMain ==
    \* whatever the distributor answers for one log (slowly, with an error, fine), every log the witness holds a checkpoint for gets its PUT
    /\ Check("EveryLogAttemptedInsideMain", SeqToSet(Ev.attempted) = {l \in 1..Len(Ev.wit) : Ev.wit[l] = "valid"})
    /\ Check("OnlyTheWitnessBytesOnTheRightPathLeaveMain", Ev.foreign = 0)
    /\ Check("MainKeepsRunning", Ev.main = "ended")
Monitor == CASE Ev.e = "dist.put" -> MonPut [] Ev.e = "dist.result" -> MonRes [] Ev.e = "dist.main" -> MonMain [] OTHER -> TRUE
Done == TLCGet("stats").diameter - 1 = Len(Trace)
=============================================================================
