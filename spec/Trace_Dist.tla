----------------------------- MODULE Trace_Dist -----------------------------
(* Judge for C15: requests a stub distributor received from the real DistributeOnce, and its result. *)
EXTENDS Distributor, Integers

CONSTANT TraceFile
Trace == ndJsonDeserialize(TraceFile)
VARIABLES i, sw, sd, seenput
tvars == <<i, sw, sd, seenput>>
Ev == Trace[i]
SeqToSet(s) == {s[j] : j \in DOMAIN s}

\* the model's own variables are not used by the judge (the scenario is read from the trace)
TInit == i = 1 /\ sw = <<>> /\ sd = <<>> /\ seenput = {}
         /\ wit = <<>> /\ dist = <<>> /\ pos = 0 /\ puts = {} /\ failed = {} /\ result = "trace"
Start == Ev.e = "dist.start" /\ sw' = Ev.wit /\ sd' = Ev.dist /\ seenput' = {} /\ i' = i + 1
Put == Ev.e = "dist.put" /\ seenput' = seenput \cup {Ev.log} /\ UNCHANGED <<sw, sd>> /\ i' = i + 1
Res == Ev.e = "dist.result" /\ UNCHANGED <<sw, sd, seenput>> /\ i' = i + 1
TNext == i <= Len(Trace) /\ (Start \/ Put \/ Res) /\ UNCHANGED vars
TSpec == TInit /\ [][TNext]_<<tvars, vars>>

Check(name, ok) == ok \/ PrintT("FAIL " \o ToJson([id |-> "C15", name |-> name, i |-> i, run |-> Ev.run, k |-> Ev.k, sig |-> "-"]))
N == Len(sw)
MonPut ==
    /\ Check("OnlyVerifiedArePushed", Ev.log \in 1..N /\ sw[Ev.log] = "valid")
    /\ Check("BytesAreTheWitnessAnswer", Ev.bodyisanswer)
    /\ Check("PathNamesLogIdAndWitness", Ev.pathok /\ Ev.method = "PUT")
    /\ Check("OncePerLog", Ev.log \notin seenput \/ (Ev.log \in 1..N /\ sd[Ev.log] = "redirect307"))
MonRes ==
    /\ Check("EveryLogAttempted", seenput = {l \in 1..N : sw[l] = "valid"})
    /\ Check("ErrorIffSomeLogFailed", Ev.err = (\E l \in 1..N : sw[l] # "valid" \/ ~Delivered(sd[l])))
    /\ Check("WitnessAskedForEveryLog", SeqToSet(Ev.asked) = 1..N)
    /\ Check("Terminates", ~Ev.hang)
Monitor == CASE Ev.e = "dist.put" -> MonPut [] Ev.e = "dist.result" -> MonRes [] OTHER -> TRUE
Done == TLCGet("stats").diameter - 1 = Len(Trace)
=============================================================================
