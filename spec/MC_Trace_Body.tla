---- MODULE MC_Trace_Body ----
EXTENDS Trace_Body
Fork_2 == <<2>>
====
