---- MODULE MC_Witness ----
(* Model-checking instance of Witness: fork tables the .cfg files choose from. *)
EXTENDS Witness
Fork_2   == <<2>>        \* one fork sharing 2 leaves with main
Fork_1   == <<1>>
Fork_2_0 == <<2, 0>>     \* second fork shares nothing
Fork_3_1 == <<3, 1>>
Fork_8_3 == <<8, 3>>
====
