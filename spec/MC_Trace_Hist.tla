---- MODULE MC_Trace_Hist ----
EXTENDS Trace_Hist
Fork_1 == <<1>>
Fork_2 == <<2>>
====
