------------------------------- MODULE Feeder -------------------------------
(***************************************************************************)
(* One feed cycle (internal/feeder FeedOnce / submitToWitness) composed    *)
(* with the atomic witness: fetch the log's checkpoint, verify it, then    *)
(* loop { ask the witness for its latest; ahead => permanent error;        *)
(* same => re-submit with an empty proof; otherwise fetch the proof from   *)
(* exactly that latest to the submitted checkpoint and submit } with       *)
(* transient failures of the witness or the log leading back to the loop   *)
(* head (backoff) and the context ending the cycle.                        *)
(***************************************************************************)
EXTENDS WitnessCore, Json

CONSTANTS MaxFails,  \* budget of transient failures (get-latest, fetch-proof, update, fetch-checkpoint)
          WithCtx    \* the context may end at any point of the loop

VARIABLES W0,        \* scenario: what the witness holds initially: None or [b, n]   (never changes)
          Sub,       \* scenario: the checkpoint the log serves: [auth, b, n]         (never changes)
          pc, w, latest, pf, fails, hist, out
vars == <<W0, Sub, pc, w, latest, pf, fails, hist, out>>
scen == <<W0, Sub>>

\* (witness size, log size) squared x {same history, fork, junk root} x {verifiable, not verifiable}
WSet == {None} \cup {[b |-> b, n |-> n] : b \in RealBranch, n \in Size}
SubSet == {[auth |-> a, b |-> b, n |-> n] : a \in {"good", "bad"}, b \in Branch, n \in Size}

Unset == [unset |-> TRUE]
Lines == 1 + NWitKeys
AsCP(c) == [b |-> CanonB(c.b, c.n), n |-> c.n, lines |-> Lines, ext |-> 0]
\* the call history is an observation; it stops growing at HistCap so that the retry loop of a refused step is a finite cycle
HistCap == 14
H(a) == hist' = IF Len(hist) < HistCap THEN Append(hist, a) ELSE hist

Init == /\ W0 \in WSet /\ Sub \in SubSet
        /\ pc = "fetchcp" /\ w = (IF W0 = None THEN None ELSE AsCP(W0))
        /\ latest = Unset /\ pf = Unset /\ fails = 0 /\ hist = <<>> /\ out = Unset

CanFail == fails < MaxFails

FetchCP ==
    /\ pc = "fetchcp"
    /\ \/ /\ pc' = "verify" /\ H([c |-> "fetchcp", res |-> "ok"]) /\ UNCHANGED <<fails, out>>
       \/ /\ CanFail /\ fails' = fails + 1 /\ pc' = "done" /\ out' = [ok |-> FALSE, why |-> "fetch"]
          /\ H([c |-> "fetchcp", res |-> "fail"])
    /\ UNCHANGED <<w, latest, pf>>

Verify ==
    /\ pc = "verify"
    /\ IF Sub.auth = "good" THEN pc' = "loop" /\ out' = out
       ELSE pc' = "done" /\ out' = [ok |-> FALSE, why |-> "verify"]
    /\ UNCHANGED <<w, latest, pf, fails, hist>>

\* loop head: every attempt starts by asking the witness
GetLatest ==
    /\ pc = "loop"
    /\ \/ /\ latest' = w /\ pf' = Unset
          /\ H([c |-> "getlatest", res |-> IF w = None THEN "none" ELSE "ok", n |-> IF w = None THEN 0 ELSE w.n])
          /\ pc' = IF w # None /\ w.n > Sub.n THEN "ahead"
                   ELSE IF w # None /\ SameTree(w, AsCP(Sub)) THEN "update" ELSE "proof"
          /\ UNCHANGED fails
       \/ /\ CanFail /\ fails' = fails + 1 /\ H([c |-> "getlatest", res |-> "fail", n |-> 0])
          /\ UNCHANGED <<latest, pf, pc>>
    /\ UNCHANGED <<w, out>>

Ahead == /\ pc = "ahead" /\ pc' = "done" /\ out' = [ok |-> FALSE, why |-> "ahead"]
         /\ UNCHANGED <<w, latest, pf, fails, hist>>

From == IF latest = None THEN 0 ELSE latest.n
FetchProof ==
    /\ pc = "proof"
    /\ \/ /\ pf' = IF From >= 1 /\ From < Sub.n /\ Sub.b # Junk THEN Right(Sub.b, From, Sub.n) ELSE Empty
          /\ H([c |-> "fetchproof", from |-> From, to |-> Sub.n, res |-> "ok"])
          /\ pc' = "update" /\ UNCHANGED fails
       \/ /\ CanFail /\ fails' = fails + 1 /\ H([c |-> "fetchproof", from |-> From, to |-> Sub.n, res |-> "fail"])
          /\ pc' = "loop" /\ UNCHANGED pf
    /\ UNCHANGED <<w, latest, out>>

Req == [auth |-> "good", old |-> From, b |-> Sub.b, n |-> Sub.n, extra |-> 0, stale |-> 0, ext |-> 0,
        pf |-> IF pf = Unset THEN Empty ELSE pf]
Update ==
    /\ pc = "update"
    /\ \/ LET d == Decide(TRUE, w, Req) IN
          /\ w' = IF d.write THEN d.new ELSE w
          /\ H([c |-> "update", old |-> From, pfk |-> Req.pf.k, res |-> IF d.v = "Accept" THEN "accept" ELSE "refuse", v |-> d.v])
          /\ IF d.v = "Accept" THEN pc' = "done" /\ out' = [ok |-> TRUE, why |-> "cosigned"]
             ELSE pc' = "loop" /\ out' = out      \* any error is retried with backoff
          /\ UNCHANGED fails
       \/ /\ CanFail /\ fails' = fails + 1 /\ H([c |-> "update", old |-> From, pfk |-> Req.pf.k, res |-> "fail", v |-> "transient"])
          /\ pc' = "loop" /\ UNCHANGED <<w, out>>
    /\ UNCHANGED <<latest, pf>>

CtxDone == /\ WithCtx /\ pc \in {"loop", "proof", "update"}
           /\ pc' = "done" /\ out' = [ok |-> FALSE, why |-> "ctx"]
           /\ UNCHANGED <<w, latest, pf, fails, hist>>

Next == (FetchCP \/ Verify \/ GetLatest \/ Ahead \/ FetchProof \/ Update \/ CtxDone) /\ UNCHANGED scen
Spec == Init /\ [][Next]_vars /\ WF_vars(Next)

-----------------------------------------------------------------------------
\* C13 on the model: whenever the feeder is about to submit, the step is justified
Justified ==
    pc = "update" =>
        /\ Sub.auth = "good"
        /\ latest # Unset
        /\ ~(latest # None /\ latest.n > Sub.n)                      \* never when the witness is ahead
        /\ (latest # None /\ SameTree(latest, AsCP(Sub)) => pf = Unset)   \* same checkpoint: no proof
        /\ (~(latest # None /\ SameTree(latest, AsCP(Sub))) => pf # Unset)
NothingSentUnverified == Sub.auth # "good" => hist = <<>> \/ \A j \in 1..Len(hist) : hist[j].c = "fetchcp"
\* what the cycle returns
ResultOK == pc = "done" /\ out.ok => w # None /\ SameTree(w, AsCP(Sub))
\* a refused step is retried for ever: the cycle ends only by success, a permanent condition or its context
Wedged == [w |-> w, latest |-> latest]   \* (documentation only)
\* honest step (log extends what the witness holds): once the failures stop the cycle ends in success
HonestStep == Sub.auth = "good" /\ (W0 = None \/ (Extends(AsCP(W0), AsCP(Sub)) /\ ~(ZeroWedge /\ W0.n = 0 /\ Sub.n > 0)))
\* (a failure to fetch the log's checkpoint ends the cycle at once: the retry loop only covers the witness and the proof)
EventuallySucceeds == (HonestStep /\ ~WithCtx) => <>(pc = "done" /\ (out.ok \/ out.why = "fetch"))
\* otherwise it never succeeds
NeverCosignsFork == [](pc = "done" /\ out.ok => HonestStep)

Terminal == pc = "done" \/ (pc = "loop" /\ fails = MaxFails /\ Len(hist) > 12)
FView == <<W0, Sub, pc, w, latest, pf, fails, out>>
EmitFeed == pc = "done" => PrintT("FEED " \o ToJson([w0 |-> W0, sub |-> Sub, hist |-> hist, out |-> out]))
=============================================================================
