----------------------------- MODULE Trace_Body -----------------------------
(***************************************************************************)
(* Judge for C11: bodies rendered from TLC-enumerated token sequences were *)
(* fed to the real parseBody; proofs were written by Proof.Marshal and     *)
(* read back by Proof.Unmarshal; bodies written by cmd/feedbastion's own   *)
(* writer were parsed back.                                                *)
(***************************************************************************)
EXTENDS Bastion

CONSTANT TraceFile
VARIABLE i
Trace == ndJsonDeserialize(TraceFile)
Ev == Trace[i]
TInit == i = 1 /\ stored = [l \in Logs |-> None] /\ last = [a |-> "init"] /\ ctr = [l \in Logs |-> Ctr0] /\ bucket = 0
TNext == i <= Len(Trace) /\ i' = i + 1 /\ UNCHANGED <<stored, last, ctr, bucket>>
TSpec == TInit /\ [][TNext]_<<i, stored, last, ctr, bucket>>

Check(name, ok) == ok \/ PrintT("FAIL " \o ToJson([id |-> "C11", name |-> name, i |-> i, run |-> Ev.run, k |-> Ev.k, sig |-> "-"]))

Exact == Ev.oldok /\ Ev.proofok /\ Ev.cpok

MonBody ==
    LET exp == ParseBody(Ev.toks) IN
    /\ Check("RefusedNotPartlyUnderstood", ~exp.ok => ~Ev.accepted)
    /\ Check("WellFormedAccepted", exp.ok /\ exp.sure => Ev.accepted)
    /\ Check("ParsesToExactlyWhatWasWritten", Ev.accepted => Exact)
    /\ Check("RefusalCarriesNoData", ~Ev.accepted => Ev.nodata)

\* a proof in the common text format reads back as the list that was written (every list, incl. the empty one);
\* damaged text (a line that is not base64, a missing final newline) is refused
MonProof ==
    /\ Check("ProofReadsBack", Ev.kind = "roundtrip" => Ev.accepted /\ Ev.same)
    /\ Check("DamagedProofRefused", Ev.kind \in {"notb64", "nonewline"} => ~Ev.accepted)

\* the repository's own writer (cmd/feedbastion) produces bodies the parser reads back exactly
MonWriter == Check("WriterReadsBack", Ev.accepted /\ Exact)

Monitor == CASE Ev.e = "body"   -> MonBody
             [] Ev.e = "proof"  -> MonProof
             [] Ev.e = "writer" -> MonWriter
             [] OTHER           -> TRUE
Done == TLCGet("stats").diameter - 1 = Len(Trace)
=============================================================================
