---- MODULE MC_Trace_Bastion ----
EXTENDS Trace_Bastion
Fork_2   == <<2>>
Fork_1   == <<1>>
Fork_2_0 == <<2, 0>>
====
