---------------------------- MODULE Trace_Retire ----------------------------
(***************************************************************************)
(* Judge for runs of the sequential driver in which the CONFIGURATION      *)
(* changes (a log is retired, later reinstated; the witness restarted on   *)
(* the same database each time).  Sets Retire.tla's variables to what the  *)
(* implementation did - `conf` from the driver's "conf" events, which are  *)
(* written only when the restart really happened - and evaluates the step  *)
(* formulas of Retire.tla on every observed step (non-fatal monitor).      *)
(***************************************************************************)
EXTENDS Retire

CONSTANT TraceFile
VARIABLE i

Trace == ndJsonDeserialize(TraceFile)
tvars == <<stored, conf, last, ctr, i>>
Ev == Trace[i]
SeqToSet(s) == {s[j] : j \in DOMAIN s}

TraceInit == RInit /\ i = 1

Reset == /\ Ev.e = "reset"
         /\ stored' = [l \in Logs |-> None] /\ conf' = Logs /\ last' = [a |-> "reset"]
         /\ ctr' = IF Ev.phase > 0 THEN ctr ELSE [l \in Logs |-> Ctr0]
         /\ i' = i + 1
ObsUpdate == /\ Ev.e = "update"
             /\ stored' = [l \in Logs |-> Ev.stored[l]]
             /\ last' = [a |-> "update", log |-> Ev.log, req |-> Ev.req, v |-> Ev.v, ret |-> Ev.ret]
             /\ ctr' = [l \in Logs |-> Ev.ctr[l]]
             /\ UNCHANGED conf /\ i' = i + 1
ObsGet == /\ Ev.e = "get"
          /\ last' = [a |-> "get", log |-> Ev.log, val |-> Ev.val]
          /\ UNCHANGED <<stored, conf, ctr>> /\ i' = i + 1
ObsGetLogs == /\ Ev.e = "getlogs"
              /\ last' = [a |-> "getlogs", val |-> SeqToSet(Ev.val)]
              /\ UNCHANGED <<stored, conf, ctr>> /\ i' = i + 1
\* the witness was restarted with this log list on the same database; the event carries what the store holds afterwards
ObsConf == /\ Ev.e = "conf"
           /\ conf' = SeqToSet(Ev.conf)
           /\ stored' = [l \in Logs |-> Ev.stored[l]]
           /\ last' = [a |-> "conf", val |-> SeqToSet(Ev.conf)]
           /\ UNCHANGED ctr /\ i' = i + 1
ObsOther == /\ Ev.e \notin {"reset", "update", "get", "getlogs", "conf"}
            /\ UNCHANGED <<stored, conf, last, ctr>> /\ i' = i + 1

TraceNext == i <= Len(Trace) /\ (Reset \/ ObsUpdate \/ ObsGet \/ ObsGetLogs \/ ObsConf \/ ObsOther)
TraceSpec == TraceInit /\ [][TraceNext]_tvars

Say(id, name) == PrintT("FAIL " \o ToJson([id |-> id, name |-> name, i |-> i, run |-> Ev.run, k |-> Ev.k, sig |-> "-"]))
Check(id, name, ok) == ok \/ Say(id, name)

MonUpdate ==
    LET la == last'
        l == la.log
        known == l \in Logs
        retired == known /\ l \notin conf
        st == IF known THEN stored[l] ELSE None
        honest == known /\ l \in conf /\ la.req = HonestReq(st, la.req.n) /\ OnMain(st) /\ (st = None \/ la.req.n >= st.n)
    IN known =>
       /\ Check("C01", "OneHistoryAcrossRetirement", AppendStep(stored, stored'))
       /\ Check("C02", "NotConfiguredIsRefusedOutright", RefusedStep(stored, stored', ctr, ctr', conf, la))
       /\ Check("C03", "NotConfiguredIsRefusedOutright", RefusedStep(stored, stored', ctr, ctr', conf, la) /\ (retired => Ev.unchanged))
       /\ Check("C08", "ReinstatedLogCarriesOn",
                honest /\ ~(st # None /\ st.n = 0 /\ la.req.n > 0) => la.v = "Accept")
       /\ Check("C09", "VerdictUnderTheCurrentConfiguration",
                InC09Domain(l \in conf, st, la.req) => la.v = SpecVerdict(l \in conf, st, la.req) /\ la.ret = RetForVerdict(la.v))
       /\ Check("C12", "RetiredLogIsFrozen", FrozenStep(stored, stored', conf))
       /\ Check("C12", "OnlyTheNamedLogMoves", \A m \in Logs : m # l => stored'[m] = stored[m])
       /\ Check("C16", "RetiredLogIsStillListed", SeqToSet(Ev.loglist) = {m \in Logs : stored'[m] # None})
       /\ Check("C20", "NoCounterForNotConfigured", retired => ctr' = ctr)
       /\ Check("C20", "Counters", ctr' = RBump(ctr, conf, l, la.v))
       /\ Check("DRIFT", "Conforms", ConformsStep(stored, stored', ctr, ctr', conf, la))

MonGet ==
    Ev.log \in Logs =>
       /\ Check("C16", "ReadIgnoresConfiguration", Ev.failed \/ ReadStep(stored, stored', last'))
       /\ Check("C04", "ReadIgnoresConfiguration", Ev.failed \/ ReadStep(stored, stored', last'))
       /\ Check("C16", "ReadBytes", Ev.failed \/ (Ev.exact /\ (stored[Ev.log] # None => Ev.client = "bytes") /\ (stored[Ev.log] = None => Ev.client = "notexist")))

Monitor ==
    CASE Ev.e = "update"  -> MonUpdate
      [] Ev.e = "get"     -> MonGet
      [] Ev.e = "getlogs" -> Check("C16", "ListIgnoresConfiguration", Ev.ok /\ ReadStep(stored, stored', last'))
      \* the restart itself: every byte the store held is still there (C01, C06-like durability of the kept state, C16)
      [] Ev.e = "conf"    -> /\ Check("C01", "ReconfigurationKeepsTheStore", ReconfStep(stored, stored', last') /\ Ev.unchanged)
                             /\ Check("C12", "ReconfigurationKeepsTheStore", ReconfStep(stored, stored', last') /\ Ev.unchanged)
                             /\ Check("C16", "ReconfigurationKeepsTheStore", ReconfStep(stored, stored', last') /\ Ev.unchanged)
      [] OTHER            -> TRUE

Done == TLCGet("stats").diameter - 1 = Len(Trace)
=============================================================================
