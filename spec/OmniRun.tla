------------------------------- MODULE OmniRun -------------------------------
(***************************************************************************)
(* Part 2 of the assembled omniwitness: the running system.                *)
(* published[l] is what log l serves; stored[l] what the witness holds     *)
(* (and serves over HTTP); Poll(l) is one feed cycle.                      *)
(***************************************************************************)
EXTENDS WitnessCore, Json

CONSTANTS Durable, MaxEvents
VARIABLES published, stored, nev,
          down,    \* logs whose server currently answers every request with an error (transient outage)
          evs      \* the environment's events so far (observation; hidden by VIEW in property runs)
rvars == <<published, stored, nev, down, evs>>

Lines == 1 + NWitKeys
AsCP(b, n) == [b |-> CanonB(b, n), n |-> n, lines |-> Lines, ext |-> 0]

RInit == /\ published = [l \in Logs |-> [b |-> 0, n |-> 1]]
         /\ stored = [l \in Logs |-> None]
         /\ nev = 0 /\ evs = <<>> /\ down = {}

Grow(l) == /\ nev < MaxEvents /\ published[l].n < MaxSize
           /\ \E n \in (published[l].n + 1)..MaxSize :
                 /\ published' = [published EXCEPT ![l] = [b |-> published[l].b, n |-> n]]
                 /\ evs' = Append(evs, [a |-> "grow", l |-> l, b |-> published[l].b, n |-> n])
           /\ nev' = nev + 1 /\ UNCHANGED <<stored, down>>
\* the log starts serving another history (same or larger size)
Fork(l) == /\ nev < MaxEvents /\ published[l].b = 0
           /\ \E b \in 1..(NBranch-1), n \in published[l].n..MaxSize :
                 /\ published' = [published EXCEPT ![l] = [b |-> b, n |-> n]]
                 /\ evs' = Append(evs, [a |-> "fork", l |-> l, b |-> b, n |-> n])
           /\ nev' = nev + 1 /\ UNCHANGED <<stored, down>>
Restart == /\ nev < MaxEvents /\ nev' = nev + 1
           /\ stored' = IF Durable THEN stored ELSE [l \in Logs |-> None]
           /\ evs' = Append(evs, [a |-> "restart", l |-> "", b |-> 0, n |-> 0])
           /\ UNCHANGED <<published, down>>
\* the log's server fails every request for a while (feed cycles fail and are only logged: the feeder keeps polling), then recovers
Outage(l) == /\ nev < MaxEvents /\ l \notin down /\ down' = down \cup {l} /\ nev' = nev + 1
             /\ evs' = Append(evs, [a |-> "outage", l |-> l, b |-> 0, n |-> 0]) /\ UNCHANGED <<published, stored>>
Recover(l) == /\ l \in down /\ down' = down \ {l}
              /\ evs' = Append(evs, [a |-> "recover", l |-> l, b |-> 0, n |-> 0]) /\ UNCHANGED <<published, stored, nev>>

\* one feed cycle: get latest, fetch proof from it, update; refused steps leave the witness where it was
Poll(l) ==
    LET p == published[l]
        st == stored[l]
        old == IF st = None THEN 0 ELSE st.n
        pf == IF st # None /\ st.n >= 1 /\ st.n < p.n THEN Right(p.b, st.n, p.n) ELSE Empty
        req == [auth |-> "good", old |-> old, b |-> p.b, n |-> p.n, extra |-> 0, stale |-> 0, ext |-> 0, pf |-> pf]
        d == IF st # None /\ st.n > p.n THEN Refuse("Ahead", "nil") ELSE Decide(TRUE, st, req)
    IN /\ l \notin down
       /\ stored' = IF d.write THEN [stored EXCEPT ![l] = d.new] ELSE stored
       /\ UNCHANGED <<published, nev, down, evs>>

RNext == \E l \in Logs : Grow(l) \/ Fork(l) \/ Poll(l) \/ Outage(l) \/ Recover(l)
RNextR == RNext \/ Restart
RSpec == RInit /\ [][RNextR]_rvars /\ \A l \in Logs : (SF_rvars(Poll(l) /\ stored'[l] # stored[l]) /\ WF_rvars(Recover(l)))

\* the environment alone (generator of growth / fork / restart schedules)
ENext == (\E l \in Logs : Grow(l) \/ Fork(l) \/ Outage(l) \/ Recover(l)) \/ Restart
ESpec == RInit /\ [][ENext]_rvars
EmitSched == nev = MaxEvents => PrintT("OMNI " \o ToJson([events |-> evs]))
RView == <<published, stored, nev, down>>

\* C14 safety: the served checkpoint never leaves the witnessed history
StaysOnHistory == [][\A l \in Logs : stored[l] # None /\ stored'[l] # None => Extends(stored[l], stored'[l]) \/ SameTree(stored[l], stored'[l])]_rvars
\* C14 liveness: once the log stops changing, the witness catches up - unless the log forked away from what was witnessed
CatchesUp ==
    \A l \in Logs : \A p \in [b : 0..(NBranch-1), n : 1..MaxSize] :
        [](([](published[l] = p) /\ (stored[l] = None \/ Extends(stored[l], AsCP(p.b, p.n))))
            => <>(stored[l] # None /\ SameTree(stored[l], AsCP(p.b, p.n))))
=============================================================================
