---- MODULE MC_Trace_Ops ----
EXTENDS Trace_Ops, MC_Ops
====
