----------------------------- MODULE Trace_Total -----------------------------
(* Judge for C19 (feeders, distributor, parsers): every recorded cycle ends with an outcome the totality spec allows. *)
EXTENDS Totality

CONSTANT TraceFile
Trace == ndJsonDeserialize(TraceFile)
VARIABLE i
Ev == Trace[i]
JInit == i = 1 /\ scen = [none |-> TRUE] /\ phase = "trace" /\ outcome = "none"
JNext == i <= Len(Trace) /\ i' = i + 1 /\ UNCHANGED vars
JSpec == JInit /\ [][JNext]_<<i, vars>>
Check(name, sig, ok) == ok \/ PrintT("FAIL " \o ToJson([id |-> "C19", name |-> name, i |-> i, run |-> Ev.run, k |-> Ev.k, sig |-> sig]))
Check13(name, ok) == ok \/ PrintT("FAIL " \o ToJson([id |-> "C13", name |-> name, i |-> i, run |-> Ev.run, k |-> Ev.k, sig |-> "-"]))
Monitor ==
    Ev.e = "cycle" =>
        \* C13: the feeder stops when its context ends (the cycle's context of these runs ends after 1.2 s; five seconds of grace for a loaded machine)
        /\ Check13("StopsWhenItsContextEnds", Ev.overrunms <= 5000)
        /\ Check("EndsWithResultOrError", Ev.sig, Ev.outcome \in AllowedOutcomes)
        /\ Check("NoCosignatureFromGarbage", "-",
                 Ev.outcome = "result" => Ev.cp \notin {"badsig", "truncated", "random", "status404", "status500", "empty", "oversized", "json-odd-types"})
Done == TLCGet("stats").diameter - 1 = Len(Trace)
=============================================================================
