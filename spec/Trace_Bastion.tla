--------------------------- MODULE Trace_Bastion ---------------------------
(***************************************************************************)
(* Judge for C10 (and the endpoint half of C19): the recorded requests to  *)
(* the real add-checkpoint handler in front of the real witness.           *)
(***************************************************************************)
EXTENDS Bastion, Integers

CONSTANT TraceFile
VARIABLE i
Trace == ndJsonDeserialize(TraceFile)
tvars == <<stored, last, ctr, bucket, i>>
Ev == Trace[i]
NoneAll == [l \in Logs |-> None]

TraceInit == stored = NoneAll /\ last = [a |-> "init"] /\ ctr = [l \in Logs |-> Ctr0] /\ bucket = 0 /\ i = 1
Reset == Ev.e = "reset" /\ stored' = NoneAll /\ last' = [a |-> "reset"] /\ UNCHANGED <<ctr, bucket>> /\ i' = i + 1
ObsPost == /\ Ev.e = "post"
           /\ stored' = [l \in Logs |-> Ev.stored[l]]
           /\ last' = [a |-> "post", kind |-> Ev.kind, status |-> Ev.status]
           /\ UNCHANGED <<ctr, bucket>> /\ i' = i + 1
ObsSkip == Ev.e = "skip" /\ UNCHANGED <<stored, last, ctr, bucket>> /\ i' = i + 1
\* the service was started on a database that already holds checkpoints (written by the harness in the pinned release's format): what is in the file
ObsPreset == Ev.e = "preset" /\ stored' = [l \in Logs |-> Ev.stored[l]] /\ last' = [a |-> "preset"] /\ UNCHANGED <<ctr, bucket>> /\ i' = i + 1
TraceNext == i <= Len(Trace) /\ (Reset \/ ObsPost \/ ObsSkip \/ ObsPreset)
TraceSpec == TraceInit /\ [][TraceNext]_tvars

Say(id, name, sig) == PrintT("FAIL " \o ToJson([id |-> id, name |-> name, i |-> i, run |-> Ev.run, k |-> Ev.k, sig |-> sig]))
Check(id, name, ok) == ok \/ Say(id, name, "-")

MalformedKinds == {"nosize", "suffix", "notb64", "noblank", "cp-one-line", "empty-body", "oversize"}

IsLimited == Ev.status = 429
RateOK ==
    IF Ev.limit = 0 THEN IsLimited
    ELSE IF Ev.limit = 1
         THEN /\ (IsLimited => Ev.sincems # -1 /\ Ev.gapms < 1000)          \* refused although a token must have been there
              /\ (~IsLimited /\ Ev.sincems # -1 => Ev.sincems >= 1000)     \* served although the bucket cannot have refilled
         ELSE ~IsLimited

MonPost ==
    LET l == Ev.log
        st == stored[l]
        req == Ev.req
    IN
    /\ Check("C19", "DocumentedStatus", Ev.status \in DocumentedStatus)
    \* the same properties of the witness seen through the endpoint (the ids of the properties they belong to):
    \* C03 whatever is answered as a refusal has changed nothing; C08 the honest next step of the log is accepted, whatever was sent before;
    \* C09 the answer is the status of the first matching rule
    /\ Check("C03", "RefusedThroughTheEndpointChangesNothing", Ev.status # 200 => Ev.unchanged)
    \* C11: a body that is cut off (over the 16 KiB the endpoint reads) is refused, never understood as the part that fitted
    /\ Check("C11", "OverLongBodyRefusedNotPartlyUnderstood", Ev.kind = "oversize" /\ ~IsLimited => Ev.status = 400 /\ Ev.unchanged)
    \* C11 through the endpoint: a well-formed body is understood as what was written, however it is DELIVERED (in one piece, in two, line by
    \* line): it is refused as malformed (400) exactly when the old size it states is beyond the size of the checkpoint it carries, and what is
    \* stored on acceptance is the checkpoint that was written, whole
    /\ (Ev.kind = "ok" /\ (~IsLimited \/ Ev.limit >= 1000) /\ InC09Domain(TRUE, st, req) /\ ~Ev.extlock =>
          /\ Check("C11", "WellFormedBodyUnderstoodHoweverDelivered", (Ev.status = 400) = (SpecVerdict(TRUE, st, req) = "OldSizeInvalid"))
          /\ Check("C11", "TheCheckpointWrittenIsTheOneStored", Ev.status = 200 => stored'[l] = Signed(req))
          \* the bytes after the blank separator are the checkpoint, all of them: a validly signed note FOLLOWED BY BLANK LINES is not a note, and
          \* an endpoint that hands on what was written gets it refused by the witness (no valid signature)
          /\ Check("C11", "CheckpointBytesHandedOnAsWritten", req.auth = "trailingblank" => Ev.status = 403 /\ Ev.unchanged))
    \* (a 429 excuses the endpoint only where the configured rate can explain it: the runs of this part are configured with 100000 requests/s)
    \* (Ev.extlock: another connection held a read transaction on the witness' database file while the request was served - the witness may
    \*  answer with a storage error; what it must not do is answer 200 for a checkpoint that a read does not return afterwards)
    /\ (Ev.kind = "ok" /\ (~IsLimited \/ Ev.limit >= 1000) /\ ~Ev.extlock =>
          /\ Check("C08", "HonestStepAcceptedThroughTheEndpoint",
                   (req = [HonestReq(st, req.n) EXCEPT !.ext = req.ext] /\ OnMain(st) /\ (st = None \/ req.n >= st.n) /\ ~F1(st, req.n)) => Ev.status = 200)
          /\ Check("C09", "FirstMatchingRuleThroughTheEndpoint", InC09Domain(TRUE, st, req) => Ev.status = StatusOf(SpecVerdict(TRUE, st, req))))
    /\ Check("C10", "RateLimit", Ev.kind = "fuzz" \/ RateOK)
    /\ Check("C10", "LimitedNotProcessed", IsLimited => Ev.unchanged /\ Ev.body.cls = "empty")
    /\ (~IsLimited =>
         /\ Check("C10", "Malformed400", Ev.kind \in MalformedKinds => Ev.status = 400 /\ Ev.unchanged)
         /\ Check("C10", "UnknownOrigin404", Ev.kind = "unknown-origin" => Ev.status = 404 /\ Ev.unchanged)
         /\ (Ev.kind = "ok" =>
              /\ Check("C10", "OKOnlyWhenAccepted",
                       Ev.status = 200 => /\ stored'[l] = Signed(req) /\ Ev.body.cls = "sigline" /\ Ev.body.sigok
                                          /\ Decide(TRUE, st, req).v = "Accept")
              /\ Check("C10", "RefusalUnchanged", Ev.status # 200 => Ev.unchanged)
              /\ Check("C10", "StatusTable",
                       InC09Domain(TRUE, st, req) /\ ~Ev.extlock => Ev.status = StatusOf(SpecVerdict(TRUE, st, req)))
              /\ Check("C10", "StorageTroubleIsA500NotA200", Ev.extlock => Ev.status \in {500, StatusOf(Decide(TRUE, st, req).v)})
              /\ Check("C10", "StaleTellsTrueSize",
                       InC09Domain(TRUE, st, req) /\ SpecVerdict(TRUE, st, req) = "Stale" /\ ~Ev.extlock =>
                           Ev.ctype = "text/x.tlog.size" /\ Ev.body.cls = "size" /\ Ev.body.n = st.n)
              /\ Check("C10", "NoBodyOnOtherRefusals",
                       Ev.status \in {400, 403, 404, 422} => Ev.body.cls = "empty")
              /\ Check("DRIFT", "Conforms", Ev.extlock \/ Ev.status = StatusOf(Decide(TRUE, st, req).v))
              /\ Check("ORACLE", "RefAgrees",
                       req.auth # "good" \/ Ev.refok = "na" \/ st = None \/
                       (Ev.refok = "yes") = (IF st.n = req.n THEN req.pf.k = "empty" /\ SameTree(st, [b |-> req.b, n |-> req.n])
                                             ELSE IF st.n = 0 THEN req.pf.k = "empty"
                                             ELSE VerifyOK(st.b, st.n, req.b, req.n, req.pf)))))

Monitor == IF Ev.e = "post" THEN MonPost ELSE TRUE
Done == TLCGet("stats").diameter - 1 = Len(Trace)
=============================================================================
