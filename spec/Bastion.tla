------------------------------ MODULE Bastion ------------------------------
(***************************************************************************)
(* The bastion add-checkpoint endpoint (internal/feeder/bastion) in front  *)
(* of the atomic witness: rate limiter -> body parser -> origin line ->    *)
(* log lookup -> Witness!Update -> status / content type / body by the     *)
(* tlog-witness table.  Body syntax is the token grammar of BodyGrammar    *)
(* below (C11); totality (C19): every request gets exactly one response    *)
(* with a documented status - there is no Panic or Hang action.            *)
(***************************************************************************)
EXTENDS Witness

CONSTANTS Burst,        \* token-bucket size of the rate limiter (int(limit)); 0 = nothing is served
          Malformed     \* classes of malformed bodies

VARIABLE bucket         \* tokens left
bvars == <<stored, last, ctr, bucket>>

-----------------------------------------------------------------------------
(* C11: the body grammar over abstract line tokens.                          *)
(*   "size"    old-size line in canonical form                               *)
(*   "sloppy"  old-size line with extra blanks / leading zeros / sign        *)
(*             (may be accepted or refused, but never as another value)      *)
(*   "suffix"  a number followed by garbage ("old 10junk", "old 0x10")       *)
(*   "nosize"  anything else in first position                              *)
(*   "b64"     a base64 line       "notb64"  a non-empty line that is not    *)
(*   "blank"   the separator       "cp"      a line of checkpoint bytes      *)
Tokens == {"size", "sloppy", "suffix", "nosize", "b64", "notb64", "blank", "cp"}

RECURSIVE ProofPart(_, _)
\* scans proof lines from position j: result [ok, nproof, cpfrom] or refusal
ProofPart(toks, j) ==
    IF j > Len(toks) THEN [ok |-> FALSE, why |-> "noblank"]
    ELSE IF toks[j] = "blank" THEN [ok |-> TRUE, cpfrom |-> j + 1]
    ELSE IF toks[j] = "b64" THEN ProofPart(toks, j + 1)
    ELSE [ok |-> FALSE, why |-> "notb64"]

\* ParseBody: accept with (old-size class, number of proof lines, first checkpoint line) or refuse - never partly
ParseBody(toks) ==
    IF Len(toks) = 0 THEN [ok |-> FALSE, why |-> "nosize", sure |-> TRUE]
    ELSE IF toks[1] \notin {"size", "sloppy"} THEN [ok |-> FALSE, why |-> "nosize", sure |-> TRUE]
    ELSE LET p == ProofPart(toks, 2) IN
         IF ~p.ok THEN [ok |-> FALSE, why |-> p.why, sure |-> TRUE]
         \* (c2sp.org/tlog-witness allows at most 63 proof lines: an implementation may, but need not, refuse longer proofs)
         ELSE [ok |-> TRUE, nproof |-> p.cpfrom - 3, cpfrom |-> p.cpfrom, sure |-> toks[1] = "size" /\ p.cpfrom - 3 <= 63]

\* generator for C11: every token sequence up to length n with the parser's verdict
AllBodies(n) == UNION {[1..k -> Tokens] : k \in 0..n}
EmitBodies(n) == \A t \in AllBodies(n) : PrintT("TOK " \o ToJson([toks |-> t, exp |-> ParseBody(t)]))
\* the parser never understands a body partly: it accepts exactly the bodies of the form  size-line b64* blank anything*
GrammarSane(n) ==
    \A t \in AllBodies(n) :
        ParseBody(t).ok = (/\ Len(t) >= 2 /\ t[1] \in {"size", "sloppy"}
                           /\ \E j \in 2..Len(t) : t[j] = "blank" /\ \A m \in 2..(j-1) : t[m] = "b64")

-----------------------------------------------------------------------------
StatusOf(v) ==
    CASE v = "Accept"         -> 200
      [] v = "UnknownLog"     -> 404
      [] v = "NoValidSig"     -> 403
      [] v = "OldSizeInvalid" -> 400
      [] v = "Stale"          -> 409
      [] v = "RootMismatch"   -> 409
      [] v = "InvalidProof"   -> 422
      [] OTHER                -> 500
DocumentedStatus == {200, 400, 403, 404, 409, 422, 429, 500}

BInit == Init /\ bucket = Burst

\* time passes: the bucket refills (nondeterministic, bounded by Burst)
Refill == bucket < Burst /\ bucket' = bucket + 1 /\ UNCHANGED <<stored, last, ctr>>

Limited ==
    /\ bucket = 0
    /\ last' = [a |-> "post", kind |-> "limited", status |-> 429]
    /\ UNCHANGED <<stored, ctr, bucket>>

\* a well-formed body naming a configured origin: the witness decides
PostOK(l, req) ==
    /\ bucket > 0 /\ bucket' = bucket - 1
    /\ LET d == Decide(TRUE, stored[l], req) IN
       /\ stored' = IF d.write THEN [stored EXCEPT ![l] = d.new] ELSE stored
       /\ ctr' = Bump(ctr, l, d.v)
       /\ last' = [a |-> "post", kind |-> "ok", log |-> l, req |-> req, v |-> d.v, status |-> StatusOf(d.v),
                   ctype |-> IF d.v = "Stale" THEN "text/x.tlog.size" ELSE "",
                   body |-> IF d.v = "Accept" THEN "sigline" ELSE IF d.v = "Stale" THEN "size" ELSE "empty"]

PostMalformed(kind) ==
    /\ bucket > 0 /\ bucket' = bucket - 1
    /\ last' = [a |-> "post", kind |-> kind, status |-> 400]
    /\ UNCHANGED <<stored, ctr>>

PostUnknownOrigin ==
    /\ bucket > 0 /\ bucket' = bucket - 1
    /\ last' = [a |-> "post", kind |-> "unknown-origin", status |-> 404]
    /\ UNCHANGED <<stored, ctr>>

BNext ==
    \/ Refill \/ Limited \/ PostUnknownOrigin
    \/ \E k \in Malformed : PostMalformed(k)
    \/ \E l \in Logs :
         \/ \E old \in Olds, b \in Branch, n \in Size, e \in Extras, s \in Stales, x \in Exts :
               \E pf \in ProofMenu(stored[l], old, b, n) : PostOK(l, GoodReq(old, b, n, e, s, x, pf))
         \/ \E a \in BadAuths, n \in Size : PostOK(l, BadReq(a, n))

BSpec == BInit /\ [][BNext]_bvars

\* C10 / C19 on the model
AnswersDocumented == [][last'.a = "post" => last'.status \in DocumentedStatus]_bvars
OKOnlyWhenAccepted == [][last'.a = "post" /\ last'.status = 200 => last'.kind = "ok" /\ last'.v = "Accept" /\ stored'[last'.log] = Signed(last'.req)]_bvars
LimitedNotProcessed == [][last'.a = "post" /\ last'.status = 429 => UNCHANGED <<stored, ctr>>]_bvars
RefusedUnchanged == [][last'.a = "post" /\ last'.status # 200 => UNCHANGED stored]_bvars

BEmit == last'.a = "post" => PrintT("EDGE " \o ToJson([pre |-> stored, act |-> last', post |-> stored']))
BView == <<stored, bucket>>
=============================================================================
