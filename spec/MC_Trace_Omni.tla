---- MODULE MC_Trace_Omni ----
EXTENDS Trace_Omni
Fork_1 == <<1>>
====
