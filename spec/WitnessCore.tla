---------------------------- MODULE WitnessCore ----------------------------
(***************************************************************************)
(* Data model and decision function of transparency-dev/witness'          *)
(* Witness.Update (internal/witness/witness.go).                           *)
(*                                                                         *)
(* Abstract values                                                         *)
(*   - a log history is a branch b of a forking log: branch 0 is the main  *)
(*     history, branch b>0 agrees with it on the first ForkAt[b] leaves    *)
(*     and differs afterwards, branch Junk is a log-signed root that is    *)
(*     the root of no tree;                                                *)
(*   - sizes are ORDER POSITIONS 0..MaxSize (the code only compares sizes  *)
(*     and feeds them to the Merkle verifier); the harness embeds them     *)
(*     into uint64 with strictly increasing maps that fix 0;               *)
(*   - a stored / cosigned checkpoint is [b, n, lines, ext]: canonical     *)
(*     branch, size, number of signature lines of the note, and whether    *)
(*     the text carries extension lines.                                   *)
(***************************************************************************)
EXTENDS Naturals, Sequences, FiniteSets, TLC

CONSTANTS
    Logs,          \* configured log IDs
    MaxSize,       \* abstract sizes 0..MaxSize
    NBranch,       \* real branches 0..NBranch-1; NBranch itself is "junk"
    ForkAt,        \* [1..NBranch-1 -> 0..MaxSize] number of leaves b shares with main
    MaxLines,      \* signature-line limit of the note format (100 in reality)
    NWitKeys,      \* number of witness signers
    ZeroWedge,     \* TRUE: merkle refuses size1 = 0 < size2 (code as it is, finding F1)
    PadGuard       \* TRUE: cosigned note is re-opened before it is stored (fix of F2)

None == [none |-> TRUE]
Junk == NBranch
Branch == 0..NBranch
RealBranch == 0..(NBranch-1)
Size == 0..MaxSize

\* canonical branch of the tree made of the first n leaves of branch b
CanonB(b, n) == IF b = Junk \/ b \notin Branch THEN Junk      \* (an unrecognised observed root counts as junk)
                ELSE IF b = 0 THEN 0
                ELSE IF n <= ForkAt[b] THEN 0 ELSE b
\* identity of a root hash: equal trees have equal roots, different trees different ones
RootId(b, n) == <<CanonB(b, n), n>>

\* "the first n1 entries of tree (b2,n2) are exactly the entries of tree (b1,n1)"
Prefix(b1, n1, b2, n2) ==
    /\ n1 <= n2
    /\ b1 # Junk /\ b2 # Junk
    /\ CanonB(b2, n1) = CanonB(b1, n1)

SameTree(c1, c2) == c1.n = c2.n /\ RootId(c1.b, c1.n) = RootId(c2.b, c2.n)
Extends(c1, c2)  == Prefix(c1.b, c1.n, c2.b, c2.n)      \* c2 extends c1

Empty == [k |-> "empty"]
Right(b, m, n) == [k |-> "right", b |-> b, m |-> m, n |-> n]
Bad(kind) == [k |-> "bad", kind |-> kind]

(***************************************************************************)
(* merkle proof.VerifyConsistency(size1, size2, proof, root1, root2) on    *)
(* abstract values.  Justified against a line-by-line transcription of the *)
(* verifier over a free hash algebra in Merkle.tla / MC_Merkle.            *)
(***************************************************************************)
VerifyOK(pb, pn, nb, nn, pf) ==
    IF pn = nn THEN pf.k = "empty" /\ RootId(pb, pn) = RootId(nb, nn)
    ELSE IF pn = 0 THEN (~ZeroWedge) /\ pf.k = "empty"
    ELSE /\ pf.k = "right"
         /\ pf.m = pn /\ pf.n = nn
         /\ pf.b # Junk
         /\ RootId(pf.b, pn) = RootId(pb, pn)
         /\ RootId(pf.b, nn) = RootId(nb, nn)

\* signature lines of the submitted note / of the cosigned output (note.Sign elides
\* stale copies of the witness' own lines and appends one line per signer)
InLines(req)  == 1 + req.extra + req.stale * NWitKeys
OutLines(req) == 1 + req.extra + NWitKeys
Signed(req)   == [b |-> CanonB(req.b, req.n), n |-> req.n, lines |-> OutLines(req), ext |-> req.ext]

Accept(req) ==
    IF PadGuard /\ OutLines(req) > MaxLines
    THEN [v |-> "Internal", ret |-> "nil", new |-> None, write |-> FALSE]
    ELSE [v |-> "Accept", ret |-> "new", new |-> Signed(req), write |-> TRUE]

Refuse(v, r) == [v |-> v, ret |-> r, new |-> None, write |-> FALSE]

(***************************************************************************)
(* The code-shaped ordered rule list of Update.  st is the stored          *)
(* checkpoint or None.  Result: verdict, returned-bytes class, new value,  *)
(* whether Set happens.                                                    *)
(***************************************************************************)
Decide(known, st, req) ==
    IF ~known THEN Refuse("UnknownLog", "nil")
    ELSE IF req.auth # "good" \/ InLines(req) > MaxLines THEN Refuse("NoValidSig", "nil")
    ELSE IF st = None THEN Accept(req)
    ELSE IF st.lines > MaxLines THEN Refuse("Internal", "nil")     \* stored note cannot be re-opened
    ELSE IF req.old > req.n THEN Refuse("OldSizeInvalid", "prev")
    ELSE IF req.old # st.n THEN Refuse("Stale", "prev")
    \* `next.Size < prev.Size` is unreachable here (dead code in the implementation)
    ELSE IF req.n = st.n /\ RootId(req.b, req.n) # RootId(st.b, st.n) THEN Refuse("RootMismatch", "prev")
    ELSE IF req.n = 0 THEN (IF req.pf.k # "empty" THEN Refuse("Internal", "nil") ELSE Accept(req))
    ELSE IF ~VerifyOK(st.b, st.n, req.b, req.n, req.pf) THEN Refuse("InvalidProof", "prev")
    ELSE Accept(req)

(***************************************************************************)
(* The declarative first-match list of the tlog-witness protocol as        *)
(* property C09 states it, with an independent reading of "proof valid".   *)
(***************************************************************************)
ProofValid(st, req) ==
    IF st.n = req.n THEN req.pf.k = "empty"
    ELSE /\ req.pf.k = "right" /\ req.pf.b # Junk
         /\ req.pf.m = st.n /\ req.pf.n = req.n
         /\ SameTree(st, [b |-> req.pf.b, n |-> st.n])                          \* built over the stored tree
         /\ SameTree([b |-> req.b, n |-> req.n], [b |-> req.pf.b, n |-> req.n])  \* and over the submitted one

SpecVerdict(known, st, req) ==
    CASE ~known -> "UnknownLog"
      [] known /\ req.auth # "good" -> "NoValidSig"
      [] known /\ req.auth = "good" /\ st = None -> "Accept"
      [] known /\ req.auth = "good" /\ st # None ->
            IF req.old > req.n THEN "OldSizeInvalid"
            ELSE IF req.old # st.n THEN "Stale"
            ELSE IF req.n = st.n /\ ~SameTree(st, [b |-> req.b, n |-> req.n]) THEN "RootMismatch"
            ELSE IF ~ProofValid(st, req) THEN "InvalidProof"
            ELSE "Accept"

\* the domain on which C09 makes its claim
InC09Domain(known, st, req) ==
    \/ ~known
    \/ req.auth # "good" /\ InLines(req) <= MaxLines
    \/ /\ req.auth = "good" /\ req.extra = 0 /\ req.stale = 0
       /\ (st = None => req.old = 0 /\ req.pf.k = "empty")
       /\ (st # None => st.lines <= MaxLines)
       /\ ~(st # None /\ st.n = 0 /\ req.n > 0 /\ req.old = 0)                       \* claimed in C08 (F1)
       /\ ~(st # None /\ st.n = 0 /\ req.n = 0 /\ req.old = 0 /\ req.pf.k # "empty"
            /\ SameTree(st, [b |-> req.b, n |-> req.n]))                             \* C03's "non-empty proof at size zero" class

RetForVerdict(v) == IF v \in {"OldSizeInvalid", "Stale", "RootMismatch", "InvalidProof"} THEN "prev"
                    ELSE IF v = "Accept" THEN "new" ELSE "nil"
=============================================================================
