------------------------------ MODULE Trace_Lin ------------------------------
(***************************************************************************)
(* Judge for C05: is the recorded invocation/response history of           *)
(* concurrent Update / GetCheckpoint calls linearizable with respect to    *)
(* the atomic machine of Witness.tla (Decide), with the one exception the  *)
(* property grants: an update overlapping another accepted write to the    *)
(* same log may fail with a storage error and no effect?                   *)
(*                                                                         *)
(* inv / ret events are logged by the harness; Linearize(p) is a silent    *)
(* step that applies the atomic update for a pending p.  The final stored  *)
(* state must be the model's.  Acceptance = the cursor reaches the end     *)
(* (high-water mark in TLC register 1).                                    *)
(***************************************************************************)
EXTENDS WitnessCore, Json

CONSTANTS TraceFile, Procs
Trace == ndJsonDeserialize(TraceFile)

VARIABLES i, st, pend
tvars == <<i, st, pend>>
Idle == [idle |-> TRUE]
Ev == Trace[i]

Init == i = 1 /\ st = [l \in Logs |-> None] /\ pend = [p \in Procs |-> Idle]

ResetEv == /\ Ev.e = "reset"
           /\ \A p \in Procs : pend[p] = Idle
           /\ st' = [l \in Logs |-> Ev.db0[l]] /\ pend' = pend /\ i' = i + 1

InvokeEv == /\ Ev.e = "inv" /\ pend[Ev.p] = Idle
            /\ pend' = [pend EXCEPT ![Ev.p] = [op |-> Ev.op, lin |-> FALSE, conflict |-> FALSE]]
            /\ st' = st /\ i' = i + 1

\* silent: the linearization point of a pending, not yet linearized call
\* (linearization points are only taken right before a response or the end of the run is consumed: any linearization
\*  can be rearranged that way without changing its order, and the search space shrinks by orders of magnitude)
Linearize(p) ==
    /\ Ev.e \in {"ret", "final"}
    /\ pend[p] # Idle /\ ~pend[p].lin
    /\ LET o == pend[p].op
           l == o.log
       IN IF o.kind = "read"
          THEN /\ st' = st
               /\ pend' = [pend EXCEPT ![p] = [op |-> o, lin |-> TRUE, conflict |-> FALSE, out |-> [v |-> "Read", val |-> st[l]]]]
          ELSE LET d == Decide(TRUE, st[l], o.req) IN
               /\ st' = IF d.write THEN [st EXCEPT ![l] = d.new] ELSE st
               /\ pend' = [q \in Procs |->
                            IF q = p THEN [op |-> o, lin |-> TRUE, conflict |-> FALSE, out |-> [v |-> d.v, val |-> IF d.write THEN d.new ELSE st[l]]]
                            ELSE IF d.write /\ pend[q] # Idle /\ ~pend[q].lin /\ pend[q].op.log = l
                                 THEN [pend[q] EXCEPT !.conflict = TRUE]
                                 ELSE pend[q]]
    /\ i' = i

ReturnEv ==
    /\ Ev.e = "ret" /\ pend[Ev.p] # Idle
    /\ \/ /\ pend[Ev.p].lin /\ pend[Ev.p].out.v = Ev.v
          /\ (Ev.v \in {"Accept", "Read"} => pend[Ev.p].out.val = Ev.val)
          \* a stale old size is answered with the witness' size (409 text/x.tlog.size): the size it held at the linearization point
          /\ (Ev.v = "Stale" /\ "told" \in DOMAIN Ev => pend[Ev.p].out.val # None /\ pend[Ev.p].out.val.n = Ev.told)
       \/ Ev.v = "Internal" /\ ~pend[Ev.p].lin /\ pend[Ev.p].conflict /\ pend[Ev.p].op.kind = "update"
    /\ pend' = [pend EXCEPT ![Ev.p] = Idle]
    /\ st' = st /\ i' = i + 1

\* end of a run: the stored state read back must be the model's
FinalEv == /\ Ev.e = "final" /\ \A p \in Procs : pend[p] = Idle
           /\ \A l \in Logs : Ev.stored[l] = st[l]
           /\ st' = st /\ pend' = pend /\ i' = i + 1

\* operation-level events (storage calls seen by the gate wrapper) carry no obligation here
OpEv == Ev.e \in {"op", "metrics"} /\ UNCHANGED <<st, pend>> /\ i' = i + 1     \* (metrics: judged by Trace_Hist)

Next == i <= Len(Trace) /\ (ResetEv \/ InvokeEv \/ ReturnEv \/ FinalEv \/ OpEv \/ \E p \in Procs : Linearize(p))
Spec == Init /\ [][Next]_tvars

HighWater == TLCSet(1, IF i > TLCGet(1) THEN i ELSE TLCGet(1))
Accepted == IF TLCGet(1) = Len(Trace) + 1 THEN TRUE
            ELSE PrintT("REJECTED " \o ToJson([i |-> TLCGet(1), run |-> Trace[TLCGet(1)].run])) /\ FALSE
ASSUME TLCSet(1, 0)
=============================================================================
