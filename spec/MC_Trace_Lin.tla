---- MODULE MC_Trace_Lin ----
EXTENDS Trace_Lin
Fork_1 == <<1>>
Fork_2 == <<2>>
====
