----------------------------- MODULE Trace_Tile -----------------------------
(* Judge for C18: tile requests of the real SumDB client and proofs of the real SumDB feeder. *)
EXTENDS TilePath

CONSTANT TraceFile
Trace == ndJsonDeserialize(TraceFile)
VARIABLE i
Ev == Trace[i]
JInit == i = 1 /\ x = 0
JNext == i <= Len(Trace) /\ i' = i + 1 /\ x' = x
JSpec == JInit /\ [][JNext]_<<i, x>>
Check(name, ok) == ok \/ PrintT("FAIL " \o ToJson([id |-> "C18", name |-> name, i |-> i, run |-> Ev.run, k |-> Ev.k, sig |-> "-"]))
MonPath ==
    /\ Check("RequestIsTheSpecifiedPath", Ev.req = "/" \o TilePathOf(Ev.h, Ev.l, Ev.n, Ev.w))
    /\ Check("RequestIsTheReferencePath", Ev.req = "/" \o Ev.tlog)
    /\ Check("ReferenceServerParsesItBack", Ev.parsed)
    \* (the stub answers the first request for every third tile with a 503: whether the client gives up or asks again, it asks for THAT path)
    /\ Check("EveryRequestForTheTileIsTheReferencePath", \A j \in 1..Len(Ev.reqs) : Ev.reqs[j] = "/" \o Ev.tlog)
MonProof ==
    /\ Check("ProofAcceptedByIndependentVerifier", Ev.refok)
    /\ Check("ProofAcceptedByWitness", Ev.accepted)
    /\ Check("OldSizeIsFrom", Ev.oldok)
Monitor == CASE Ev.e = "tile.path" -> MonPath [] Ev.e = "tile.proof" -> MonProof [] OTHER -> TRUE
Done == TLCGet("stats").diameter - 1 = Len(Trace)
=============================================================================
