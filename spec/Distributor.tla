----------------------------- MODULE Distributor -----------------------------
(***************************************************************************)
(* One pass of the REST distributor (internal/distribute/rest              *)
(* DistributeOnce): for every configured log, in order, ask the witness    *)
(* for its latest checkpoint, verify it under the log's key and origin and *)
(* the witness' key (exactly one witness signature), PUT the bytes to      *)
(* /distributor/v0/logs/<id>/byWitness/<witness name>/checkpoint, and      *)
(* count the log as failed unless the final answer is 200.  A failure of   *)
(* one log never stops the loop.                                           *)
(***************************************************************************)
EXTENDS Naturals, Sequences, FiniteSets, TLC, Json

CONSTANTS NLogs       \* number of configured logs

WitAns == {"valid", "missing", "wronglogkey", "nowitsig", "badwitsig", "corrupted", "otherlog", "error"}
\* "...then200": the first PUT for the log gets a transient answer, any further PUT gets 200. The code as it stands does not retry (the log
\* counts as failed); an implementation that retries delivers with its second PUT. Both are behaviours of this spec - what is never allowed
\* is a PUT whose body is not the witness' checkpoint (judged on the trace).
Flaky == {"502then200", "503then200", "504then200", "429then200"}
\* "slow200": the distributor answers 200, but only after several distribution intervals (well inside the HTTP client's timeout). A pass has no
\* deadline of its own (Main runs it with the process context), so this is a delivery like any other - and the logs after it still get their turn.
DistAns == {"200", "404", "500", "connerr", "redirect302", "redirect307", "slow200"} \cup Flaky
Idx == 1..NLogs

VARIABLES wit,    \* [Idx -> WitAns]   what the witness answers for each log (scenario, never changes)
          dist,   \* [Idx -> DistAns]  what the distributor answers for each log (scenario)
          pos,    \* next log to process
          puts,   \* logs whose checkpoint was PUT
          failed, \* logs counted as failed
          result  \* "running" | "ok" | "error"
vars == <<wit, dist, pos, puts, failed, result>>

Init == /\ wit \in [Idx -> WitAns] /\ dist \in [Idx -> DistAns]
        /\ pos = 1 /\ puts = {} /\ failed = {} /\ result = "running"

Delivered(d) == d \in {"200", "redirect307", "slow200"}     \* a 307 keeps method and body; the target answers 200

Process ==
    /\ pos <= NLogs /\ result = "running"
    /\ IF wit[pos] = "valid"
       THEN /\ puts' = puts \cup {pos}
            /\ failed' \in IF dist[pos] \in Flaky THEN {failed, failed \cup {pos}}
                          ELSE IF Delivered(dist[pos]) THEN {failed} ELSE {failed \cup {pos}}
       ELSE /\ puts' = puts /\ failed' = failed \cup {pos}
    /\ pos' = pos + 1
    /\ UNCHANGED <<wit, dist, result>>

Finish ==
    /\ pos = NLogs + 1 /\ result = "running"
    /\ result' = IF failed = {} THEN "ok" ELSE "error"
    /\ UNCHANGED <<wit, dist, pos, puts, failed>>

Next == Process \/ Finish
Spec == Init /\ [][Next]_vars /\ WF_vars(Next)

\* C15 on the model
OnlyVerifiedArePushed == \A l \in puts : wit[l] = "valid"
EveryLogAttempted == result # "running" => puts = {l \in Idx : wit[l] = "valid"}
ErrorIffSomeLogFailed == result # "running" =>
    /\ ((\E l \in Idx : wit[l] # "valid" \/ (dist[l] \notin Flaky /\ ~Delivered(dist[l]))) => result = "error")
    /\ (result = "error" => \E l \in Idx : wit[l] # "valid" \/ ~Delivered(dist[l]))
Terminates == <>(result # "running")

EmitDist == result # "running" => PrintT("DIST " \o ToJson([wit |-> wit, dist |-> dist, puts |-> puts, result |-> result]))
=============================================================================
