---- MODULE MC_Retire ----
EXTENDS Retire
Fork_2   == <<2>>
Fork_1   == <<1>>
Fork_2_0 == <<2, 0>>
Fork_3_1 == <<3, 1>>
Fork_8_3 == <<8, 3>>
====
