----------------------------- MODULE WitnessOps -----------------------------
(***************************************************************************)
(* Update / GetCheckpoint refined to the calls the code makes on            *)
(* LogStatePersistence (internal/persistence), one named action per call,   *)
(* for several concurrent processes, on the two stores:                     *)
(*                                                                          *)
(*   InMem : WriteOps/ReadOps take a SNAPSHOT of db[l]; GetLatest returns   *)
(*           it; Set is compare-and-set of the snapshot against db[l].      *)
(*   Sql1  : the production pool (SetMaxOpenConns(1)): WriteOps = Begin     *)
(*           takes the single connection (blocks while it is taken),        *)
(*           GetLatest reads inside the transaction, Set = Exec + Commit    *)
(*           (two driver steps when DriverSteps), Close = Rollback if the   *)
(*           transaction is still open; a reader's GetLatest needs the      *)
(*           connection for one atomic step.                                *)
(*   SqlN  : the SAME code on a pool of several connections to one SQLite   *)
(*           file (what cmd/omniwitness would run without                   *)
(*           SetMaxOpenConns(1)): Begin never waits; the SELECT inside the  *)
(*           transaction takes a SHARED file lock that is kept until the    *)
(*           transaction ends; Exec needs the RESERVED lock and fails at    *)
(*           once with SQLITE_BUSY when another transaction holds it;       *)
(*           Commit needs EXCLUSIVE, i.e. waits until no other transaction  *)
(*           holds SHARED.  This variant is NOT what ships: it is here so   *)
(*           that TLC can say which property the single connection buys     *)
(*           (ErrOnlyOnConflict; see MC_Ops and bin/selftest).              *)
(*                                                                          *)
(* Each process runs a program (a sequence of operations).  Fault actions   *)
(* (C07) replace a call by its failure while a budget lasts; Crash (C06)    *)
(* kills the process group at any instant and keeps only db.                *)
(***************************************************************************)
EXTENDS WitnessCore, Json

CONSTANTS Store,        \* "InMem" | "Sql1" | "SqlN"
          Procs,        \* process ids (positive integers)
          Prog,         \* [Procs -> Seq(operation)]
          MaxFaults,    \* budget of injected storage failures
          MaxCrash,     \* 0 | 1
          DriverSteps,  \* Sql1: Exec and Commit are separate steps (crash / fault points between them)
          Db0,          \* initial committed state [Logs -> CP \cup {None}] (set up sequentially beforehand)
          EagerInvoke   \* TRUE: every operation is invoked as soon as its process is free (no separate Invoke step)

VARIABLES db,      \* committed state [Logs -> CP \cup {None}]
          conn,    \* Sql1: holder of the single connection (0 = free)
          tx,      \* Sql1/SqlN: value buffered by Exec and not yet committed
          lk,      \* SqlN: SQLite file locks [sh |-> transactions holding SHARED, rs |-> holder of RESERVED or 0]
          pc, ip,  \* control state and program counter of each process
          snap,    \* value obtained by the process' read
          dec,     \* decision taken after the read
          res,     \* results of completed operations (observation)
          seen,    \* values db[l] held while the current operation was in progress (for the refinement check)
          faults, crashed, acked,
          sched    \* history of scheduling choices (observation; hidden by VIEW in property runs)
vars == <<db, conn, tx, lk, pc, ip, snap, dec, res, seen, faults, crashed, acked, sched>>

NoDec == [none |-> TRUE]
Op(p) == Prog[p][ip[p]]
HasOp(p) == ip[p] <= Len(Prog[p])
L(p) == Op(p).log
Idle(p) == pc[p] \in {"idle", "done"}
StorageErr == [v |-> "StorageErr", ret |-> "nil"]
IsSql == Store \in {"Sql1", "SqlN"}
NoLocks == [sh |-> {}, rs |-> 0]
Release(p) == [sh |-> lk.sh \ {p}, rs |-> IF lk.rs = p THEN 0 ELSE lk.rs]
ASSUME Store = "SqlN" => DriverSteps

Step(p, name) == sched' = Append(sched, <<p, name>>)

\* every change of db is observed by every process that is inside an operation on that log
Observe(newdb) == seen' = [q \in Procs |-> IF Idle(q) \/ ~HasOp(q) THEN seen[q] ELSE seen[q] \cup {newdb[L(q)]}]

FirstLabel(p) == IF Op(p).kind = "read" THEN "rops" ELSE "wops"

Invoke(p) ==
    /\ ~crashed /\ pc[p] = "idle" /\ HasOp(p)
    /\ pc' = [pc EXCEPT ![p] = FirstLabel(p)]
    /\ seen' = [seen EXCEPT ![p] = {db[L(p)]}]
    /\ Step(p, "invoke")
    /\ UNCHANGED <<db, conn, tx, lk, ip, snap, dec, res, faults, crashed, acked>>

\* the operation returns to its caller: the result becomes visible (and, for C06, acknowledged)
Return(p, r) ==
    /\ res' = [res EXCEPT ![p] = Append(@, r)]
    /\ ip' = [ip EXCEPT ![p] = @ + 1]
    /\ acked' = IF r.v = "Accept" THEN [acked EXCEPT ![L(p)] = r.val] ELSE acked
    /\ pc' = [pc EXCEPT ![p] = IF EagerInvoke /\ ip[p] + 1 <= Len(Prog[p])
                              THEN (IF Prog[p][ip[p] + 1].kind = "read" THEN "rops" ELSE "wops") ELSE "idle"]

\* ---- update ----------------------------------------------------------------
WriteOps(p) ==
    /\ ~crashed /\ pc[p] = "wops"
    /\ IF Store = "Sql1" THEN conn = 0 /\ conn' = p ELSE UNCHANGED conn
    /\ snap' = [snap EXCEPT ![p] = db[L(p)]]          \* InMem: the snapshot; Sql1: overwritten by GetLatest
    /\ pc' = [pc EXCEPT ![p] = "get"]
    /\ seen' = [seen EXCEPT ![p] = IF EagerInvoke THEN {db[L(p)]} ELSE @ \cup {db[L(p)]}]
    /\ Step(p, "WriteOps")
    /\ UNCHANGED <<db, tx, lk, ip, dec, res, faults, crashed, acked>>

WriteOpsFail(p) ==
    /\ ~crashed /\ pc[p] = "wops" /\ faults < MaxFaults
    /\ (Store = "Sql1" => conn = 0)
    /\ faults' = faults + 1
    /\ seen' = [seen EXCEPT ![p] = IF EagerInvoke THEN {db[L(p)]} ELSE @]
    /\ Return(p, StorageErr)             \* no handle was obtained: nothing to close
    /\ Step(p, "WriteOpsFail")
    /\ UNCHANGED <<db, conn, tx, lk, snap, dec, crashed>>

GetLatest(p) ==
    /\ ~crashed /\ pc[p] = "get"
    /\ LET cur == IF IsSql THEN db[L(p)] ELSE snap[p]
           d == Decide(TRUE, cur, Op(p).req)
       IN /\ snap' = [snap EXCEPT ![p] = cur]
          /\ dec' = [dec EXCEPT ![p] = d]
          /\ pc' = [pc EXCEPT ![p] = IF d.write THEN "set" ELSE "close"]
    /\ lk' = IF Store = "SqlN" THEN [lk EXCEPT !.sh = @ \cup {p}] ELSE lk     \* SHARED, kept until the transaction ends
    /\ Step(p, "GetLatest")
    /\ UNCHANGED <<db, conn, tx, ip, res, seen, faults, crashed, acked>>

\* a read error that is NOT NotFound: the update must fail, never fall back to first use
GetLatestFail(p) ==
    /\ ~crashed /\ pc[p] = "get" /\ faults < MaxFaults
    /\ faults' = faults + 1
    /\ dec' = [dec EXCEPT ![p] = StorageErr]
    /\ pc' = [pc EXCEPT ![p] = "close"]
    /\ Step(p, "GetLatestFail")
    /\ UNCHANGED <<db, conn, tx, lk, ip, snap, res, seen, crashed, acked>>

\* InMem: compare-and-set.  Sql1 without driver steps: Exec + Commit in one step.
Set(p) ==
    /\ ~crashed /\ pc[p] = "set" /\ ~(IsSql /\ DriverSteps)
    /\ LET d == dec[p]
           ok == Store = "Sql1" \/ db[L(p)] = snap[p]
       IN IF ok
          THEN /\ db' = [db EXCEPT ![L(p)] = d.new]
               /\ dec' = [dec EXCEPT ![p] = [v |-> d.v, ret |-> d.ret, val |-> d.new]]
               /\ Observe([db EXCEPT ![L(p)] = d.new])
          ELSE /\ dec' = [dec EXCEPT ![p] = StorageErr]
               /\ UNCHANGED <<db, seen>>
    /\ IF Store = "Sql1" THEN conn' = 0 ELSE UNCHANGED conn   \* Commit releases the connection
    /\ pc' = [pc EXCEPT ![p] = "close"]
    /\ Step(p, "Set")
    /\ UNCHANGED <<tx, lk, ip, snap, res, faults, crashed, acked>>

SetFail(p) ==         \* fails before anything is applied
    /\ ~crashed /\ pc[p] = "set" /\ faults < MaxFaults
    /\ faults' = faults + 1
    /\ dec' = [dec EXCEPT ![p] = StorageErr]
    /\ pc' = [pc EXCEPT ![p] = "close"]
    /\ Step(p, "SetFail")
    /\ UNCHANGED <<db, conn, tx, lk, ip, snap, res, seen, crashed, acked>>

\* Sql1 / SqlN at driver granularity
Exec(p) ==
    /\ ~crashed /\ pc[p] = "set" /\ IsSql /\ DriverSteps
    /\ (Store = "SqlN" => lk.rs \in {0, p})
    /\ lk' = IF Store = "SqlN" THEN [lk EXCEPT !.rs = p] ELSE lk          \* RESERVED
    /\ tx' = [tx EXCEPT ![p] = dec[p].new]
    /\ pc' = [pc EXCEPT ![p] = "commit"]
    /\ Step(p, "Exec")
    /\ UNCHANGED <<db, conn, ip, snap, dec, res, seen, faults, crashed, acked>>

\* SqlN: another transaction holds RESERVED while this one holds SHARED: SQLite answers SQLITE_BUSY at once
\* (waiting would be a deadlock); the statement fails, the transaction stays open until Close rolls it back
ExecBusy(p) ==
    /\ ~crashed /\ pc[p] = "set" /\ Store = "SqlN"
    /\ lk.rs \notin {0, p}
    /\ dec' = [dec EXCEPT ![p] = StorageErr]
    /\ pc' = [pc EXCEPT ![p] = "close"]
    /\ Step(p, "ExecBusy")
    /\ UNCHANGED <<db, conn, tx, lk, ip, snap, res, seen, faults, crashed, acked>>

Commit(p) ==
    /\ ~crashed /\ pc[p] = "commit"
    /\ (Store = "SqlN" => lk.sh \ {p} = {})       \* EXCLUSIVE: waits (busy handler) until the other readers are gone
    /\ lk' = Release(p)
    /\ db' = [db EXCEPT ![L(p)] = tx[p]]
    /\ Observe([db EXCEPT ![L(p)] = tx[p]])
    /\ dec' = [dec EXCEPT ![p] = [v |-> dec[p].v, ret |-> dec[p].ret, val |-> tx[p]]]
    /\ tx' = [tx EXCEPT ![p] = None]
    /\ conn' = 0
    /\ pc' = [pc EXCEPT ![p] = "close"]
    /\ Step(p, "Commit")
    /\ UNCHANGED <<ip, snap, res, faults, crashed, acked>>

CommitFail(p) ==      \* the driver reports failure and has rolled back
    /\ ~crashed /\ pc[p] = "commit" /\ faults < MaxFaults
    /\ faults' = faults + 1
    /\ tx' = [tx EXCEPT ![p] = None]
    /\ conn' = 0
    /\ dec' = [dec EXCEPT ![p] = StorageErr]
    /\ pc' = [pc EXCEPT ![p] = "close"]
    /\ lk' = Release(p)
    /\ Step(p, "CommitFail")
    /\ UNCHANGED <<db, ip, snap, res, seen, crashed, acked>>

Close(p) ==
    /\ ~crashed /\ pc[p] = "close"
    /\ conn' = IF conn = p THEN 0 ELSE conn                  \* Rollback if the transaction is still open
    /\ tx' = [tx EXCEPT ![p] = None]
    /\ Return(p, dec[p])
    /\ lk' = Release(p)
    /\ Step(p, "Close")
    /\ UNCHANGED <<db, snap, dec, seen, faults, crashed>>

\* Close reports an error; the code ignores it.  The rollback itself has happened (or the transaction was done).
CloseFail(p) ==
    /\ ~crashed /\ pc[p] = "close" /\ faults < MaxFaults
    /\ faults' = faults + 1
    /\ conn' = IF conn = p THEN 0 ELSE conn
    /\ tx' = [tx EXCEPT ![p] = None]
    /\ Return(p, dec[p])
    /\ lk' = Release(p)
    /\ Step(p, "CloseFail")
    /\ UNCHANGED <<db, snap, dec, seen, crashed>>

\* ---- read --------------------------------------------------------------------
ReadOps(p) ==
    /\ ~crashed /\ pc[p] = "rops"
    /\ snap' = [snap EXCEPT ![p] = db[L(p)]]
    /\ pc' = [pc EXCEPT ![p] = "rget"]
    /\ seen' = [seen EXCEPT ![p] = IF EagerInvoke THEN {db[L(p)]} ELSE @ \cup {db[L(p)]}]
    /\ Step(p, "ReadOps")
    /\ UNCHANGED <<db, conn, tx, lk, ip, dec, res, faults, crashed, acked>>

ReadGet(p) ==
    /\ ~crashed /\ pc[p] = "rget"
    /\ (Store = "Sql1" => conn = 0)
    /\ LET cur == IF IsSql THEN db[L(p)] ELSE snap[p]
       IN Return(p, [v |-> "Read", ret |-> "val", val |-> cur])
    /\ Step(p, "GetLatest")
    /\ UNCHANGED <<db, conn, tx, lk, snap, dec, seen, faults, crashed>>

\* a reader's GetLatest fails (non-NotFound): the read returns an error, nothing is held afterwards
ReadGetFail(p) ==
    /\ ~crashed /\ pc[p] = "rget" /\ faults < MaxFaults
    /\ (Store = "Sql1" => conn = 0)
    /\ faults' = faults + 1
    /\ Return(p, StorageErr)
    /\ Step(p, "ReadGetFail")
    /\ UNCHANGED <<db, conn, tx, lk, snap, dec, seen, crashed>>

\* ---- crash ----------------------------------------------------------------------
Crash ==
    /\ ~crashed /\ MaxCrash > 0
    /\ \E p \in Procs : ~Idle(p)          \* something is in progress
    /\ crashed' = TRUE
    /\ conn' = 0 /\ tx' = [p \in Procs |-> None] /\ lk' = NoLocks     \* volatile state is gone, db stays
    /\ Step(0, "Crash")
    /\ UNCHANGED <<db, pc, ip, snap, dec, res, seen, faults, acked>>

ProcStep(p) ==
    \/ (~EagerInvoke /\ Invoke(p))
    \/ WriteOps(p) \/ WriteOpsFail(p) \/ GetLatest(p) \/ GetLatestFail(p)
    \/ Set(p) \/ SetFail(p) \/ Exec(p) \/ ExecBusy(p) \/ Commit(p) \/ CommitFail(p) \/ Close(p) \/ CloseFail(p)
    \/ ReadOps(p) \/ ReadGet(p) \/ ReadGetFail(p)

Next == (\E p \in Procs : ProcStep(p)) \/ Crash

\* with EagerInvoke the first operation of every process is pending from the start
InitE == /\ db = Db0 /\ conn = 0 /\ tx = [p \in Procs |-> None] /\ lk = NoLocks
         /\ ip = [p \in Procs |-> 1]
         /\ pc = [p \in Procs |-> IF ~EagerInvoke \/ Len(Prog[p]) = 0 THEN "idle"
                                  ELSE IF Prog[p][1].kind = "read" THEN "rops" ELSE "wops"]
         /\ snap = [p \in Procs |-> None] /\ dec = [p \in Procs |-> NoDec]
         /\ res = [p \in Procs |-> <<>>] /\ seen = [p \in Procs |-> {}]
         /\ faults = 0 /\ crashed = FALSE /\ acked = Db0 /\ sched = <<>>

Spec == InitE /\ [][Next]_vars

-----------------------------------------------------------------------------
\* every change of the stored value is an Accept of the atomic machine evaluated on the value
\* db[l] holds AT THE COMMIT STEP (never on a state that was no longer current)
CommitIsAtomicAccept ==
    [][\A l \in Logs : db'[l] # db[l] =>
          \E p \in Procs : /\ pc[p] \in {"set", "commit"} /\ L(p) = l
                           /\ Decide(TRUE, db[l], Op(p).req).v = "Accept"
                           /\ db'[l] = Decide(TRUE, db[l], Op(p).req).new]_vars

\* committed state never regresses (hence no reader sees a size go down)
NoRegress ==
    [][\A l \in Logs : db[l] # None => db'[l] # None /\ (Extends(db[l], db'[l]) \/ SameTree(db[l], db'[l]))]_vars

\* a finished operation's outcome is that of the atomic machine on some value the log held during the operation
Linearizable ==
    [][\A p \in Procs : Len(res'[p]) > Len(res[p]) =>
          LET o == Op(p)
              r == res'[p][Len(res'[p])]
          IN \/ r.v = "StorageErr"
             \/ (o.kind = "read" /\ r.val \in seen[p] \cup seen'[p])
             \/ (o.kind = "update" /\ \E s \in seen[p] \cup seen'[p] :
                     LET d == Decide(TRUE, s, o.req) IN d.v = r.v /\ d.ret = r.ret)]_vars

\* without injected faults a storage error happens only if somebody else wrote to the same log meanwhile
ErrOnlyOnConflict ==
    [][\A p \in Procs : (Len(res'[p]) > Len(res[p]) /\ res'[p][Len(res'[p])].v = "StorageErr" /\ faults' = 0)
          => Cardinality(seen[p] \cup seen'[p]) > 1]_vars

\* C07: whenever no call is in progress, no transaction is open and the connection is free
NoLeak == (\A p \in Procs : Idle(p) \/ ~HasOp(p) \/ pc[p] \in {"wops", "rops"}) => (conn = 0 /\ lk = NoLocks /\ \A p \in Procs : tx[p] = None)

\* C07: a failed read of the previous checkpoint never leads to an accept
NoTofuOnReadError ==
    [][\A p \in Procs : pc[p] = "get" /\ pc'[p] = "close" /\ dec'[p] = StorageErr => db' = db]_vars

\* C06: after a crash every log holds the value before the interrupted update or the one being written,
\* and every acknowledged update is still in force or consistently superseded
OldOrNew ==
    crashed => \A l \in Logs :
        /\ (acked[l] # None => db[l] # None /\ (Extends(acked[l], db[l]) \/ SameTree(acked[l], db[l])))
        /\ (db[l] # acked[l] => \E p \in Procs : HasOp(p) /\ ~Idle(p) /\ L(p) = l /\ Op(p).kind = "update"
                                                /\ db[l] = Signed(Op(p).req))

AllDone == \A p \in Procs : ~HasOp(p)
Terminal == AllDone \/ crashed
ViewNoSched == <<db, conn, tx, lk, pc, ip, snap, dec, res, seen, faults, crashed, acked>>
\* generator: one line per complete behaviour (use without VIEW so that every schedule is a distinct path)
EmitSched == Terminal => PrintT("SCHED " \o ToJson([sched |-> sched, res |-> res, db |-> db, crashed |-> crashed, acked |-> acked, faults |-> faults]))
=============================================================================
