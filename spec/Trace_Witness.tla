--------------------------- MODULE Trace_Witness ---------------------------
(***************************************************************************)
(* Judge for the sequential family.  Reads the ndjson trace recorded from  *)
(* the real witness, sets the specification's variables to what the        *)
(* IMPLEMENTATION did (projected by the harness), and evaluates the        *)
(* property formulas of Witness.tla on every observed step.                *)
(* Failures are reported by a non-fatal monitor so that one pass lists     *)
(* every failing step with its trace position.                             *)
(***************************************************************************)
EXTENDS Witness

CONSTANT TraceFile
VARIABLES i, hist, memo   \* memo: final state of phase 0 of a multi-phase run (C12)

Trace == ndJsonDeserialize(TraceFile)
tvars == <<stored, last, ctr, hist, i, memo>>
Ev == Trace[i]

NoneAll  == [l \in Logs |-> None]
ZeroCtr  == [l \in Logs |-> Ctr0]
NoHist   == [l \in Logs |-> <<>>]

NoMemo == [none |-> TRUE]
TraceInit == stored = NoneAll /\ last = [a |-> "init"] /\ ctr = ZeroCtr /\ hist = NoHist /\ i = 1 /\ memo = NoMemo

Reset == /\ Ev.e = "reset"
         /\ stored' = NoneAll /\ last' = [a |-> "reset"] /\ hist' = NoHist
         \* later phases of a run share the origins (hence the process-global counters) of phase 0
         /\ ctr' = IF Ev.phase > 0 THEN ctr ELSE ZeroCtr
         /\ memo' = IF Ev.phase > 0 THEN memo ELSE NoMemo
         /\ i' = i + 1

ObsUpdate ==
    /\ Ev.e = "update"
    /\ stored' = [l \in Logs |-> Ev.stored[l]]
    /\ last' = [a |-> "update", log |-> Ev.log, req |-> Ev.req, v |-> Ev.v, ret |-> Ev.ret]
    /\ ctr' = [l \in Logs |-> Ev.ctr[l]]
    /\ hist' = IF Ev.v = "Accept" /\ Ev.log \in Logs
               THEN [hist EXCEPT ![Ev.log] = Append(@, Ev.retcp)] ELSE hist
    /\ memo' = memo
    /\ i' = i + 1

ObsGet ==
    /\ Ev.e = "get"
    /\ last' = [a |-> "get", log |-> Ev.log, val |-> Ev.val]
    /\ UNCHANGED <<stored, ctr, hist, memo>>
    /\ i' = i + 1

SeqToSet(s) == {s[j] : j \in DOMAIN s}
ObsGetLogs ==
    /\ Ev.e = "getlogs"
    /\ last' = [a |-> "getlogs", val |-> SeqToSet(Ev.val)]
    /\ UNCHANGED <<stored, ctr, hist, memo>>
    /\ i' = i + 1

\* a request for a syntactically odd id over HTTP (state is not touched)
ObsOdd == Ev.e = "getodd" /\ last' = [a |-> "getodd"] /\ UNCHANGED <<stored, ctr, hist, memo>> /\ i' = i + 1

\* end of a phase: phase 0 (the interleaved history) is remembered, later phases (one log's history alone) are compared
ObsFinal ==
    /\ Ev.e = "final"
    /\ last' = [a |-> "final"]
    /\ memo' = IF Ev.phase = 0 THEN [stored |-> Ev.stored, fp |-> Ev.fp] ELSE memo
    /\ UNCHANGED <<stored, ctr, hist>>
    /\ i' = i + 1

\* a step the concretiser could not render under the current embedding (see world.Coincides)
ObsSkip == Ev.e = "skip" /\ UNCHANGED <<stored, last, ctr, hist, memo>> /\ i' = i + 1

\* the harness replaced the stored bytes of one log by the same checkpoint as an earlier incarnation of the witness would have left it
\* (other cosignature time, fewer witness lines): same tree, possibly another number of signature lines
ObsRestore == /\ Ev.e = "restore"
              /\ stored' = [l \in Logs |-> Ev.stored[l]]
              /\ UNCHANGED <<last, ctr, hist, memo>> /\ i' = i + 1

\* an environment step of Witness.tla that only reads (a pass of the witness' own REST distributor): the model's state does not move
ObsEnvStep == Ev.e = "envstep" /\ UNCHANGED <<stored, last, ctr, hist, memo>> /\ i' = i + 1
\* the witness was restarted on the same database (a change of the log list is judged by Trace_Retire; here the configuration is fixed)
ObsConf == Ev.e = "conf" /\ UNCHANGED <<stored, last, ctr, hist, memo>> /\ i' = i + 1
TraceNext == i <= Len(Trace) /\ (ObsConf \/ Reset \/ ObsUpdate \/ ObsGet \/ ObsGetLogs \/ ObsSkip \/ ObsRestore \/ ObsOdd \/ ObsFinal \/ ObsEnvStep)
TraceSpec == TraceInit /\ [][TraceNext]_tvars

-----------------------------------------------------------------------------
\* C01 on the list of cosigned outputs: the newest one extends every earlier one
ChainOK(h) ==
    \A l \in Logs : \A j \in 1..(Len(h[l]) - 1) :
        LET a == h[l][j]
            z == h[l][Len(h[l])]
        IN a.n <= z.n /\ (a.n = z.n => SameTree(a, z)) /\ (Extends(a, z) \/ SameTree(a, z))

\* independent verdict of the reference verifier on the concrete proof bytes vs the abstract class
RefAgrees(st, req, refok) ==
    refok = "na" \/ st = None \/
    LET abs == IF st.n = req.n THEN req.pf.k = "empty" /\ SameTree(st, [b |-> req.b, n |-> req.n])
               ELSE IF st.n = 0 THEN req.pf.k = "empty"
               ELSE VerifyOK(st.b, st.n, req.b, req.n, req.pf)
    IN (refok = "yes") = abs

ShapeOK(sh) ==
    /\ sh.text /\ sh.logsig /\ sh.cosig = 1 /\ sh.forged = 0
    /\ (NWitKeys = 2 => sh.legacy = 1) /\ (NWitKeys = 1 => sh.legacy = 0)
    /\ sh.ts /\ sh.readback

\* one line per failing step (a string, so that TLC does not wrap it)
Say(kind, id, name, sig) == PrintT(kind \o " " \o ToJson([id |-> id, name |-> name, i |-> i, run |-> Ev.run, k |-> Ev.k, sig |-> sig]))
Check(id, name, ok) == ok \/ Say("FAIL", id, name, "-")

\* C07: storage failures never cause trust-on-first-use, false success or a wedge
Fired == SeqToSet(Ev.fired)
MonFault(la, st, known, honest) ==
    /\ Check("C07", "NoFalseSuccess", la.v = "Accept" => Ev.shape.readback /\ Ev.retcp = stored'[la.log] /\ la.ret = "new")
    /\ Check("C07", "FailedReadIsNotFirstUse",
             (Fired \cap {"GetLatest", "query", "next", "WriteOps", "begin"}) # {} => la.v # "Accept" /\ Ev.unchanged)
    /\ Check("C07", "FailureHasNoEffect", (Fired \ {"Close", "rollback"}) # {} /\ la.v # "Accept" => Ev.unchanged /\ la.ret \in {"nil", "prev"})
    /\ Check("C07", "NeverRegresses", AppendOnlyStep(stored, stored'))
    \* C05: the outcome is the one the atomic witness gives on the state that WAS current, or a storage error without effect
    \* (a store that reported trouble on the way is no licence to decide on some other state: "nothing stored", a stale copy)
    /\ Check("C05", "DecidedOnTheCurrentStateOrStorageErrorWithoutEffect",
             ConformsStep(stored, stored', la) \/ (Fired # {} /\ la.v # "Accept" /\ Ev.unchanged))
    \* C01: the one history is the chain of STORED checkpoints - a cosignature handed out for a checkpoint that is not held afterwards (a write or
    \* commit that failed quietly) is outside it: the next request is checked against the older one and a fork of the lost step can be cosigned
    /\ Check("C01", "WhatWasCosignedIsWhatIsHeld", la.v = "Accept" => Ev.shape.readback /\ Ev.retcp = stored'[la.log])
    \* C09: a store in trouble may make the witness answer with an internal error, never with a protocol verdict that is not the first matching
    \* rule on the state that was current ("nothing stored yet" is a rule about the STORE'S CONTENT, not about a read that failed)
    /\ Check("C09", "ProtocolVerdictUnderStorageTroubleIsStillTheFirstMatch",
             la.v \in {"Accept", "OldSizeInvalid", "Stale", "RootMismatch", "InvalidProof", "NoValidSig", "UnknownLog"} => FirstMatchStep(stored, la))
    /\ Check("C07", "NoLeak", Ev.opentx = 0 /\ Ev.inuse = 0 /\ la.v # "Hang")
    \* once the errors stop the witness carries on from the last committed state
    /\ Check("C07", "CarriesOn", Fired = {} /\ honest /\ ~(st # None /\ st.n = 0 /\ la.req.n > 0) => la.v = "Accept")
    /\ Check("C07", "CarriesOnRefusing", Fired = {} => RefusalNoEffectStep(stored, stored', la) /\ AuthenticStep(stored, stored', la))

MonUpdate ==
    LET la == last'
        l == la.log
        known == l \in Logs
        st == IF known THEN stored[l] ELSE None
        \* (an honest checkpoint bears just the log's signature line; it may carry extension lines)
        honest == known /\ (\E x \in {0, 1} : la.req = [HonestReq(st, la.req.n) EXCEPT !.ext = x]) /\ OnMain(st) /\ (st = None \/ la.req.n >= st.n)
    IN
    /\ Check("C01", "AppendOnly", AppendOnlyStep(stored, stored'))
    /\ Check("C01", "Chain", ChainOK(hist'))
    /\ Check("C02", "Authentic", AuthenticStep(stored, stored', la))
    /\ Check("C03", "RefusalNoEffect", RefusalNoEffectStep(stored, stored', la) /\ (la.v # "Accept" => Ev.unchanged))
    /\ Check("C04", "AcceptShape", AcceptShapeStep(stored, stored', la) /\ (la.v = "Accept" => ShapeOK(Ev.shape) /\ Ev.retcp = stored'[l]))
    \* (a step during which a storage failure was injected, or whose caller went away, may be refused: C08 is about what the witness does
    \*  with a working store; the probes that FOLLOW such a step are judged)
    /\ (honest /\ la.v # "Accept" /\ ~(Ev.frun /\ Ev.fired # <<>>) =>
           Say("FAIL", "C08", "HonestProgress",
               IF st # None /\ st.n = 0 /\ la.req.n > 0 /\ la.v = "InvalidProof" THEN "zero-size-wedge"
               ELSE IF st # None /\ st.lines > MaxLines THEN "stored-note-over-signature-limit"
               ELSE "other"))
    \* (a step during which a storage failure was injected may be answered with an internal error: MonFault's C09 formula judges those)
    /\ Check("C09", "FirstMatch", (Ev.frun /\ Ev.fired # <<>>) \/ FirstMatchStep(stored, la))
    /\ Check("C12", "Isolation", IsolationStep(stored, stored', la))
    /\ Check("C12", "OtherLogsCheckpointNeverFiledHere", la.req.auth \in {"peercp", "wrongorigin"} => la.v # "Accept" /\ stored' = stored)
    \* C12: an id that is not a configured id is not configured, however close its spelling (letter case, white space) comes to one: the log's
    \* own checkpoint submitted under it is refused outright, nothing is filed under a second name
    /\ Check("C12", "NoSecondSpellingOfALogsIdentity", ~known => la.v = "UnknownLog" /\ stored' = stored /\ Ev.unchanged)
    /\ Check("C16", "LogList", SeqToSet(Ev.loglist) = {m \in Logs : stored'[m] # None})
    /\ Check("C20", "Counters", CountersStep(ctr, ctr', la))
    /\ (Ev.frun => MonFault(la, st, known, honest))
    /\ Check("DRIFT", "Conforms", (Ev.frun /\ Ev.fired # <<>>) \/ ConformsStep(stored, stored', la))
    /\ Check("ORACLE", "RefAgrees", ~known \/ la.req.auth # "good" \/ RefAgrees(st, la.req, Ev.refok))

MonGet ==
    /\ Check("C16", "ReadExact", ReadExactStep(stored, stored', last'))
    \* C04 speaks about reads too: "every latest-checkpoint read is a note whose text is the log's, with the log's signature and exactly one valid
    \* signature of each witness key" - the projection of the bytes read (tree, extension, number of valid lines) is that of the note last accepted
    /\ Check("C04", "ReadIsTheCosignedNoteLastAccepted", Ev.failed \/ ReadExactStep(stored, stored', last'))
    \* C05: reads are part of the one order compatible with real time - a read that started after an update returned sees that update
    \* (the driver records a read when it STARTED after every earlier step had returned; held-back reads are recorded where they may lie)
    /\ Check("C05", "ReadIsInRealTimeOrderWithTheUpdates", Ev.failed \/ ReadExactStep(stored, stored', last'))
    \* ... and the bundled HTTP client hands the caller those bytes, all of them, however long the checkpoint is
    /\ Check("C04", "ClientReadIsTheWholeNote", Ev.failed \/ ~(Ev.status = 200 /\ Ev.log \in Logs /\ stored[Ev.log] # None) \/ Ev.client = "bytes")
    \* C07: a read never leaves a transaction or the connection behind, and only fails when a failure was injected
    /\ (Ev.frun => /\ Check("C07", "ReadLeavesNothingOpen", Ev.opentx = 0 /\ Ev.inuse = 0)
                    /\ Check("C07", "ReadFailsOnlyOnInjectedFailure", Ev.failed => Ev.fired # <<>>))
    \* C16: a read that could not be served says so - it is never answered "there is no checkpoint" for a log that has one
    /\ Check("C16", "FailedReadIsNotNoCheckpoint",
             Ev.frun /\ Ev.fired # <<>> /\ Ev.log \in Logs /\ stored[Ev.log] # None => Ev.status # 404 /\ Ev.client # "notexist")
    /\ Check("C16", "ReadBytes",
             \* (a read the service could not serve - and said so - has no bytes to compare; FailedReadIsNotNoCheckpoint judges what it answered)
             Ev.failed \/
             (Ev.exact /\ LET has == Ev.log \in Logs /\ stored[Ev.log] # None
                         IN /\ (has => Ev.client = "bytes" /\ Ev.status \in {0, 200})
                            /\ (~has => Ev.client = "notexist" /\ Ev.status \in {0, 404})))

MonGetLogs ==
    Check("C16", "LogListExact", Ev.ok /\ ReadExactStep(stored, stored', last'))

\* C16: an odd id yields 404, or - when its cleaned path names a log that has a checkpoint - that log's bytes;
\* never another log's checkpoint, never anything else
MonOdd ==
    Check("C16", "OddId",
          /\ Ev.first \in {200, 404, 301, 308}
          /\ (Ev.first \in {301, 308} => Ev.locok)
          /\ Ev.final \in {200, 404}
          /\ (Ev.final = 200 => Ev.names \in Logs /\ Ev.served = Ev.names /\ stored[Ev.names] # None)
          /\ (Ev.first = 200 => Ev.final = 200))

\* C12: the history of one log run alone ends in exactly the state it reaches when interleaved with the others
MonFinal ==
    Check("C12", "AloneEqualsInterleaved",
          /\ \A l \in Logs : Ev.stored[l] = stored[l]
          /\ (Ev.phase > 0 /\ Ev.only \in Logs =>
                /\ Ev.stored[Ev.only] = memo.stored[Ev.only] /\ Ev.fp[Ev.only] = memo.fp[Ev.only]
                /\ \A l \in Logs \ {Ev.only} : Ev.stored[l] = None))

Monitor ==
    CASE Ev.e = "update"  -> MonUpdate
      [] Ev.e = "getodd"  -> MonOdd
      [] Ev.e = "final"   -> MonFinal
      [] Ev.e = "get"     -> MonGet
      [] Ev.e = "getlogs" -> MonGetLogs
      \* a reader inside the process leaves every byte of the store as it was: otherwise what was accepted is no longer what is held (C01, C04, C16),
      \* a refusal-free step has had an effect (C03), and the next honest step may find a note it cannot open (C08)
      [] Ev.e = "envstep" -> /\ Check("C01", "ReaderInsideTheProcessChangesNothing", Ev.unchanged)
                             /\ Check("C03", "ReaderInsideTheProcessChangesNothing", Ev.unchanged)
                             /\ Check("C04", "ReaderInsideTheProcessChangesNothing", Ev.unchanged)
                             /\ Check("C08", "ReaderInsideTheProcessChangesNothing", Ev.unchanged)
                             /\ Check("C16", "ReaderInsideTheProcessChangesNothing", Ev.unchanged)
      \* (a check of the harness itself: the replacement keeps tree and extension, and touches no other log)
      [] Ev.e = "restore" -> Check("ORACLE", "RestoreKeepsTheCheckpoint",
                                   \A l \in Logs : (stored[l] = None) = (Ev.stored[l] = None)
                                                    /\ (stored[l] # None => SameTree(stored[l], Ev.stored[l]) /\ stored[l].ext = Ev.stored[l].ext))
      [] OTHER            -> TRUE

Done == TLCGet("stats").diameter - 1 = Len(Trace)
=============================================================================
