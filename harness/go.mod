module github.com/transparency-dev/witness/verifharness

go 1.23.0

require (
	github.com/cenkalti/backoff/v4 v4.3.0
	github.com/gorilla/mux v1.8.1
	github.com/mattn/go-sqlite3 v1.14.28
	github.com/transparency-dev/formats v0.0.0-20241003145927-a04dcc2a37e4
	github.com/transparency-dev/merkle v0.0.3-0.20240919113952-3c979d16ee14
	github.com/transparency-dev/serverless-log v0.0.0-20240408141044-5d483a81bdb7
	github.com/transparency-dev/witness v0.0.0
	golang.org/x/mod v0.24.0
	golang.org/x/net v0.39.0
	golang.org/x/sync v0.13.0
	golang.org/x/time v0.11.0
	google.golang.org/grpc v1.71.1
	gopkg.in/yaml.v3 v3.0.1
	k8s.io/klog/v2 v2.130.1
)

require (
	github.com/go-logr/logr v1.4.2 // indirect
	github.com/transparency-dev/trillian-tessera v0.1.1 // indirect
	golang.org/x/sys v0.32.0 // indirect
	golang.org/x/text v0.24.0 // indirect
	google.golang.org/genproto/googleapis/rpc v0.0.0-20250227231956-55c901821b1e // indirect
	google.golang.org/protobuf v1.36.5 // indirect
)

replace github.com/transparency-dev/witness => /repo
