/* LD_PRELOAD interposer for the crash harness (C06): counts the write system calls the process makes on ONE file (the SQLite database
 * file, not its journal) and kills the process, with SIGKILL, right BEFORE the n-th of them. Kill points at this granularity fall inside
 * SQLite's COMMIT, between the page writes of one transaction.
 *   VERIF_KILL_FILE   absolute path of the file to watch
 *   VERIF_KILL_WRITE  0-based index of the write to die at (-1 / unset: never)
 *   VERIF_COUNT_FILE  if set, the number of writes seen is written there when the process exits normally
 */
#define _GNU_SOURCE
#include <dlfcn.h>
#include <signal.h>
#include <stdio.h>
#include <stdlib.h>
#include <string.h>
#include <sys/types.h>
#include <unistd.h>

static const char *target;
static long kill_at = -1;
static volatile long counter;
static int inited;

static void init(void) {
	if (inited) return;
	inited = 1;
	target = getenv("VERIF_KILL_FILE");
	const char *k = getenv("VERIF_KILL_WRITE");
	if (k) kill_at = atol(k);
}

static int watched(int fd) {
	char p[64], buf[4096];
	if (!target) return 0;
	snprintf(p, sizeof p, "/proc/self/fd/%d", fd);
	ssize_t n = readlink(p, buf, sizeof buf - 1);
	if (n <= 0) return 0;
	buf[n] = 0;
	return strcmp(buf, target) == 0;
}

static void tick(int fd) {
	init();
	if (!watched(fd)) return;
	long c = __sync_fetch_and_add(&counter, 1);
	const char *f = getenv("VERIF_COUNT_FILE"); /* (a Go program leaves through exit_group: no destructor runs, so the count is kept on disk) */
	if (f) {
		FILE *o = fopen(f, "w");
		if (o) { fprintf(o, "%ld\n", c + 1); fclose(o); }
	}
	if (c == kill_at) {
		raise(SIGKILL);
		for (;;) pause();
	}
}

ssize_t pwrite64(int fd, const void *b, size_t n, off64_t o) {
	static ssize_t (*real)(int, const void *, size_t, off64_t);
	if (!real) real = dlsym(RTLD_NEXT, "pwrite64");
	tick(fd);
	return real(fd, b, n, o);
}

ssize_t pwrite(int fd, const void *b, size_t n, off_t o) {
	static ssize_t (*real)(int, const void *, size_t, off_t);
	if (!real) real = dlsym(RTLD_NEXT, "pwrite");
	tick(fd);
	return real(fd, b, n, o);
}

ssize_t write(int fd, const void *b, size_t n) {
	static ssize_t (*real)(int, const void *, size_t);
	if (!real) real = dlsym(RTLD_NEXT, "write");
	if (fd > 2) tick(fd);
	return real(fd, b, n);
}

