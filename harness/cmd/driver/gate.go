package main

import (
	"errors"
	"strings"
	"sync"
	"time"

	"github.com/transparency-dev/witness/internal/persistence"
)

// errInjected is the storage failure the harness injects (not a NotFound).
var errInjected = errors.New("verif: injected storage failure")

// ---- gate scheduler: exactly one process runs at a time, the schedule says which ----

type arrival struct {
	kind string // gate | ret | end
	name string
}

type directive struct {
	fail bool
}

type gateSched struct {
	arr   map[int]chan arrival
	rel   map[int]chan directive
	at    map[int]string // gate the process is waiting at ("" = none)
	ended map[int]bool
	mu    sync.Mutex
	calls []opCall // every storage call in completion order
	drift []string
	wait  time.Duration
	onOp  func(opCall) // called for every completed storage call, in completion order
}

type opCall struct {
	P    int    `json:"p"`
	Name string `json:"name"`
	Res  string `json:"res"`
}

func newGateSched(pids []int) *gateSched {
	g := &gateSched{arr: map[int]chan arrival{}, rel: map[int]chan directive{}, at: map[int]string{}, ended: map[int]bool{}, wait: 2 * time.Second}
	for _, p := range pids {
		g.arr[p] = make(chan arrival, 16)
		g.rel[p] = make(chan directive)
	}
	return g
}

// gate is called by a process before a storage call; it returns when the scheduler lets the call proceed.
func (g *gateSched) gate(pid int, name string) directive {
	g.arr[pid] <- arrival{kind: "gate", name: name}
	return <-g.rel[pid]
}

func (g *gateSched) called(pid int, name string, err error) {
	res := "ok"
	if err != nil {
		res = "err"
	}
	g.mu.Lock()
	c := opCall{P: pid, Name: name, Res: res}
	g.calls = append(g.calls, c)
	f := g.onOp
	g.mu.Unlock()
	if f != nil {
		f(c)
	}
}

// settle waits until process p is at a gate, has ended, or is blocked inside a call (timeout).
func (g *gateSched) settle(p int, d time.Duration) {
	t := time.NewTimer(d)
	defer t.Stop()
	for {
		select {
		case a := <-g.arr[p]:
			switch a.kind {
			case "gate":
				g.at[p] = a.name
				return
			case "end":
				g.ended[p] = true
				return
			}
		case <-t.C:
			return // blocked inside the released call (e.g. waiting for the single SQL connection)
		}
	}
}

func (g *gateSched) poll() {
	for p := range g.arr {
		if g.at[p] == "" && !g.ended[p] {
			g.settle(p, time.Millisecond)
		}
	}
}

// modelGate maps a model action name to the storage call it stands for.
func modelGate(action string) string {
	a := strings.TrimSuffix(action, "Fail")
	switch a {
	case "Exec", "Commit":
		return "Set"
	}
	return a
}

// run forces the schedule, then lets whatever is left run freely (one process at a time).
func (g *gateSched) run(schedule [][2]any) {
	for p := range g.arr {
		g.settle(p, g.wait)
	}
	for _, e := range schedule {
		p := toInt(e[0])
		name, _ := e[1].(string)
		if name == "Crash" {
			continue
		}
		g.poll()
		if g.ended[p] || g.at[p] == "" {
			g.drift = append(g.drift, "process not at a gate for "+name)
			continue
		}
		if g.at[p] != modelGate(name) {
			g.drift = append(g.drift, "model "+name+" but the code calls "+g.at[p])
		}
		g.at[p] = ""
		g.rel[p] <- directive{fail: strings.HasSuffix(name, "Fail")}
		g.settle(p, g.wait)
	}
	deadline := time.Now().Add(20 * time.Second)
	for time.Now().Before(deadline) {
		g.poll()
		all := true
		progressed := false
		for p := range g.arr {
			if g.ended[p] {
				continue
			}
			all = false
			if g.at[p] != "" {
				g.at[p] = ""
				g.rel[p] <- directive{}
				g.settle(p, g.wait)
				progressed = true
				break
			}
		}
		if all {
			return
		}
		if !progressed {
			time.Sleep(time.Millisecond)
		}
	}
}

func toInt(v any) int {
	switch x := v.(type) {
	case float64:
		return int(x)
	case int:
		return x
	}
	return -1
}

// ---- gated / fault-injecting persistence ----

type gatedLSP struct {
	inner persistence.LogStatePersistence
	pid   int
	g     *gateSched
}

func (l *gatedLSP) Init() error             { return l.inner.Init() }
func (l *gatedLSP) Logs() ([]string, error) { return l.inner.Logs() }

func (l *gatedLSP) ReadOps(id string) (persistence.LogStateReadOps, error) {
	d := l.g.gate(l.pid, "ReadOps")
	if d.fail {
		l.g.called(l.pid, "ReadOps", errInjected)
		return nil, errInjected
	}
	r, err := l.inner.ReadOps(id)
	l.g.called(l.pid, "ReadOps", err)
	if err != nil {
		return nil, err
	}
	return &gatedRead{inner: r, l: l}, nil
}

func (l *gatedLSP) WriteOps(id string) (persistence.LogStateWriteOps, error) {
	d := l.g.gate(l.pid, "WriteOps")
	if d.fail {
		l.g.called(l.pid, "WriteOps", errInjected)
		return nil, errInjected
	}
	w, err := l.inner.WriteOps(id)
	l.g.called(l.pid, "WriteOps", err)
	if err != nil {
		return nil, err
	}
	return &gatedWrite{inner: w, l: l}, nil
}

type gatedRead struct {
	inner persistence.LogStateReadOps
	l     *gatedLSP
}

func (r *gatedRead) GetLatest() ([]byte, error) {
	d := r.l.g.gate(r.l.pid, "GetLatest")
	if d.fail {
		r.l.g.called(r.l.pid, "GetLatest", errInjected)
		return nil, errInjected
	}
	b, err := r.inner.GetLatest()
	r.l.g.called(r.l.pid, "GetLatest", nil)
	return b, err
}

type gatedWrite struct {
	inner persistence.LogStateWriteOps
	l     *gatedLSP
}

func (w *gatedWrite) GetLatest() ([]byte, error) {
	d := w.l.g.gate(w.l.pid, "GetLatest")
	if d.fail {
		w.l.g.called(w.l.pid, "GetLatest", errInjected)
		return nil, errInjected
	}
	b, err := w.inner.GetLatest()
	w.l.g.called(w.l.pid, "GetLatest", nil)
	return b, err
}

func (w *gatedWrite) Set(c []byte) error {
	d := w.l.g.gate(w.l.pid, "Set")
	if d.fail { // fails before anything is applied
		w.l.g.called(w.l.pid, "Set", errInjected)
		return errInjected
	}
	err := w.inner.Set(c)
	w.l.g.called(w.l.pid, "Set", err)
	return err
}

func (w *gatedWrite) Close() error {
	d := w.l.g.gate(w.l.pid, "Close")
	err := w.inner.Close()
	if d.fail { // the resources are released, but an error is reported
		err = errInjected
	}
	w.l.g.called(w.l.pid, "Close", err)
	return err
}
