//go:build !noshim_bastion

package main

import (
	"io"
	"net/http"

	"github.com/transparency-dev/witness/internal/feeder"
	"github.com/transparency-dev/witness/internal/feeder/bastion"
)

func shimParseBody(r io.Reader) (uint64, [][]byte, []byte, error) { return bastion.VerifParseBody(r) }
func shimNewHandler(c bastion.Config, w feeder.Witness) http.Handler {
	return bastion.VerifNewHandler(c, w)
}
