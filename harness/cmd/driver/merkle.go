package main

import (
	"bufio"
	"crypto/sha256"
	"encoding/json"
	"flag"
	"fmt"
	"os"

	"github.com/transparency-dev/merkle/proof"
	"github.com/transparency-dev/merkle/rfc6962"
	"github.com/transparency-dev/witness/verifharness/internal/ref"
	"golang.org/x/mod/sumdb/tlog"
)

func init() { commands["merkle"] = merkleMain }

type merkleVec struct {
	M     uint64            `json:"m"`
	N     uint64            `json:"n"`
	Proof []json.RawMessage `json:"proof"`
	Root1 json.RawMessage   `json:"root1"`
	Root2 json.RawMessage   `json:"root2"`
	OK    bool              `json:"ok"`
}

// termHash maps a term of the free algebra of Merkle.tla to SHA-256 bytes the RFC 6962 way.
func termHash(raw json.RawMessage) ([]byte, error) {
	var t []json.RawMessage
	if err := json.Unmarshal(raw, &t); err != nil || len(t) == 0 {
		return nil, fmt.Errorf("bad term %s", raw)
	}
	var tag string
	if err := json.Unmarshal(t[0], &tag); err != nil {
		return nil, err
	}
	switch tag {
	case "E":
		h := sha256.Sum256(nil)
		return h[:], nil
	case "L":
		h := sha256.Sum256(append([]byte{0}, []byte(fmt.Sprintf("leaf/%s/%s", t[1], t[2]))...))
		return h[:], nil
	case "N":
		l, err := termHash(t[1])
		if err != nil {
			return nil, err
		}
		r, err := termHash(t[2])
		if err != nil {
			return nil, err
		}
		h := sha256.Sum256(append(append([]byte{1}, l...), r...))
		return h[:], nil
	case "X", "J":
		h := sha256.Sum256([]byte(fmt.Sprintf("%s/%s", tag, t[1])))
		return h[:], nil
	}
	return nil, fmt.Errorf("unknown term tag %q", tag)
}

// merkleMain runs the vectors emitted by MC_Merkle through the pinned dependency
// (proof.VerifyConsistency), the harness' own verifier and, where defined, tlog.CheckTree.
func merkleMain(args []string) error {
	fs := flag.NewFlagSet("merkle", flag.ExitOnError)
	in := fs.String("in", "", "vectors (jsonl)")
	_ = fs.Parse(args)
	f, err := os.Open(*in)
	if err != nil {
		return err
	}
	defer f.Close()
	sc := bufio.NewScanner(f)
	sc.Buffer(make([]byte, 1<<20), 1<<26)
	n, accepted, disReal, disRef, disTlog := 0, 0, 0, 0, 0
	var first string
	for sc.Scan() {
		var v merkleVec
		if err := json.Unmarshal(sc.Bytes(), &v); err != nil {
			return err
		}
		r1, err := termHash(v.Root1)
		if err != nil {
			return err
		}
		r2, err := termHash(v.Root2)
		if err != nil {
			return err
		}
		pf := make([][]byte, 0, len(v.Proof))
		for _, p := range v.Proof {
			h, err := termHash(p)
			if err != nil {
				return err
			}
			pf = append(pf, h)
		}
		n++
		real := proof.VerifyConsistency(rfc6962.DefaultHasher, v.M, v.N, pf, r1, r2) == nil
		if real {
			accepted++
		}
		if real != v.OK {
			disReal++
			if first == "" {
				first = string(sc.Bytes())
			}
		}
		// the harness' reference treats the empty tree as consistent with everything (RFC), the dependency does not
		if v.M > 0 && ref.VerifyConsistency(v.M, v.N, pf, r1, r2) != v.OK {
			disRef++
		}
		if v.M > 0 && v.M < v.N {
			tp := make(tlog.TreeProof, len(pf))
			for i := range pf {
				copy(tp[i][:], pf[i])
			}
			var h1, h2 tlog.Hash
			copy(h1[:], r1)
			copy(h2[:], r2)
			if (tlog.CheckTree(tp, int64(v.N), h2, int64(v.M), h1) == nil) != v.OK {
				disTlog++
			}
		}
	}
	fmt.Printf("MERKLE vectors=%d accepted=%d disagree_real=%d disagree_ref=%d disagree_tlog=%d\n", n, accepted, disReal, disRef, disTlog)
	if first != "" {
		fmt.Printf("MERKLE first disagreement: %.600s\n", first)
	}
	return nil
}
