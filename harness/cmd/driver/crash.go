package main

import (
	"bufio"
	"context"
	"database/sql"
	"encoding/json"
	"flag"
	"fmt"
	"math/rand"
	"os"
	"os/exec"
	"path/filepath"
	"strings"
	"sync"
	"syscall"
	"time"

	psql "github.com/transparency-dev/witness/internal/persistence/sql"
	"github.com/transparency-dev/witness/verifharness/internal/world"
)

func init() {
	commands["crash"] = crashMain
	commands["crash-child"] = crashChild
	commands["crash-recover"] = crashRecover
}

type crashHist struct {
	ID    string        `json:"id"`
	Steps []seqStep     `json:"steps"`
	P     *world.Params `json:"params,omitempty"`
	// Legacy: the database file already exists when the code under verification first opens it: it was written by the RELEASE under
	// verification (the schema of internal/persistence/sql at the pinned commit, one row for l1 holding an acknowledged checkpoint of
	// size 1), not by the tree. The kill window then includes start-up (Init), where an upgrade of the file would happen.
	Legacy bool `json:"legacy,omitempty"`
	// BusyCommit: the COMMIT of step BusyCommit-1 fails with SQLITE_BUSY (another process holds a lock on the file past the busy timeout)
	// and the driver has rolled back; the run goes on and the process is killed at the end. Whatever was acknowledged must be in force.
	BusyCommit int `json:"busycommit,omitempty"`
	// FailOp, when set, names the driver operation (and SQLite result code, "exec#8") that fails in step BusyCommit-1 instead of the COMMIT
	FailOp string `json:"failop,omitempty"`
}

// pinnedSchema is the table the pinned release creates (internal/persistence/sql Init at the commit under verification).
const pinnedSchema = `CREATE TABLE IF NOT EXISTS chkpts (
		logID BLOB PRIMARY KEY,
		chkpt BLOB,
		range BLOB
		)`

// legacyS1 is the request whose acceptance the legacy file records, and writeLegacyDB writes that file without the code under verification.
var legacyS1 = world.Req{Auth: "good", Old: 0, B: 0, N: 1, Pf: world.Pf{K: "empty"}}

// rewriteAsRelease replaces a SQLite file by one with the same rows written the way the pinned release writes them (pinned schema, log ID
// bound as a Go string, i.e. TEXT): what the witness finds when the tree's code is started on a database the release has been running on.
func rewriteAsRelease(path string) error {
	if _, err := os.Stat(path); err != nil {
		return nil // nothing stored yet
	}
	old, err := sql.Open("sqlite3", path)
	if err != nil {
		return err
	}
	type row struct {
		id string
		cp []byte
	}
	var rows []row
	rs, err := old.Query("SELECT logID, chkpt FROM chkpts")
	if err != nil {
		old.Close()
		return nil // no table yet
	}
	for rs.Next() {
		var id, cp []byte
		if err := rs.Scan(&id, &cp); err != nil {
			rs.Close()
			old.Close()
			return err
		}
		rows = append(rows, row{string(id), append([]byte{}, cp...)})
	}
	rs.Close()
	old.Close()
	os.Remove(path)
	os.Remove(path + "-journal")
	db, err := sql.Open("sqlite3", path)
	if err != nil {
		return err
	}
	defer db.Close()
	if _, err := db.Exec(pinnedSchema); err != nil {
		return err
	}
	for _, r := range rows {
		if _, err := db.Exec("INSERT OR REPLACE INTO chkpts (logID, chkpt, range) VALUES (?, ?, NULL)", r.id, r.cp); err != nil {
			return err
		}
	}
	return nil
}

func writeLegacyDB(path string, w *world.World) error {
	os.Remove(path)
	db, err := sql.Open("sqlite3", path)
	if err != nil {
		return err
	}
	defer db.Close()
	if _, err := db.Exec(pinnedSchema); err != nil {
		return err
	}
	c := w.Concretise("l1", legacyS1, nil)
	cosigned := string(c.CP) + w.WitKey.SignLegacy(c.Text) + w.WitKey.SignCosigV1(c.Text, uint64(time.Now().Unix()))
	_, err = db.Exec("INSERT OR REPLACE INTO chkpts (logID, chkpt, range) VALUES (?, ?, NULL)", c.LogID, []byte(cosigned))
	return err
}

// ---- child: performs the history on a file-backed SQLite store and kills itself at boundary -kill ----

func openVerifDB(path string) (*sql.DB, error) {
	db, err := sql.Open("sqlite3verif", path)
	if err != nil {
		return nil, err
	}
	db.SetMaxOpenConns(1)
	return db, nil
}

func say(format string, a ...any) {
	// one write syscall per line: whatever was said before a SIGKILL has reached the pipe
	os.Stdout.WriteString(fmt.Sprintf(format, a...) + "\n")
}

func loadHist(path string) (*crashHist, *world.World, error) {
	b, err := os.ReadFile(path)
	if err != nil {
		return nil, nil, err
	}
	var h crashHist
	if err := json.Unmarshal(b, &h); err != nil {
		return nil, nil, err
	}
	h.P.Embed = "id"
	h.P.Seed = 1
	base := world.New(*h.P)
	return &h, base.ForRun("crash-"+h.ID, 7), nil
}

func crashChild(args []string) error {
	fs := flag.NewFlagSet("crash-child", flag.ExitOnError)
	dbPath := fs.String("db", "", "sqlite file")
	histPath := fs.String("hist", "", "history json")
	kill := fs.Int("kill", -1, "boundary index at which to SIGKILL this process")
	_ = fs.Parse(args)
	h, w, err := loadHist(*histPath)
	if err != nil {
		return err
	}
	var prev *world.CP
	if h.Legacy {
		// (the file was written by the parent before this process started: no kill can land inside that)
		s1 := world.CP{B: 0, N: 1, Lines: 1 + w.P.NWitKeys, Ext: 0}
		prev = &s1
		// start-up on the existing file is inside the kill window
		hook.mu.Lock()
		hook.boundary = 0
		hook.ops = nil
		hook.killAt = *kill
		hook.mu.Unlock()
	}
	db, err := openVerifDB(*dbPath)
	if err != nil {
		return err
	}
	p := psql.NewPersistence(db)
	wit, err := newWitness(w, p) // Init creates the table (part of the kill window only for a legacy file)
	if err != nil {
		return err
	}
	if !h.Legacy {
		hook.mu.Lock()
		hook.boundary = 0
		hook.ops = nil
		hook.killAt = *kill
		hook.mu.Unlock()
	}
	ctx := context.Background()
	for k, s := range h.Steps {
		if s.Op != "update" {
			continue
		}
		c := w.Concretise(s.Log, *s.Req, prev)
		if h.BusyCommit == k+1 && h.FailOp != "" {
			hook.arm(h.FailOp, 1)
		} else if h.BusyCommit == k+1 {
			driverErrSeq.mu.Lock()
			forcedDriverErr["commit"] = errSQLiteBusy
			driverErrSeq.mu.Unlock()
			hook.arm("commit", 1)
		}
		say("BEGIN %d", k)
		ret, uerr := wit.Update(ctx, c.LogID, c.OldSize, c.CP, c.Proof)
		v := verdict(uerr)
		cp := world.CP{None: true}
		if uerr == nil {
			cp = w.Project(w.Logs[s.Log], ret).CP
			prev = &cp
		}
		b, _ := json.Marshal(cp)
		say("ACK %d %s %s", k, v, b)
		if h.BusyCommit == k+1 && uerr != nil {
			// the caller does what callers do after a storage error: it sends the very same request again, at once
			say("BEGIN %d", k)
			ret, uerr = wit.Update(ctx, c.LogID, c.OldSize, c.CP, c.Proof)
			v = verdict(uerr)
			cp = world.CP{None: true}
			if uerr == nil {
				cp = w.Project(w.Logs[s.Log], ret).CP
				prev = &cp
			}
			b, _ = json.Marshal(cp)
			say("ACK %d %s %s", k, v, b)
		}
	}
	hook.mu.Lock()
	ops, _ := json.Marshal(hook.ops)
	hook.mu.Unlock()
	say("OPS %s", ops)
	return nil
}

// ---- recover: a fresh process reopens the file, reads the state and probes the restarted witness ----

type recoverOut struct {
	Stored   map[string]world.CP `json:"stored"`
	Complete bool                `json:"complete"` // every stored note parses, carries the log signature and one valid line per witness key
	ForgedV  string              `json:"forged"`   // forged first-use probe (fork, old size 0)
	HonestV  string              `json:"honest"`   // honest probe from the recovered state
	After    map[string]world.CP `json:"after"`
	Err      string              `json:"err,omitempty"`
}

func crashRecover(args []string) error {
	fs := flag.NewFlagSet("crash-recover", flag.ExitOnError)
	dbPath := fs.String("db", "", "sqlite file")
	histPath := fs.String("hist", "", "history json")
	_ = fs.Parse(args)
	_, w, err := loadHist(*histPath)
	if err != nil {
		return err
	}
	out := recoverOut{Complete: true}
	db, err := sql.Open("sqlite3", *dbPath)
	if err != nil {
		return err
	}
	db.SetMaxOpenConns(1)
	p := psql.NewPersistence(db)
	wit, err := newWitness(w, p)
	if err != nil {
		out.Err = err.Error()
		b, _ := json.Marshal(out)
		say("RECOVER %s", b)
		return nil
	}
	snap := takeSnapshot(w, p)
	out.Stored = project(w, snap)
	for name, raw := range snap.raw {
		pr := w.Project(w.Logs[name], raw)
		if !pr.OK || !pr.LogSigValid || pr.WitCosig != 1 || pr.WitForged != 0 || (w.P.NWitKeys == 2 && pr.WitLegacy != 1) {
			out.Complete = false
		}
	}
	ctx := context.Background()
	st := out.Stored["l1"]
	forged := world.Req{Auth: "good", Old: 0, B: 1, N: 2, Pf: world.Pf{K: "empty"}}
	c := w.Concretise("l1", forged, &st)
	_, e1 := wit.Update(ctx, c.LogID, c.OldSize, c.CP, c.Proof)
	out.ForgedV = verdict(e1)
	st2 := project(w, takeSnapshot(w, p))["l1"]
	hon := world.Req{Auth: "good", B: 0, N: 3, Pf: world.Pf{K: "empty"}}
	if !st2.None {
		hon.Old = st2.N
		if st2.N != 3 && st2.N != 0 {
			hon.Pf = world.Pf{K: "right", B: 0, M: st2.N, N: 3}
		}
	}
	if st2.None || (st2.B == 0 && st2.N <= 3) {
		c2 := w.Concretise("l1", hon, &st2)
		_, e2 := wit.Update(ctx, c2.LogID, c2.OldSize, c2.CP, c2.Proof)
		out.HonestV = verdict(e2)
	} else {
		out.HonestV = "skipped"
	}
	out.After = project(w, takeSnapshot(w, p))
	b, _ := json.Marshal(out)
	say("RECOVER %s", b)
	return nil
}

// ---- parent ----

type crashEvent struct {
	E        string              `json:"e"` // reset | upd | crash | recover
	Run      string              `json:"run"`
	K        int                 `json:"k"`
	Req      *world.Req          `json:"req,omitempty"`
	Log      string              `json:"log,omitempty"`
	Acked    bool                `json:"acked"`
	V        string              `json:"v,omitempty"`
	RetCP    *world.CP           `json:"retcp,omitempty"`
	Point    int                 `json:"point"`
	Op       string              `json:"op,omitempty"`
	Stored   map[string]world.CP `json:"stored,omitempty"`
	Complete bool                `json:"complete"`
	Forged   string              `json:"forged,omitempty"`
	Honest   string              `json:"honest,omitempty"`
	After    map[string]world.CP `json:"after,omitempty"`
}

func runChild(self string, args []string, killAfter time.Duration, env ...string) ([]string, error) {
	cmd := exec.Command(self, args...)
	if len(env) > 0 {
		cmd.Env = append(os.Environ(), env...)
	}
	cmd.Stderr = nil
	out, err := cmd.StdoutPipe()
	if err != nil {
		return nil, err
	}
	if err := cmd.Start(); err != nil {
		return nil, err
	}
	if killAfter > 0 {
		go func() {
			time.Sleep(killAfter)
			_ = cmd.Process.Signal(syscall.SIGKILL)
		}()
	}
	var lines []string
	sc := bufio.NewScanner(out)
	sc.Buffer(make([]byte, 1<<20), 1<<24)
	for sc.Scan() {
		lines = append(lines, sc.Text())
	}
	_ = cmd.Wait()
	return lines, nil
}

func crashMain(args []string) error {
	fs := flag.NewFlagSet("crash", flag.ExitOnError)
	in := fs.String("in", "", "histories (jsonl, first line params header)")
	out := fs.String("out", "", "trace")
	dir := fs.String("dir", os.TempDir(), "scratch dir")
	random := fs.Int("random", 0, "additional random-instant kills per history")
	seed := fs.Int64("seed", 1, "seed")
	workers := fs.Int("workers", 8, "parallel crash runs")
	preload := fs.String("preload", "", "LD_PRELOAD library that kills the child before its n-th write to the database file: adds one kill point per write system call")
	_ = fs.Parse(args)
	self, err := os.Executable()
	if err != nil {
		return err
	}
	f, err := os.Open(*in)
	if err != nil {
		return err
	}
	defer f.Close()
	sc := bufio.NewScanner(f)
	sc.Buffer(make([]byte, 1<<20), 1<<24)
	if !sc.Scan() {
		return fmt.Errorf("empty input")
	}
	var hdr seqHeader
	if err := json.Unmarshal(sc.Bytes(), &hdr); err != nil || hdr.Params == nil {
		return fmt.Errorf("bad header: %v", err)
	}
	tw, err := newTraceWriter(*out)
	if err != nil {
		return err
	}
	type job struct {
		h     crashHist
		hpath string
		point int
		op    string
		delay time.Duration
		write int // >= 0: die right before this write system call on the database file
	}
	var jobs []job
	rng := rand.New(rand.NewSource(*seed))
	nBound, nWrites := 0, 0
	for sc.Scan() {
		var h crashHist
		if err := json.Unmarshal(sc.Bytes(), &h); err != nil {
			return err
		}
		h.P = hdr.Params
		hb, _ := json.Marshal(h)
		hpath := filepath.Join(*dir, "hist-"+h.ID+".json")
		if err := os.WriteFile(hpath, hb, 0o644); err != nil {
			return err
		}
		// dry run: the real sequence of driver-operation boundaries of this history
		dbp := filepath.Join(*dir, "dry-"+h.ID+".db")
		if h.Legacy {
			_, lw, err := loadHist(hpath)
			if err != nil {
				return err
			}
			if err := writeLegacyDB(dbp, lw); err != nil {
				return err
			}
		}
		t0 := time.Now()
		lines, err := runChild(self, []string{"crash-child", "-db", dbp, "-hist", hpath}, 0)
		dur := time.Since(t0)
		os.Remove(dbp)
		os.Remove(dbp + "-journal")
		if err != nil {
			return err
		}
		var ops []string
		for _, l := range lines {
			if strings.HasPrefix(l, "OPS ") {
				_ = json.Unmarshal([]byte(l[4:]), &ops)
			}
		}
		if len(ops) == 0 {
			return fmt.Errorf("history %s: dry run reported no driver operations: %v", h.ID, lines)
		}
		nBound += len(ops)
		for i, op := range ops {
			jobs = append(jobs, job{h: h, hpath: hpath, point: i, op: op, write: -1})
		}
		if *preload != "" {
			// second dry run under the interposer: how many write system calls reach the database file
			dbw := filepath.Join(*dir, "dryw-"+h.ID+".db")
			if h.Legacy {
				_, lw, err := loadHist(hpath)
				if err == nil {
					err = writeLegacyDB(dbw, lw)
				}
				if err != nil {
					return err
				}
			}
			cf := filepath.Join(*dir, "count-"+h.ID)
			os.Remove(cf)
			if _, err := runChild(self, []string{"crash-child", "-db", dbw, "-hist", hpath}, 0, "LD_PRELOAD="+*preload, "VERIF_KILL_FILE="+dbw, "VERIF_COUNT_FILE="+cf); err != nil {
				return err
			}
			os.Remove(dbw)
			os.Remove(dbw + "-journal")
			nw := 0
			if b, err := os.ReadFile(cf); err == nil {
				fmt.Sscanf(string(b), "%d", &nw)
			}
			os.Remove(cf)
			nWrites += nw
			for i := 0; i < nw; i++ {
				jobs = append(jobs, job{h: h, hpath: hpath, point: -2, op: fmt.Sprintf("write#%d", i), write: i})
			}
		}
		for j := 0; j < *random; j++ {
			jobs = append(jobs, job{h: h, hpath: hpath, point: -1, op: "random-instant", delay: time.Duration(rng.Int63n(int64(dur)+1)) + time.Microsecond, write: -1})
		}
	}
	ch := make(chan job, 64)
	var wg sync.WaitGroup
	var firstErr error
	var mu sync.Mutex
	n := 0
	for i := 0; i < *workers; i++ {
		wg.Add(1)
		go func() {
			defer wg.Done()
			for j := range ch {
				mu.Lock()
				n++
				id := n
				mu.Unlock()
				tag := fmt.Sprintf("%s@%d#%d", j.h.ID, j.point, id)
				dbp := filepath.Join(*dir, fmt.Sprintf("crash-%d.db", id))
				cargs := []string{"crash-child", "-db", dbp, "-hist", j.hpath}
				if j.h.Legacy {
					_, lw, lerr := loadHist(j.hpath)
					if lerr == nil {
						lerr = writeLegacyDB(dbp, lw)
					}
					if lerr != nil {
						mu.Lock()
						if firstErr == nil {
							firstErr = lerr
						}
						mu.Unlock()
						continue
					}
				}
				if j.point >= 0 {
					cargs = append(cargs, "-kill", fmt.Sprint(j.point))
				}
				var cenv []string
				if j.write >= 0 {
					cenv = []string{"LD_PRELOAD=" + *preload, "VERIF_KILL_FILE=" + dbp, fmt.Sprintf("VERIF_KILL_WRITE=%d", j.write)}
				}
				lines, err := runChild(self, cargs, j.delay, cenv...)
				var ev []any
				if err == nil {
					ev = append(ev, crashEvent{E: "reset", Run: tag})
					if j.h.Legacy {
						s1 := world.CP{B: 0, N: 1, Lines: 1 + hdr.Params.NWitKeys, Ext: 0}
						rq := legacyS1
						ev = append(ev, crashEvent{E: "upd", Run: tag, K: -1, Req: &rq, Log: "l1", Acked: true, V: "Accept", RetCP: &s1})
					}
					acked := map[int]bool{}
					begun := -1
					for _, l := range lines {
						var k int
						if _, e := fmt.Sscanf(l, "BEGIN %d", &k); e == nil && strings.HasPrefix(l, "BEGIN") {
							begun = k
							acked[k] = false // (a step may be begun twice: the caller repeats a request that failed with a storage error)
						}
						if strings.HasPrefix(l, "ACK ") {
							parts := strings.SplitN(l, " ", 4)
							fmt.Sscanf(parts[1], "%d", &k)
							var cp world.CP
							_ = json.Unmarshal([]byte(parts[3]), &cp)
							if strings.Contains(parts[3], `"none":true`) {
								cp = world.CP{None: true}
							}
							acked[k] = true
							s := j.h.Steps[k]
							ev = append(ev, crashEvent{E: "upd", Run: tag, K: k, Req: s.Req, Log: s.Log, Acked: true, V: parts[2], RetCP: &cp})
						}
					}
					if begun >= 0 && !acked[begun] {
						s := j.h.Steps[begun]
						ev = append(ev, crashEvent{E: "upd", Run: tag, K: begun, Req: s.Req, Log: s.Log, Acked: false})
					}
					ev = append(ev, crashEvent{E: "crash", Run: tag, Point: j.point, Op: j.op})
					rl, rerr := runChild(self, []string{"crash-recover", "-db", dbp, "-hist", j.hpath}, 0)
					err = rerr
					var ro recoverOut
					got := false
					for _, l := range rl {
						if strings.HasPrefix(l, "RECOVER ") {
							got = json.Unmarshal([]byte(l[8:]), &ro) == nil
						}
					}
					if !got || ro.Err != "" {
						ro.Complete = false
						if ro.Stored == nil {
							ro.Stored = map[string]world.CP{}
							for _, name := range hdr.Params.Logs {
								ro.Stored[name] = world.CP{B: 99, N: 99, Lines: 99, Ext: 99}
							}
							ro.After = ro.Stored
						}
					}
					if ro.ForgedV == "" {
						ro.ForgedV = "Internal" // (the restarted witness could not even be probed; the judge needs every field)
					}
					if ro.HonestV == "" {
						ro.HonestV = "Internal"
					}
					if ro.After == nil {
						ro.After = ro.Stored
					}
					ev = append(ev, crashEvent{E: "recover", Run: tag, Stored: ro.Stored, Complete: ro.Complete, Forged: ro.ForgedV, Honest: ro.HonestV, After: ro.After})
					if err == nil {
						err = tw.writeRun(ev)
					}
				}
				os.Remove(dbp)
				os.Remove(dbp + "-journal")
				if err != nil {
					mu.Lock()
					if firstErr == nil {
						firstErr = err
					}
					mu.Unlock()
				}
			}
		}()
	}
	for _, j := range jobs {
		ch <- j
	}
	close(ch)
	wg.Wait()
	if err := tw.Close(); err != nil {
		return err
	}
	if firstErr != nil {
		return firstErr
	}
	fmt.Printf("CRASH runs=%d boundaries=%d write_syscalls=%d events=%d\n", len(jobs), nBound, nWrites, tw.n)
	return nil
}
