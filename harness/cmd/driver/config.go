package main

import (
	"bufio"
	"bytes"
	"context"
	"crypto/ed25519"
	"crypto/sha256"
	"encoding/base64"
	"encoding/json"
	"errors"
	"flag"
	"fmt"
	"io"
	"net"
	"net/http"
	"net/http/httptest"
	"os"
	"os/exec"
	"path/filepath"
	"sort"
	"strings"
	"sync"
	"time"

	"github.com/transparency-dev/witness/internal/config"
	"github.com/transparency-dev/witness/internal/distribute/rest"
	"github.com/transparency-dev/witness/internal/feeder/bastion"
	"github.com/transparency-dev/witness/internal/feeder/tiles"
	"github.com/transparency-dev/witness/internal/persistence/inmemory"
	"github.com/transparency-dev/witness/omniwitness"
	"github.com/transparency-dev/witness/verifharness/internal/ref"
	"github.com/transparency-dev/witness/verifharness/internal/world"
	"golang.org/x/time/rate"
	"gopkg.in/yaml.v3"
)

func init() {
	commands["config"] = configMain
	commands["config-child"] = configChild
	commands["config-bastion-child"] = configBastionChild
}

type refusingTransport struct{}

func (refusingTransport) RoundTrip(*http.Request) (*http.Response, error) {
	return nil, errors.New("verif: no network in this test")
}

// recordingTransport refuses every request too, and remembers which URLs were asked for.
type recordingTransport struct {
	mu   sync.Mutex
	seen map[string]bool
}

func (t *recordingTransport) RoundTrip(r *http.Request) (*http.Response, error) {
	t.mu.Lock()
	t.seen[r.URL.String()] = true
	t.mu.Unlock()
	return nil, errors.New("verif: no network in this test")
}

// configChild runs the real omniwitness.Main on a configuration for a moment and reports how start-up ended.
// A panic in any goroutine kills this process (exit status 2), which the parent records as "panicked".
func configChild(args []string) error {
	fs := flag.NewFlagSet("config-child", flag.ExitOnError)
	yamlPath := fs.String("yaml", "", "configuration (empty = the embedded one)")
	_ = fs.Parse(args)
	if *yamlPath != "" {
		b, err := os.ReadFile(*yamlPath)
		if err != nil {
			return err
		}
		omniwitness.ConfigLogs = b
	}
	w := world.New(world.Params{Logs: []string{"l1"}, MaxSize: 1, NBranch: 1, MaxLines: 6, NWitKeys: 2, Seed: 1, RunTag: "cfg"})
	signers, witV, err := witnessSigners(w)
	if err != nil {
		return err
	}
	ln, err := net.Listen("tcp", "127.0.0.1:0")
	if err != nil {
		return err
	}
	ctx, cancel := context.WithTimeout(context.Background(), 1500*time.Millisecond)
	defer cancel()
	// every optional component is switched on (the REST distributor and the bastion connection, both pointed at an address nobody listens on):
	// the configuration has to be usable by all of them
	bseed := sha256.Sum256([]byte("verif config child bastion key"))
	rt := &recordingTransport{seen: map[string]bool{}}
	defer func() {
		rt.mu.Lock()
		for u := range rt.seen {
			say("POLLED %s", u)
		}
		rt.mu.Unlock()
	}()
	merr := omniwitness.Main(ctx, omniwitness.OperatorConfig{WitnessKeys: signers, WitnessVerifier: witV, FeedInterval: 100 * time.Millisecond,
		RestDistributorBaseURL: "http://127.0.0.1:1", DistributeInterval: 100 * time.Millisecond,
		BastionAddr: "127.0.0.1:1", BastionKey: ed25519.NewKeyFromSeed(bseed[:]), BastionRateLimit: 10},
		inmemory.NewPersistence(), ln, &http.Client{Transport: rt, Timeout: time.Second})
	if merr == nil || errors.Is(merr, context.DeadlineExceeded) || errors.Is(merr, context.Canceled) || errors.Is(merr, http.ErrServerClosed) {
		say("RESULT serving")
	} else {
		say("RESULT failed %s", strings.ReplaceAll(merr.Error(), "\n", " "))
	}
	return nil
}

// configBastionChild runs the real omniwitness.Main on a configuration with a bastion that IS there (a stub in this process), waits for the
// service to dial it, and submits, for every entry of the configuration, a checkpoint of that origin that nobody signed: an endpoint that knows
// the log answers 403 (no valid signature), one that does not answers 404. -poll 0 switches polling off (a bastion-only witness).
func configBastionChild(args []string) error {
	fs := flag.NewFlagSet("config-bastion-child", flag.ExitOnError)
	yamlPath := fs.String("yaml", "", "configuration (empty = the embedded one)")
	poll := fs.Duration("poll", 100*time.Millisecond, "feed interval (0 = polling off)")
	_ = fs.Parse(args)
	if *yamlPath != "" {
		b, err := os.ReadFile(*yamlPath)
		if err != nil {
			return err
		}
		omniwitness.ConfigLogs = b
	}
	cfg := omniwitness.LogConfig{}
	if err := yaml.Unmarshal(omniwitness.ConfigLogs, &cfg); err != nil {
		return err
	}
	sb, err := newStubBastion(os.TempDir(), fmt.Sprintf("cfg-%d", os.Getpid()))
	if err != nil {
		return err
	}
	defer sb.close()
	os.Setenv("SSL_CERT_FILE", sb.caFile)
	os.Setenv("SSL_CERT_DIR", "/nonexistent")
	w := world.New(world.Params{Logs: []string{"l1"}, MaxSize: 1, NBranch: 1, MaxLines: 6, NWitKeys: 2, Seed: 1, RunTag: "cfgb"})
	signers, witV, err := witnessSigners(w)
	if err != nil {
		return err
	}
	ln, err := net.Listen("tcp", "127.0.0.1:0")
	if err != nil {
		return err
	}
	ctx, cancel := context.WithTimeout(context.Background(), 20*time.Second)
	defer cancel()
	bseed := sha256.Sum256([]byte("verif config child bastion key"))
	done := make(chan error, 1)
	go func() {
		done <- omniwitness.Main(ctx, omniwitness.OperatorConfig{WitnessKeys: signers, WitnessVerifier: witV, FeedInterval: *poll,
			RestDistributorBaseURL: "http://127.0.0.1:1", DistributeInterval: time.Hour,
			BastionAddr: sb.addr(), BastionKey: ed25519.NewKeyFromSeed(bseed[:]), BastionRateLimit: 100000},
			inmemory.NewPersistence(), ln, &http.Client{Transport: refusingTransport{}, Timeout: time.Second})
	}()
	_, cc, _, err := sb.accept(15 * time.Second)
	if err != nil {
		say("RESULT failed %v", err)
		return nil
	}
	for _, l := range cfg.Logs {
		root := ref.EmptyRoot()
		text := ref.CheckpointText(l.Origin, 0, root[:], "")
		body := "old 0\n\n" + text + "\n" + w.Unknown.SignLegacy(text)
		st, _, _ := postVia(cc, []byte(body), 5*time.Second)
		say("BASTION %d %s", st, l.Origin)
	}
	say("RESULT serving")
	cancel()
	select {
	case <-done:
	case <-time.After(5 * time.Second):
	}
	return nil
}

func runConfigChild(self, yamlPath string) (string, string) {
	o, d, _ := runConfigChildEnv(self, yamlPath)
	return o, d
}

// runConfigChildEnv also returns the URLs the feeders (and the distributor) asked for while Main ran; env is added to the child's environment
// (GOMAXPROCS=1: the single-core devices the witness is deployed on).
func runConfigChildEnv(self, yamlPath string, env ...string) (string, string, []string) {
	o, d, out := runConfigChildRaw(self, yamlPath, env...)
	var polled []string
	for _, l := range strings.Split(out, "\n") {
		if strings.HasPrefix(l, "POLLED ") {
			polled = append(polled, strings.TrimPrefix(l, "POLLED "))
		}
	}
	return o, d, polled
}

func runConfigChildRaw(self, yamlPath string, env ...string) (string, string, string) {
	args := []string{"config-child"}
	if yamlPath != "" {
		args = append(args, "-yaml", yamlPath)
	}
	cmd := exec.Command(self, args...)
	cmd.Env = append(os.Environ(), env...)
	var out bytes.Buffer
	cmd.Stdout = &out
	cmd.Stderr = &out
	err := cmd.Run()
	for _, l := range strings.Split(out.String(), "\n") {
		if strings.HasPrefix(l, "RESULT serving") {
			return "serving", "", out.String()
		}
		if strings.HasPrefix(l, "RESULT failed") {
			return "failed", l, out.String()
		}
	}
	if err != nil && strings.Contains(out.String(), "panic:") {
		return "panicked", firstLine(out.String(), "panic:"), out.String()
	}
	return "crashed", out.String(), out.String()
}

func firstLine(s, prefix string) string {
	for _, l := range strings.Split(s, "\n") {
		if strings.HasPrefix(l, prefix) {
			return l
		}
	}
	return ""
}

type cfgEntry struct {
	Origin string `json:"origin"`
	Key    string `json:"key"`
	Feeder string `json:"feeder"`
	URL    string `json:"url"`
}

type genCfg struct {
	Entries []cfgEntry `json:"entries"`
	Outcome string     `json:"outcome"`
}

type startEvent struct {
	E              string   `json:"e"`
	Run            string   `json:"run"`
	K              int      `json:"k"`
	File           string   `json:"file,omitempty"`
	Parsed         bool     `json:"parsed"`
	NEntries       int      `json:"nentries"`
	BadKeys        []string `json:"badkeys"`
	UnknownFeeders []string `json:"unknownfeeders"`
	MapOK          bool     `json:"mapok"`
	DistinctIDs    int      `json:"distinctids"`
	FeederFailed   []string `json:"feederfailed"`
	FeederPanicked []string `json:"feederpanicked"`
	FeederIDs      []string `json:"feederids"`
	MapIDs         []string `json:"mapids"`
	LogIDs         []string `json:"logids"`
	Main           string   `json:"main"`
	// BastionUnknown: entries whose origin the add-checkpoint endpoint inside Main does not know (404 instead of 403), with polling on and off
	BastionUnknown []string `json:"bastionunknown"`
	// Unpolled: logs with a feeder whose URL nobody asked for while Main ran (per environment of the child: default, GOMAXPROCS=1, GOMAXPROCS=2)
	Unpolled []string   `json:"unpolled"`
	Entries  []cfgEntry `json:"entries,omitempty"`
	Outcome  string     `json:"outcome,omitempty"`
	Detail   string     `json:"detail,omitempty"`
}

type idEvent struct {
	E        string `json:"e"`
	Run      string `json:"run"`
	K        int    `json:"k"`
	Iface    string `json:"iface"`
	Origin   string `json:"origin"`
	ID       string `json:"id"`
	Want     string `json:"want"`
	Distinct bool   `json:"distinct"`
}

// checkShipped walks a configuration through the same functions Main uses, one step at a time.
func checkShipped(self, name string, data []byte, yamlPath string) startEvent {
	ev := startEvent{E: "start.shipped", Run: name, File: name, BadKeys: []string{}, UnknownFeeders: []string{}, FeederFailed: []string{}, Unpolled: []string{}, BastionUnknown: []string{}, FeederPanicked: []string{},
		FeederIDs: []string{}, MapIDs: []string{}, LogIDs: []string{}}
	cfg := omniwitness.LogConfig{}
	if err := yaml.Unmarshal(data, &cfg); err != nil {
		ev.Detail = err.Error()
		ev.UnknownFeeders = append(ev.UnknownFeeders, err.Error())
		return ev
	}
	ev.Parsed = true
	ev.NEntries = len(cfg.Logs)
	ids := map[string]bool{}
	ctx, cancel := context.WithCancel(context.Background())
	cancel() // feeders validate their URL, then find their context cancelled
	for _, l := range cfg.Logs {
		lc, err := config.NewLog(l.Origin, l.PublicKey, l.URL)
		if err != nil {
			ev.BadKeys = append(ev.BadKeys, l.Origin+": "+err.Error())
			continue
		}
		ids[lc.ID] = true
		ev.LogIDs = append(ev.LogIDs, lc.ID)
		if l.Feeder == 0 {
			ev.UnknownFeeders = append(ev.UnknownFeeders, l.Origin)
			continue
		}
		if l.Feeder == omniwitness.None {
			continue
		}
		func() {
			defer func() {
				if r := recover(); r != nil {
					ev.FeederPanicked = append(ev.FeederPanicked, fmt.Sprintf("%s: %v", l.Origin, r))
				}
			}()
			ferr := l.Feeder.FeedFunc()(ctx, lc, nil, &http.Client{Transport: refusingTransport{}}, time.Hour)
			if ferr != nil && !errors.Is(ferr, context.Canceled) {
				ev.FeederFailed = append(ev.FeederFailed, l.Origin+": "+ferr.Error())
				return
			}
			ev.FeederIDs = append(ev.FeederIDs, lc.ID)
		}()
	}
	m, err := cfg.AsLogMap()
	ev.MapOK = err == nil
	for id := range m {
		ev.MapIDs = append(ev.MapIDs, id)
	}
	sort.Strings(ev.MapIDs)
	ev.DistinctIDs = len(ids)
	// Main itself, as a child process, in the environments it is deployed in: as many cores as this machine has, two, one
	ev.Unpolled = []string{}
	for _, env := range []string{"", "GOMAXPROCS=2", "GOMAXPROCS=1"} {
		main, detail, polled := runConfigChildEnv(self, yamlPath, strings.Fields(env)...)
		if ev.Main == "" || main != "serving" {
			ev.Main, ev.Detail = main, detail
		}
		if main != "serving" {
			continue
		}
		for _, l := range cfg.Logs {
			if l.Feeder == omniwitness.None || l.Feeder == 0 {
				continue
			}
			base := strings.TrimRight(l.URL, "/")
			if i := strings.Index(base, "?"); i >= 0 {
				base = strings.TrimRight(base[:i], "/")
			}
			hit := false
			for _, u := range polled {
				if strings.HasPrefix(u, base) {
					hit = true
				}
			}
			if !hit {
				ev.Unpolled = append(ev.Unpolled, fmt.Sprintf("%s (%s) [%s]", l.Origin, l.URL, env))
			}
		}
	}
	// the add-checkpoint endpoint inside Main knows every entry, whether the witness polls its logs (poll interval > 0) or is bastion-only (0)
	ev.BastionUnknown = []string{}
	var bmu sync.Mutex
	var bwg sync.WaitGroup
	for _, poll := range []string{"100ms", "0"} {
		bwg.Add(1)
		go func(poll string) {
			defer bwg.Done()
			args := []string{"config-bastion-child", "-poll", poll}
			if yamlPath != "" {
				args = append(args, "-yaml", yamlPath)
			}
			out, _ := exec.Command(self, args...).CombinedOutput()
			seen := 0
			bmu.Lock()
			defer bmu.Unlock()
			for _, l := range strings.Split(string(out), "\n") {
				var st int
				if n, _ := fmt.Sscanf(l, "BASTION %d ", &st); n == 1 {
					origin := strings.SplitN(l, " ", 3)[2]
					seen++
					if st != 403 {
						ev.BastionUnknown = append(ev.BastionUnknown, fmt.Sprintf("%s: %d [poll interval %s]", origin, st, poll))
					}
				}
			}
			if seen != len(cfg.Logs) {
				ev.BastionUnknown = append(ev.BastionUnknown, fmt.Sprintf("only %d of %d entries could be submitted [poll interval %s]: %s", seen, len(cfg.Logs), poll, tailOf(string(out), 300)))
			}
		}(poll)
	}
	bwg.Wait()
	sort.Strings(ev.BastionUnknown)
	return ev
}

func renderYAML(w *world.World, entries []cfgEntry) string {
	var sb strings.Builder
	sb.WriteString("Logs:\n")
	key := w.Logs["l1"].Key
	for _, e := range entries {
		pk := key.VKey()
		if e.Key == "bad" {
			pk = "not-a-key+00000000+AAAA"
		}
		if e.Key == "stalehash" {
			// name and key hash of the genuine key, key bytes of another one
			pk = fmt.Sprintf("%s+%08x+%s", key.Name, key.KeyHash(ref.AlgEd25519), base64.StdEncoding.EncodeToString(append([]byte{ref.AlgEd25519}, w.Unknown.Pub...)))
		}
		feeder := e.Feeder
		if feeder == "unknown" {
			feeder = "carrierpigeon"
		}
		url := ""
		switch e.URL {
		case "ok":
			url = "http://127.0.0.1:1/log/?treeID=1234"
		case "malformed":
			url = "http://[::1/log"
		case "badscheme":
			url = "gopher://127.0.0.1/log/"
		case "notreeid":
			url = "http://127.0.0.1:1/log/"
		}
		fmt.Fprintf(&sb, "  - Origin: verif.example/cfg/%s\n    URL: \"%s\"\n    PublicKey: %s\n    Feeder: %s\n", e.Origin, url, pk, feeder)
	}
	return sb.String()
}

// identityEvents records the id each interface uses for every origin of a coherent configuration.
func identityEvents(w *world.World, run string, origins []string) ([]any, error) {
	var ev []any
	k := 0
	key := w.Logs["l1"].Key
	want := map[string]string{}
	seen := map[string]string{}
	distinct := true
	for _, o := range origins {
		want[o] = ref.LogID(o)
		if p, ok := seen[want[o]]; ok && p != o {
			distinct = false
		}
		seen[want[o]] = o
	}
	add := func(iface, origin, id string) {
		k++
		ev = append(ev, idEvent{E: "id", Run: run, K: k, Iface: iface, Origin: origin, ID: id, Want: want[origin], Distinct: distinct})
	}
	cfg := omniwitness.LogConfig{}
	var logs []config.Log
	for _, o := range origins {
		cfg.Logs = append(cfg.Logs, omniwitness.LogInfo{Origin: o, PublicKey: key.VKey(), URL: "http://127.0.0.1:1/", Feeder: omniwitness.Tiles})
		lc, err := config.NewLog(o, key.VKey(), "http://127.0.0.1:1/")
		if err != nil {
			return nil, err
		}
		logs = append(logs, lc)
		add("config.NewLog (feeders, bastion, distributor)", o, lc.ID)
	}
	m, err := cfg.AsLogMap()
	if err != nil {
		return nil, err
	}
	for id, li := range m {
		add("witness map (AsLogMap)", li.Origin, id)
	}
	// the witness itself, the bastion endpoint, the read API and the distributor wired as Main wires them
	signers, witV, err := witnessSigners(w)
	if err != nil {
		return nil, err
	}
	wit, err := newWitnessFromMap(m, signers)
	if err != nil {
		return nil, err
	}
	adapter := witnessAdapterOf(wit)
	h := shimNewHandler(bastion.Config{Logs: logs, WitnessVerifier: witV, Limits: bastion.RequestLimits{TotalPerSecond: rate.Limit(10000)}}, adapter)
	for _, o := range origins {
		root := ref.EmptyRoot()
		text := ref.CheckpointText(o, 0, root[:], "")
		body := "old 0\n\n" + text + "\n" + key.SignLegacy(text)
		rec := httptest.NewRecorder()
		h.ServeHTTP(rec, httptest.NewRequest(http.MethodPost, "/", strings.NewReader(body)))
		// 200: the endpoint resolved the origin to an id the witness knows and stored the checkpoint under it
		got := ""
		if rec.Code == 200 {
			ids, _ := wit.GetLogs()
			for _, id := range ids {
				if b, err := wit.GetCheckpoint(id); err == nil && strings.HasPrefix(string(b), o+"\n") {
					got = id
				}
			}
		}
		add("bastion endpoint -> witness storage -> GetLogs", o, got)
	}
	var mu sync.Mutex
	puts := map[string]string{}
	srv := httptest.NewServer(http.HandlerFunc(func(rw http.ResponseWriter, r *http.Request) {
		b, _ := io.ReadAll(r.Body)
		parts := strings.Split(r.URL.Path, "/")
		mu.Lock()
		if len(parts) > 4 {
			puts[strings.SplitN(string(b), "\n", 2)[0]] = parts[4]
		}
		mu.Unlock()
		rw.WriteHeader(200)
	}))
	defer srv.Close()
	d, err := rest.NewDistributor(srv.URL, srv.Client(), logs, witV, adapter)
	if err == nil {
		_ = d.DistributeOnce(context.Background())
	}
	// (a distributor that cannot be built for a coherent set of logs pushes nothing: every origin is then reported with an empty id)
	for _, o := range origins {
		mu.Lock()
		id := puts[o]
		mu.Unlock()
		add("distributor PUT path", o, id)
	}
	// the same while some of the logs have no checkpoint yet (a fresh start, a feeder that has not succeeded so far): every other origin, starting
	// with the FIRST configured one, is left without; what is pushed for the others still goes to their own ids
	if len(origins) >= 2 {
		wit2, err := newWitnessFromMap(m, signers)
		if err != nil {
			return nil, err
		}
		adapter2 := witnessAdapterOf(wit2)
		h2 := shimNewHandler(bastion.Config{Logs: logs, WitnessVerifier: witV, Limits: bastion.RequestLimits{TotalPerSecond: rate.Limit(10000)}}, adapter2)
		for i, o := range origins {
			if i%2 == 0 {
				continue
			}
			root := ref.EmptyRoot()
			text := ref.CheckpointText(o, 0, root[:], "")
			rec := httptest.NewRecorder()
			h2.ServeHTTP(rec, httptest.NewRequest(http.MethodPost, "/", strings.NewReader("old 0\n\n"+text+"\n"+key.SignLegacy(text))))
		}
		mu.Lock()
		puts = map[string]string{}
		mu.Unlock()
		if d2, err := rest.NewDistributor(srv.URL, srv.Client(), logs, witV, adapter2); err == nil {
			_ = d2.DistributeOnce(context.Background())
		}
		for i, o := range origins {
			if i%2 == 0 {
				continue
			}
			mu.Lock()
			id := puts[o]
			mu.Unlock()
			add("distributor PUT path while other logs have no checkpoint yet", o, id)
		}
	}
	// a feeder: which id does it use towards the witness?
	for i, o := range origins {
		rw := &idWitness{}
		ctx, cancel := context.WithTimeout(context.Background(), 300*time.Millisecond)
		ts := httptest.NewServer(http.HandlerFunc(func(rw http.ResponseWriter, r *http.Request) {
			root := ref.EmptyRoot()
			text := ref.CheckpointText(o, 0, root[:], "")
			rw.Write([]byte(text + "\n" + key.SignLegacy(text)))
		}))
		lc := logs[i]
		lc.URL = ts.URL + "/"
		_ = tiles.FeedLog(ctx, lc, rw, ts.Client(), 0)
		cancel()
		ts.Close()
		add("feeder -> witness", o, rw.id)
	}
	return ev, nil
}

type idWitness struct{ id string }

func (w *idWitness) GetLatestCheckpoint(ctx context.Context, id string) ([]byte, error) {
	w.id = id
	return nil, os.ErrNotExist
}
func (w *idWitness) Update(ctx context.Context, id string, old uint64, cp []byte, proof [][]byte) ([]byte, error) {
	w.id = id
	return cp, nil
}

func configMain(args []string) error {
	fs := flag.NewFlagSet("config", flag.ExitOnError)
	in := fs.String("in", "", "generated configurations (jsonl)")
	out := fs.String("out", "", "trace")
	repo := fs.String("repo", "/repo", "repository root (for logs_test.yaml)")
	dir := fs.String("dir", os.TempDir(), "scratch")
	workers := fs.Int("workers", 8, "parallel child processes")
	_ = fs.Parse(args)
	self, err := os.Executable()
	if err != nil {
		return err
	}
	tw, err := newTraceWriter(*out)
	if err != nil {
		return err
	}
	var events []any
	// (1) the shipped configurations of the working tree
	events = append(events, checkShipped(self, "logs.yaml (embedded)", omniwitness.ConfigLogs, ""))
	tpath := filepath.Join(*repo, "omniwitness", "logs_test.yaml")
	if b, err := os.ReadFile(tpath); err == nil {
		events = append(events, checkShipped(self, "logs_test.yaml", b, tpath))
	} else {
		events = append(events, startEvent{E: "start.shipped", Run: "logs_test.yaml", Detail: err.Error(), BadKeys: []string{}, UnknownFeeders: []string{"file missing"},
			FeederFailed: []string{}, Unpolled: []string{}, BastionUnknown: []string{}, FeederPanicked: []string{}, FeederIDs: []string{}, MapIDs: []string{}, LogIDs: []string{}})
	}
	// origins of the shipped configuration on every interface
	w := world.New(world.Params{Logs: []string{"l1"}, MaxSize: 1, NBranch: 1, MaxLines: 6, NWitKeys: 2, Seed: 1, RunTag: "cfg"})
	// (2) generated configurations through the real Main, one child process each
	if *in != "" {
		f, err := os.Open(*in)
		if err != nil {
			return err
		}
		defer f.Close()
		sc := bufio.NewScanner(f)
		sc.Buffer(make([]byte, 1<<20), 1<<24)
		var cfgs []genCfg
		for sc.Scan() {
			var g genCfg
			if err := json.Unmarshal(sc.Bytes(), &g); err != nil {
				return err
			}
			cfgs = append(cfgs, g)
		}
		res := make([]startEvent, len(cfgs))
		var wg sync.WaitGroup
		sem := make(chan struct{}, *workers)
		for i, g := range cfgs {
			wg.Add(1)
			sem <- struct{}{}
			go func(i int, g genCfg) {
				defer wg.Done()
				defer func() { <-sem }()
				yp := filepath.Join(*dir, fmt.Sprintf("cfg-%d.yaml", i))
				_ = os.WriteFile(yp, []byte(renderYAML(w, g.Entries)), 0o644)
				outcome, detail := runConfigChild(self, yp)
				os.Remove(yp)
				res[i] = startEvent{E: "start.generated", Run: fmt.Sprintf("g%d", i), K: i, Entries: g.Entries, Outcome: outcome, Detail: detail,
					BadKeys: []string{}, UnknownFeeders: []string{}, FeederFailed: []string{}, Unpolled: []string{}, BastionUnknown: []string{}, FeederPanicked: []string{}, FeederIDs: []string{}, MapIDs: []string{}, LogIDs: []string{}}
			}(i, g)
		}
		wg.Wait()
		for _, r := range res {
			events = append(events, r)
		}
	}
	// (3) identity: one id per origin on every interface
	sets := [][]string{{"verif.example/a"}, {"verif.example/a", "verif.example/b", "verif.example/a/b"}, {"go.sum database tree", "rekor.sigstore.dev - 1193050959916656506", "rekor.sigstore.dev - 2605736670972794746"},
		{"with space", "with/slash", "ünïcode", "UPPER", "upper"},
		{" leading blank", "trailing blank ", "trailing/slash/", "trailing/slash", "Mixed.Case/Origin", "mixed.case/origin", "a//b", "a/./b", "100%/percent"},
		// very long origins (nothing bounds their length; the endpoint takes bodies of 16 KiB), one a prefix of the other at a buffer-sized boundary
		{strings.Repeat("o", 4095), strings.Repeat("o", 4096), strings.Repeat("o", 4096) + "/shard-b", strings.Repeat("verif.example/long/", 330), strings.Repeat("p", 1023), strings.Repeat("p", 1024) + "x"}}
	shipped := omniwitness.LogConfig{}
	if yaml.Unmarshal(omniwitness.ConfigLogs, &shipped) == nil {
		var os_ []string
		for _, l := range shipped.Logs {
			os_ = append(os_, l.Origin)
		}
		sets = append(sets, os_)
	}
	for i, s := range sets {
		ev, err := identityEvents(w, fmt.Sprintf("ids%d", i), s)
		if err != nil {
			return err
		}
		events = append(events, ev...)
	}
	if err := tw.writeRun(events); err != nil {
		return err
	}
	if err := tw.Close(); err != nil {
		return err
	}
	fmt.Printf("CONFIG events=%d\n", len(events))
	return nil
}
