package main

import (
	"bufio"
	"context"
	"encoding/json"
	"flag"
	"fmt"
	"io"
	"math/rand"
	"os"
	"runtime"
	"sort"
	"sync"
	"time"

	"github.com/transparency-dev/witness/internal/persistence"
	"github.com/transparency-dev/witness/verifharness/internal/world"
)

func init() { commands["ops"] = opsMain }

// opsOp is one operation of a process' program (the model's record).
type opsOp struct {
	Kind string     `json:"kind"` // update | read
	Log  string     `json:"log"`
	Req  *world.Req `json:"req,omitempty"`
}

type opsRun struct {
	ID    string `json:"id"`
	Mode  string `json:"mode"`  // gated | free
	Eager bool   `json:"eager"` // gated: operations are invoked as soon as the process is free (no invoke gate)
	// WaitMS bounds how long the scheduler waits for a released call before it treats the process as blocked inside it
	// (schedules listed for another store: a Begin that waits for the single connection simply stays blocked).
	WaitMS int                 `json:"waitms,omitempty"`
	Db0    map[string]world.CP `json:"db0"`
	Prog   [][]opsOp           `json:"prog"`  // Prog[p-1]
	Sched  [][2]any            `json:"sched"` // gated: who moves next
}

type linEvent struct {
	E      string              `json:"e"` // reset | inv | ret | final | op
	Run    string              `json:"run"`
	P      int                 `json:"p,omitempty"`
	Op     *opsOp              `json:"op,omitempty"`
	V      string              `json:"v,omitempty"`
	Val    *world.CP           `json:"val,omitempty"`
	Db0    map[string]world.CP `json:"db0,omitempty"`
	Stored map[string]world.CP `json:"stored,omitempty"`
	Name   string              `json:"name,omitempty"` // op event: storage call
	Res    string              `json:"res,omitempty"`  // op event: ok | err
	Scen   string              `json:"scen,omitempty"`
	Calls  []opCall            `json:"calls,omitempty"`
	Drift  []string            `json:"drift,omitempty"`
	Ctr    map[string]Ctr      `json:"ctr,omitempty"`  // metrics event: counters scraped from the production binary
	Told   *int                `json:"told,omitempty"` // ret of a stale update through the endpoint: the size the 409 body states (abstract)
}

type linRecorder struct {
	mu sync.Mutex
	ev []any
}

func (r *linRecorder) add(e linEvent) {
	r.mu.Lock()
	r.ev = append(r.ev, e)
	r.mu.Unlock()
}

// yieldLSP perturbs goroutine scheduling in free-running mode.
type yieldLSP struct {
	inner persistence.LogStatePersistence
	rng   *rand.Rand
	mu    sync.Mutex
}

func (y *yieldLSP) jitter() {
	y.mu.Lock()
	k := y.rng.Intn(6)
	y.mu.Unlock()
	switch k {
	case 0:
		runtime.Gosched()
	case 1:
		time.Sleep(time.Duration(k) * time.Microsecond)
	}
}
func (y *yieldLSP) Init() error             { return y.inner.Init() }
func (y *yieldLSP) Logs() ([]string, error) { return y.inner.Logs() }
func (y *yieldLSP) ReadOps(id string) (persistence.LogStateReadOps, error) {
	y.jitter()
	r, err := y.inner.ReadOps(id)
	if err != nil {
		return nil, err
	}
	return &yieldRead{r, y}, nil
}
func (y *yieldLSP) WriteOps(id string) (persistence.LogStateWriteOps, error) {
	y.jitter()
	w, err := y.inner.WriteOps(id)
	if err != nil {
		return nil, err
	}
	return &yieldWrite{w, y}, nil
}

type yieldRead struct {
	inner persistence.LogStateReadOps
	y     *yieldLSP
}

func (r *yieldRead) GetLatest() ([]byte, error) { r.y.jitter(); return r.inner.GetLatest() }

type yieldWrite struct {
	inner persistence.LogStateWriteOps
	y     *yieldLSP
}

func (w *yieldWrite) GetLatest() ([]byte, error) { w.y.jitter(); return w.inner.GetLatest() }
func (w *yieldWrite) Set(c []byte) error         { w.y.jitter(); return w.inner.Set(c) }
func (w *yieldWrite) Close() error               { w.y.jitter(); return w.inner.Close() }

func opsMain(args []string) error {
	fs := flag.NewFlagSet("ops", flag.ExitOnError)
	in := fs.String("in", "", "runs file (jsonl, first line = params header)")
	out := fs.String("out", "", "trace file (ndjson)")
	storeKind := fs.String("store", "inmem", "inmem | sqlfile | sqlmem")
	seed := fs.Int64("seed", 1, "seed")
	workers := fs.Int("workers", 8, "parallel runs")
	dir := fs.String("dir", os.TempDir(), "scratch directory")
	_ = fs.Parse(args)

	f, err := os.Open(*in)
	if err != nil {
		return err
	}
	defer f.Close()
	rd := bufio.NewReaderSize(f, 1<<20)
	line, err := rd.ReadBytes('\n')
	if err != nil {
		return err
	}
	var hdr seqHeader
	if err := json.Unmarshal(line, &hdr); err != nil || hdr.Params == nil {
		return fmt.Errorf("bad header: %v", err)
	}
	hdr.Params.Embed = "id"
	hdr.Params.Seed = *seed
	base := world.New(*hdr.Params)
	tw, err := newTraceWriter(*out)
	if err != nil {
		return err
	}
	runs := make(chan opsRun, 64)
	var wg sync.WaitGroup
	var firstErr error
	var errMu sync.Mutex
	nDrift := 0
	for i := 0; i < *workers; i++ {
		wg.Add(1)
		go func() {
			defer wg.Done()
			for r := range runs {
				ev, drift, err := execOpsRun(base, r, *storeKind, *seed, *dir)
				if err == nil {
					err = tw.writeRun(ev)
				}
				errMu.Lock()
				nDrift += drift
				if err != nil && firstErr == nil {
					firstErr = fmt.Errorf("run %s: %v", r.ID, err)
				}
				errMu.Unlock()
			}
		}()
	}
	n := 0
	for {
		line, err := rd.ReadBytes('\n')
		if len(line) > 1 {
			var r opsRun
			if e := json.Unmarshal(line, &r); e != nil {
				return fmt.Errorf("bad run line: %v", e)
			}
			runs <- r
			n++
		}
		if err == io.EOF {
			break
		}
		if err != nil {
			return err
		}
	}
	close(runs)
	wg.Wait()
	if err := tw.Close(); err != nil {
		return err
	}
	if firstErr != nil {
		return firstErr
	}
	fmt.Printf("OPS runs=%d events=%d drift=%d store=%s\n", n, tw.n, nDrift, *storeKind)
	return nil
}

func execOpsRun(base *world.World, r opsRun, storeKind string, seed int64, dir string) ([]any, int, error) {
	tag := fmt.Sprintf("%s-%s-%d", r.ID, storeKind, seed)
	w := base.ForRun(tag, hashSeed(tag, seed))
	st, err := newStore(storeKind, dir)
	if err != nil {
		return nil, 0, err
	}
	defer st.close()
	ctx := context.Background()
	// sequential set-up of the initial committed state through a plain witness
	setup, err := newWitness(w, st.p)
	if err != nil {
		return nil, 0, err
	}
	names := make([]string, 0, len(r.Db0))
	for l := range r.Db0 {
		names = append(names, l)
	}
	sort.Strings(names)
	for _, l := range names {
		c := r.Db0[l]
		if c.None {
			continue
		}
		rq := world.Req{Auth: "good", B: c.B, N: c.N, Extra: c.Lines - 1 - w.P.NWitKeys, Ext: c.Ext, Pf: world.Pf{K: "empty"}}
		cc := w.Concretise(l, rq, nil)
		if _, err := setup.Update(ctx, cc.LogID, cc.OldSize, cc.CP, cc.Proof); err != nil {
			return nil, 0, fmt.Errorf("set-up of %s failed: %v", l, err)
		}
	}
	rec := &linRecorder{}
	db0 := project(w, takeSnapshot(w, st.p))
	rec.add(linEvent{E: "reset", Run: tag, Db0: db0})

	pids := make([]int, len(r.Prog))
	for i := range pids {
		pids[i] = i + 1
	}
	var g *gateSched
	if r.Mode == "gated" {
		g = newGateSched(pids)
		if r.WaitMS > 0 {
			g.wait = time.Duration(r.WaitMS) * time.Millisecond
		}
		g.onOp = func(c opCall) { rec.add(linEvent{E: "op", Run: tag, P: c.P, Name: c.Name, Res: c.Res}) }
	}
	var wg sync.WaitGroup
	for _, p := range pids {
		var lsp persistence.LogStatePersistence
		if g != nil {
			lsp = &gatedLSP{inner: st.p, pid: p, g: g}
		} else {
			lsp = &yieldLSP{inner: st.p, rng: rand.New(rand.NewSource(hashSeed(tag, seed+int64(p))))}
		}
		wit, err := newWitness(w, lsp)
		if err != nil {
			return nil, 0, err
		}
		wg.Add(1)
		w := w.ForRun(tag, hashSeed(tag, seed+int64(p))) // own random source per process, same origins
		go func(p int, prog []opsOp) {
			defer wg.Done()
			for _, op := range prog {
				op := op
				if g != nil && !r.Eager {
					g.gate(p, "invoke")
				}
				rec.add(linEvent{E: "inv", Run: tag, P: p, Op: &op})
				switch op.Kind {
				case "update":
					// the proof menu is relative to what the model believes is stored; concretise against db0's successor states
					// the base of a mutated proof is taken from the request's own old size (no store access here)
					c := w.Concretise(op.Log, *op.Req, &world.CP{B: 0, N: op.Req.Old})
					ret, uerr := wit.Update(ctx, c.LogID, c.OldSize, c.CP, c.Proof)
					ev := linEvent{E: "ret", Run: tag, P: p, V: verdict(uerr)}
					if uerr == nil {
						cp := w.Project(w.Logs[op.Log], ret).CP
						ev.Val = &cp
					}
					rec.add(ev)
				case "read":
					b, gerr := wit.GetCheckpoint(w.Logs[op.Log].ID)
					ev := linEvent{E: "ret", Run: tag, P: p, V: "Read"}
					cp := world.CP{None: true}
					if gerr == nil {
						cp = w.Project(w.Logs[op.Log], b).CP
					} else if !isNotFound(gerr) {
						ev.V = "Internal"
					}
					ev.Val = &cp
					rec.add(ev)
				}
			}
			if g != nil {
				g.arr[p] <- arrival{kind: "end"}
			}
		}(p, r.Prog[p-1])
	}
	if g != nil {
		g.run(r.Sched)
	}
	done := make(chan struct{})
	go func() { wg.Wait(); close(done) }()
	select {
	case <-done:
	case <-time.After(60 * time.Second):
		return nil, 0, fmt.Errorf("processes did not finish (hang)")
	}
	fin := linEvent{E: "final", Run: tag, Stored: project(w, takeSnapshot(w, st.p))}
	drift := 0
	if g != nil {
		fin.Calls = g.calls
		fin.Drift = g.drift
		drift = len(g.drift)
	}
	rec.add(fin)
	return rec.ev, drift, nil
}
