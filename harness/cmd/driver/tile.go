package main

import (
	"bufio"
	"context"
	"encoding/base64"
	"encoding/json"
	"flag"
	"fmt"
	"math/rand"
	"net/http"
	"net/http/httptest"
	"os"
	"strings"
	"sync"
	"sync/atomic"
	"time"

	f_note "github.com/transparency-dev/formats/note"
	"github.com/transparency-dev/merkle/rfc6962"
	slstest "github.com/transparency-dev/serverless-log/testdata"
	"github.com/transparency-dev/witness/internal/client"
	"github.com/transparency-dev/witness/internal/config"
	"github.com/transparency-dev/witness/internal/feeder"
	"github.com/transparency-dev/witness/internal/feeder/pixelbt"
	"github.com/transparency-dev/witness/internal/feeder/rekor"
	"github.com/transparency-dev/witness/internal/feeder/serverless"
	"github.com/transparency-dev/witness/internal/feeder/sumdb"
	"github.com/transparency-dev/witness/internal/feeder/tiles"
	"github.com/transparency-dev/witness/internal/witness"
	"github.com/transparency-dev/witness/verifharness/internal/ref"
	"github.com/transparency-dev/witness/verifharness/internal/stublog"
	"github.com/transparency-dev/witness/verifharness/internal/world"
	"golang.org/x/mod/sumdb/tlog"
)

func init() { commands["tile"] = tileMain }

type tileVec struct {
	H    int    `json:"h"`
	L    int    `json:"l"`
	N    int64  `json:"n"`
	W    int    `json:"w"`
	Path string `json:"path"`
}

type tileEvent struct {
	E        string   `json:"e"`
	Run      string   `json:"run"`
	K        int      `json:"k"`
	H        int      `json:"h"`
	L        int      `json:"l"`
	N        int64    `json:"n"`
	W        int      `json:"w"`
	Req      string   `json:"req"`
	Reqs     []string `json:"reqs"` // every request made for the tile (the server answers the first one of some tiles with a 503)
	Tlog     string   `json:"tlog"`
	Parsed   bool     `json:"parsed"`
	From     uint64   `json:"from"`
	To       uint64   `json:"to"`
	RefOK    bool     `json:"refok"`
	Accepted bool     `json:"accepted"`
	OldOK    bool     `json:"oldok"`
	PfLen    int      `json:"pflen"`
}

// recWitness records what the feeder submits and passes it on to the real witness.
type recWitness struct {
	inner feeder.Witness
	mu    sync.Mutex
	old   uint64
	proof [][]byte
	cp    []byte
	err   error
	n     int
	hist  []recUpdate // every submission, in order (chains look for the FIRST submission of a size: later ones are refreshes)
	// third, when set, is called once before the next submission is passed on: a third party (another feeder, a bastion request) moves the
	// witness between the feeder's look at it and its submission. That submission is then stale by construction: it is passed on, its
	// refusal goes back to the feeder, and it is not recorded.
	third func()
}

type recUpdate struct {
	old   uint64
	proof [][]byte
	cp    []byte
	err   error
}

func (r *recWitness) GetLatestCheckpoint(ctx context.Context, id string) ([]byte, error) {
	return r.inner.GetLatestCheckpoint(ctx, id)
}
func (r *recWitness) Update(ctx context.Context, id string, old uint64, cp []byte, proof [][]byte) ([]byte, error) {
	r.mu.Lock()
	third := r.third
	r.third = nil
	r.mu.Unlock()
	if third != nil {
		third()
		return r.inner.Update(ctx, id, old, cp, proof)
	}
	b, err := r.inner.Update(ctx, id, old, cp, proof)
	r.mu.Lock()
	r.old, r.proof, r.cp, r.err = old, proof, cp, err
	r.n++
	r.hist = append(r.hist, recUpdate{old, proof, cp, err})
	r.mu.Unlock()
	if err != nil {
		// do not let the feeder's backoff loop spin: report success, the verdict is recorded
		return cp, nil
	}
	return b, nil
}

func tileMain(args []string) error {
	fs := flag.NewFlagSet("tile", flag.ExitOnError)
	in := fs.String("in", "", "tile vectors (jsonl)")
	out := fs.String("out", "", "trace")
	maxTo := fs.Uint64("pairs", 300, "all pairs 1 <= from < to <= pairs")
	samples := fs.Int("samples", 200, "sampled pairs up to 2^20")
	seed := fs.Int64("seed", 1, "seed")
	workers := fs.Int("workers", 8, "workers")
	kind := fs.String("feeder", "sumdb", "which feeder builds the proofs: sumdb | tiles | pixel | rekor | serverless (the serverless-log module's own test log, sizes 1..15)")
	fronts := fs.String("fronts", "plain,gzip,redirect,prefix", "what sits between the feeder and the log, per worker")
	nchains := fs.Int("chains", 0, "growth chains followed by ONE long-running feeder each (fixed boundary chains plus this many random ones)")
	_ = fs.Parse(args)
	tw, err := newTraceWriter(*out)
	if err != nil {
		return err
	}
	var events []any
	k := 0
	// ---- paths ----
	var mu sync.Mutex
	var lastPath string
	var allPaths []string // every request made for the tile in hand
	failOnce := false     // the server's answer class for the tile in hand: it answers the first request with a 503 (a transient failure), later ones normally
	srv := httptest.NewServer(http.HandlerFunc(func(w http.ResponseWriter, r *http.Request) {
		mu.Lock()
		lastPath = r.URL.Path
		allPaths = append(allPaths, r.URL.Path)
		fail := failOnce
		failOnce = false
		mu.Unlock()
		if fail {
			http.Error(w, "try again", http.StatusServiceUnavailable)
			return
		}
		w.Write(make([]byte, 32))
	}))
	defer srv.Close()
	key := ref.NewKey("sum.verif.example", "sumdb")
	v, err := f_note.NewVerifier(key.VKey())
	if err != nil {
		return err
	}
	sdb := client.NewSumDB(8, v, srv.URL, srv.Client())
	if *in != "" {
		f, err := os.Open(*in)
		if err != nil {
			return err
		}
		sc := bufio.NewScanner(f)
		for sc.Scan() {
			var tv tileVec
			if err := json.Unmarshal(sc.Bytes(), &tv); err != nil {
				return err
			}
			t := tlog.Tile{H: tv.H, L: tv.L, N: tv.N, W: tv.W}
			mu.Lock()
			lastPath, allPaths, failOnce = "", nil, k%3 == 1
			mu.Unlock()
			_, _ = shimReadTiles(sdb, []tlog.Tile{t})
			mu.Lock()
			req := lastPath
			reqs := append([]string{}, allPaths...)
			mu.Unlock()
			ev := tileEvent{E: "tile.path", Run: "paths", K: k, H: tv.H, L: tv.L, N: tv.N, W: tv.W, Req: req, Reqs: reqs, Tlog: t.Path()}
			if len(req) > 0 {
				pt, perr := tlog.ParseTilePath(req[1:])
				ev.Parsed = perr == nil && pt == t
			}
			events = append(events, ev)
			k++
		}
		f.Close()
	}
	// ---- proofs: the real sumdb feeder against a stub SumDB over a generated tree, in front of the real witness ----
	type pair struct{ from, to uint64 }
	var pairs []pair
	for to := uint64(2); to <= *maxTo; to++ {
		for from := uint64(1); from < to; from++ {
			pairs = append(pairs, pair{from, to})
		}
	}
	rng := rand.New(rand.NewSource(*seed))
	for i := 0; i < *samples; i++ {
		to := uint64(rng.Int63n(1<<20-2)) + 2
		from := uint64(rng.Int63n(int64(to-1))) + 1
		if i%4 == 0 { // tile boundaries
			b := []uint64{255, 256, 257, 511, 512, 65535, 65536, 65537, 1 << 19}[rng.Intn(9)]
			if b < to {
				from = b
			}
		}
		pairs = append(pairs, pair{from, to})
	}
	// chains: one FeedLog with a poll interval follows a log through several sizes; whatever the feeder keeps between cycles is in play
	var chains [][]uint64
	if *nchains > 0 {
		chains = [][]uint64{{100, 300, 700, 1000, 1025}, {1, 255, 256, 257, 511, 512, 513, 1024}, {200, 65000, 65536, 65537, 66000, 131072, 131073, 200000},
			{3, 70000, 70300, 70700, 140000}, {256, 512, 768, 65536, 65792}, {5, 6, 7, 8, 9, 300, 301}}
		if *kind == "pixel" {
			chains = [][]uint64{{100, 300, 500, 700}, {1, 255, 256, 257, 511, 512, 513, 690}, {256, 512, 600}, {5, 6, 7, 8, 9, 300, 301}}
		}
		if *kind == "serverless" {
			chains = nil
		}
		for j := 0; j < *nchains && *kind == "serverless"; j++ {
			var c []uint64
			cur := uint64(1 + rng.Intn(4))
			for cur <= 15 {
				c = append(c, cur)
				cur += uint64(1 + rng.Intn(6))
			}
			if len(c) >= 2 {
				chains = append(chains, c)
			}
		}
		for j := 0; j < *nchains && *kind != "serverless"; j++ {
			n := 3 + rng.Intn(5)
			lim := int64(1 << 18)
			if *kind == "pixel" {
				lim = 40
			}
			c := make([]uint64, 0, n)
			cur := uint64(rng.Int63n(600)) + 1
			for len(c) < n {
				if *kind == "pixel" && cur >= 1900 {
					break // the Pixel feeder's tile path format (%03d) is only defined below tile index 1000
				}
				c = append(c, cur)
				step := uint64(rng.Int63n(700)) + 1
				if rng.Intn(3) == 0 {
					step = uint64(rng.Int63n(lim)) + 1
				}
				cur += step
			}
			chains = append(chains, c)
		}
	}
	chainCh := make(chan []uint64, len(chains)+1)
	for _, c := range chains {
		chainCh <- c
	}
	close(chainCh)
	ch := make(chan pair, 256)
	var wg sync.WaitGroup
	var evMu sync.Mutex
	var firstErr error
	for wk := 0; wk < *workers; wk++ {
		wg.Add(1)
		go func(wk int) {
			defer wg.Done()
			tag := fmt.Sprintf("tile-%d", wk)
			origins := map[string]string{}
			if *kind == "sumdb" {
				origins["l1"] = "go.sum database tree"
			}
			base := world.New(world.Params{Logs: []string{"l1"}, MaxSize: 1, NBranch: 1, MaxLines: 6, NWitKeys: 2, Seed: *seed, RunTag: tag, Origins: origins})
			l := base.Logs["l1"]
			sl := stublog.New(l.Origin, l.Key, l.Trees)
			var h http.Handler
			slsPub := &atomic.Uint64{} // the size whose checkpoint this worker's serverless log currently publishes
			suffix := "/"
			feed := sumdb.FeedLog
			switch *kind {
			case "sumdb":
				h, suffix = sl.SumDBHandler(), ""
			case "tiles":
				h, feed = sl.TilesHandler(), tiles.FeedLog
			case "pixel":
				h, feed = sl.PixelHandler(), pixelbt.FeedLog
			case "rekor":
				h, feed, suffix = sl.RekorHandler("1234"), rekor.FeedLog, "/?treeID=1234"
			case "serverless":
				h, feed = slsHandler(slsPub), serverless.FeedLog
			}
			publish := func(n uint64) { sl.Publish(0, n) }
			rootOf := func(n uint64) []byte { r := l.Trees[0].Root(n); return r[:] }
			mkWitness := func() (*witness.Witness, error) {
				st, _ := newStore("inmem", "")
				return newWitness(base, st.p)
			}
			origin, vkey := l.Origin, l.Key.VKey()
			if *kind == "serverless" {
				origin, vkey = slstest.TestLogOrigin, slstest.TestLogPublicKey
				publish = func(n uint64) { slsPub.Store(n) }
				rootOf = slsRoot
				mkWitness = func() (*witness.Witness, error) {
					lc, err := config.NewLog(origin, vkey, "http://unused.invalid/")
					if err != nil {
						return nil, err
					}
					signers, _, err := witnessSigners(base)
					if err != nil {
						return nil, err
					}
					return newWitnessFromMap(map[string]witness.LogInfo{lc.ID: {SigV: lc.Verifier, Origin: origin, Hasher: rfc6962.DefaultHasher}}, signers)
				}
			}
			// what sits between the feeder and the log differs per worker: nothing, a compressing front end, a redirect to a canonical location
			fl := strings.Split(*fronts, ",")
			front := fl[wk%len(fl)]
			// "slowonce": ONE slow moment per cycle - the first data request after the front end was armed is answered only after 600 ms (longer
			// than the 200 ms timeout of the HTTP client behind it), everything else at once
			var slowArmed atomic.Bool
			fh := stublog.FrontEnd(h, front)
			if front == "slowonce" {
				inner := h
				fh = http.HandlerFunc(func(rw http.ResponseWriter, r *http.Request) {
					pth := strings.TrimRight(r.URL.Path, "/")
					isCP := strings.HasSuffix(pth, "/checkpoint") || strings.HasSuffix(pth, "/latest") || strings.HasSuffix(pth, "/checkpoint.txt") || strings.HasSuffix(pth, "/api/v1/log")
					if !isCP && slowArmed.CompareAndSwap(true, false) {
						select {
						case <-time.After(600 * time.Millisecond):
						case <-r.Context().Done():
							return
						}
					}
					inner.ServeHTTP(rw, r)
				})
			}
			ts := httptest.NewServer(fh)
			defer ts.Close()
			tag += "/" + front
			lc, err := config.NewLog(origin, vkey, stublog.URLOf(ts.URL, front)+suffix)
			if err != nil {
				firstErr = err
				return
			}
			hc := ts.Client()
			if front == "slowonce" {
				c2 := *hc
				c2.Timeout = 200 * time.Millisecond // (what --http_timeout is for the binary: shorter than the front end's slow moment)
				hc = &c2
			}
			failures := 0
			for p := range ch {
				if failures >= 5 {
					continue // the feeder cannot build proofs at all: a handful of failing pairs is evidence enough
				}
				st, _ := newStore("inmem", "")
				wit, err := newWitness(base, st.p)
				if err != nil {
					firstErr = err
					return
				}
				ctx, cancel := context.WithTimeout(context.Background(), 8*time.Second)
				r1 := l.Trees[0].Root(p.from)
				text := ref.CheckpointText(l.Origin, p.from, r1[:], "")
				if _, err := wit.Update(ctx, l.ID, 0, []byte(text+"\n"+l.Key.SignLegacy(text)), nil); err != nil {
					firstErr = fmt.Errorf("set-up: %v", err)
					return
				}
				sl.Publish(0, p.to)
				rw := &recWitness{inner: witnessAdapterOf(wit)}
				slowArmed.Store(true)
				ferr := feed(ctx, lc, rw, hc, 0)
				cancel()
				r2 := l.Trees[0].Root(p.to)
				ev := tileEvent{E: "tile.proof", Reqs: []string{}, Run: *kind + "/" + tag, From: p.from, To: p.to}
				rw.mu.Lock()
				if ferr == nil && rw.n == 1 {
					ev.PfLen = len(rw.proof)
					ev.RefOK = ref.VerifyConsistency(p.from, p.to, rw.proof, r1[:], r2[:])
					ev.Accepted = rw.err == nil
					ev.OldOK = rw.old == p.from
				}
				rw.mu.Unlock()
				if !ev.Accepted || !ev.RefOK {
					failures++
				}
				evMu.Lock()
				ev.K = k
				k++
				events = append(events, ev)
				evMu.Unlock()
			}
			ci := 0
			for sizes := range chainCh {
				ci++
				wit, err := mkWitness()
				if err != nil {
					firstErr = err
					return
				}
				publish(sizes[0])
				rw := &recWitness{inner: witnessAdapterOf(wit)}
				ctx, cancel := context.WithCancel(context.Background())
				done := make(chan error, 1)
				go func() { done <- feed(ctx, lc, rw, ts.Client(), 25*time.Millisecond) }()
				// waitFor waits for the feeder's first submission of a checkpoint of the given size and returns what was recorded for it
				waitFor := func(size uint64) (bool, uint64, [][]byte, error) {
					want := fmt.Sprintf("\n%d\n", size)
					deadline := time.Now().Add(4 * time.Second)
					for time.Now().Before(deadline) {
						rw.mu.Lock()
						for _, u := range rw.hist {
							if strings.Contains(string(u.cp), want) {
								rw.mu.Unlock()
								return true, u.old, u.proof, u.err
							}
						}
						rw.mu.Unlock()
						time.Sleep(5 * time.Millisecond)
					}
					return false, 0, nil, nil
				}
				got, _, _, e0 := waitFor(sizes[0])
				okSoFar := got && e0 == nil
				for j := 1; j < len(sizes); j++ {
					from, to := sizes[j-1], sizes[j]
					ev := tileEvent{E: "tile.proof", Reqs: []string{}, Run: fmt.Sprintf("%s/%s/chain%d", *kind, tag, ci), From: from, To: to}
					if okSoFar {
						// every other step of at least two leaves: a third party takes the witness half of the way between the feeder's look at
						// it and its submission (the feeder is refused as stale and has to come again from where the witness now is)
						if j%2 == 0 && to-from >= 2 && *kind != "serverless" {
							mid := from + (to-from)/2
							rm := l.Trees[0].Root(mid)
							text := ref.CheckpointText(l.Origin, mid, rm[:], "")
							cpMid := []byte(text + "\n" + l.Key.SignLegacy(text))
							pfMid := l.Trees[0].ConsistencyProof(from, mid)
							oldFrom := from
							rw.mu.Lock()
							rw.third = func() {
								if _, err := wit.Update(context.Background(), l.ID, oldFrom, cpMid, pfMid); err != nil {
									evMu.Lock()
									firstErr = fmt.Errorf("third party could not move the witness %d -> %d: %v", oldFrom, mid, err)
									evMu.Unlock()
								}
							}
							rw.mu.Unlock()
							ev.Run += "/third-party"
							from = mid
							ev.From = mid
						}
						publish(to)
						got, old, pf, e := waitFor(to)
						r1, r2 := rootOf(from), rootOf(to)
						if got {
							ev.PfLen = len(pf)
							ev.RefOK = ref.VerifyConsistency(from, to, pf, r1, r2)
							ev.Accepted = e == nil
							ev.OldOK = old == from
						}
						okSoFar = ev.Accepted && ev.RefOK
					}
					evMu.Lock()
					ev.K = k
					k++
					events = append(events, ev)
					evMu.Unlock()
					if !okSoFar {
						break // the witness is no longer where the chain needs it
					}
				}
				cancel()
				select {
				case <-done:
				case <-time.After(5 * time.Second):
				}
			}
		}(wk)
	}
	for _, p := range pairs {
		ch <- p
	}
	close(ch)
	wg.Wait()
	if firstErr != nil {
		return firstErr
	}
	if err := tw.writeRun(events); err != nil {
		return err
	}
	if err := tw.Close(); err != nil {
		return err
	}
	fmt.Printf("TILE events=%d pairs=%d\n", len(events), len(pairs))
	return nil
}

// ---- the serverless-log module's own test log (sizes 0..15, every historical checkpoint and partial tile), served over HTTP ----

func slsHandler(pub *atomic.Uint64) http.Handler {
	return http.HandlerFunc(func(rw http.ResponseWriter, r *http.Request) {
		p := strings.TrimPrefix(r.URL.Path, "/")
		if p == "checkpoint" {
			p = fmt.Sprintf("checkpoint.%d", pub.Load())
		}
		b, err := slstest.Fetcher()(r.Context(), p)
		if err != nil {
			http.NotFound(rw, r)
			return
		}
		rw.Write(b)
	})
}

// slsRoot is the root hash the test log's historical checkpoint of that size commits to.
func slsRoot(n uint64) []byte {
	b, err := slstest.Fetcher()(context.Background(), fmt.Sprintf("checkpoint.%d", n))
	if err != nil {
		return nil
	}
	lines := strings.Split(string(b), "\n")
	if len(lines) < 3 {
		return nil
	}
	h, _ := base64.StdEncoding.DecodeString(lines[2])
	return h
}
