package main

import (
	"bufio"
	"bytes"
	"context"
	"encoding/json"
	"errors"
	"flag"
	"fmt"
	"os"
	"sync"
	"time"

	"github.com/transparency-dev/formats/log"
	f_note "github.com/transparency-dev/formats/note"
	"github.com/transparency-dev/witness/internal/feeder"
	"github.com/transparency-dev/witness/verifharness/internal/ref"
	"github.com/transparency-dev/witness/verifharness/internal/world"
)

func init() { commands["feed"] = feedMain }

type feedScen struct {
	W0   json.RawMessage `json:"w0"`
	Sub  feedSub         `json:"sub"`
	Hist []feedCall      `json:"hist"`
	Out  feedOut         `json:"out"`
}
type feedSub struct {
	Auth string `json:"auth"`
	B    int    `json:"b"`
	N    int    `json:"n"`
}
type feedCall struct {
	C   string `json:"c"`
	Res string `json:"res"`
}
type feedOut struct {
	OK  bool   `json:"ok"`
	Why string `json:"why"`
}

type feedEvent struct {
	E            string          `json:"e"`
	Run          string          `json:"run"`
	K            int             `json:"k"`
	W0           json.RawMessage `json:"w0,omitempty"`
	Sub          *feedSub        `json:"sub,omitempty"`
	Out          *feedOut        `json:"out,omitempty"`
	C            string          `json:"c,omitempty"`
	Res          string          `json:"res,omitempty"`
	N            int             `json:"n"`
	Same         bool            `json:"same"`
	From         int             `json:"from"`
	To           int             `json:"to"`
	ToIsSub      bool            `json:"toissub"`
	FromIsLatest bool            `json:"fromislatest"`
	Old          int             `json:"old"`
	CPSub        bool            `json:"cpsub"`
	PF           string          `json:"pf"`
	V            string          `json:"v,omitempty"`
	OK           bool            `json:"ok"`
	RetIsUpd     bool            `json:"retisupd"`
	CtxErr       bool            `json:"ctxerr"`
	Hang         bool            `json:"hang"`
	AfterCancel  int             `json:"aftercancel"` // calls begun after the context was cancelled
}

var errTransient = errors.New("verif: transient failure")

// feedStubs stand between the real FeedOnce and (a) the real witness behind the adapter Main uses, (b) the log.
type feedStubs struct {
	mu       sync.Mutex
	w        *world.World
	l        *world.LogW
	inner    feeder.Witness
	sc       feedScen
	run      string
	calls    int
	ev       []any
	cp       []byte
	lastPF   [][]byte
	pfFresh  bool
	latest   []byte
	lastRet  []byte
	cancel   context.CancelFunc
	cancelAt int
	canceled bool
	after_   int
}

func (s *feedStubs) next(kind string) (fail bool, k int) {
	if s.canceled {
		s.after_++
	}
	k = s.calls
	s.calls++
	if k < len(s.sc.Hist) && s.sc.Hist[k].Res == "fail" {
		fail = true
	}
	return
}

func (s *feedStubs) after() {
	if s.cancelAt >= 0 && s.calls >= s.cancelAt && !s.canceled {
		s.canceled = true
		s.cancel()
	}
}

func (s *feedStubs) absSize(size uint64) int {
	for i, v := range s.w.Sigma {
		if v == size {
			return i
		}
	}
	return -1
}

func (s *feedStubs) FetchCheckpoint(ctx context.Context) ([]byte, error) {
	s.mu.Lock()
	defer s.mu.Unlock()
	fail, k := s.next("fetchcp")
	defer s.after()
	if fail {
		s.ev = append(s.ev, feedEvent{E: "feed.call", Run: s.run, K: k, C: "fetchcp", Res: "fail"})
		return nil, errTransient
	}
	s.ev = append(s.ev, feedEvent{E: "feed.call", Run: s.run, K: k, C: "fetchcp", Res: "ok"})
	return s.cp, nil
}

func (s *feedStubs) GetLatestCheckpoint(ctx context.Context, logID string) ([]byte, error) {
	s.mu.Lock()
	defer s.mu.Unlock()
	fail, k := s.next("getlatest")
	defer s.after()
	s.pfFresh = false
	if fail {
		s.ev = append(s.ev, feedEvent{E: "feed.call", Run: s.run, K: k, C: "getlatest", Res: "fail"})
		return nil, errTransient
	}
	b, err := s.inner.GetLatestCheckpoint(ctx, logID)
	ev := feedEvent{E: "feed.call", Run: s.run, K: k, C: "getlatest"}
	switch {
	case err == nil:
		p := s.w.Project(s.l, b)
		ev.Res, ev.N = "ok", p.CP.N
		ev.Same = p.CP.N == s.sc.Sub.N && p.CP.B == s.w.CanonB(s.sc.Sub.B, s.sc.Sub.N)
		s.latest = b
	case errors.Is(err, os.ErrNotExist):
		ev.Res = "none"
		s.latest = nil
	default:
		ev.Res = "fail"
	}
	s.ev = append(s.ev, ev)
	return b, err
}

func (s *feedStubs) FetchProof(ctx context.Context, from, to log.Checkpoint) ([][]byte, error) {
	s.mu.Lock()
	defer s.mu.Unlock()
	fail, k := s.next("fetchproof")
	defer s.after()
	ev := feedEvent{E: "feed.call", Run: s.run, K: k, C: "fetchproof", From: s.absSize(from.Size), To: s.absSize(to.Size)}
	if from.Size == 0 && from.Origin == "" {
		ev.From = 0
	}
	subRoot := s.w.Root(s.l, s.sc.Sub.B, s.sc.Sub.N)
	ev.ToIsSub = to.Size == s.w.Sigma[s.sc.Sub.N] && bytes.Equal(to.Hash, subRoot)
	if s.latest != nil {
		if cp, err := ref.ParseCheckpointText(s.w.Project(s.l, s.latest).Text); err == nil {
			ev.FromIsLatest = cp.Size == from.Size && bytes.Equal(cp.Root, from.Hash)
		}
	}
	if fail {
		ev.Res = "fail"
		s.ev = append(s.ev, ev)
		return nil, errTransient
	}
	ev.Res = "ok"
	s.ev = append(s.ev, ev)
	// what an honest log server of this branch answers for the sizes it was asked about
	pf := [][]byte{}
	if from.Size > 0 && from.Size < to.Size && s.sc.Sub.B < s.w.P.NBranch {
		pf = s.l.Trees[s.sc.Sub.B].ConsistencyProof(from.Size, to.Size)
	}
	s.lastPF, s.pfFresh = pf, true
	return pf, nil
}

func (s *feedStubs) Update(ctx context.Context, logID string, oldSize uint64, newCP []byte, proof [][]byte) ([]byte, error) {
	s.mu.Lock()
	defer s.mu.Unlock()
	fail, k := s.next("update")
	defer s.after()
	ev := feedEvent{E: "feed.call", Run: s.run, K: k, C: "update", Old: s.absSize(oldSize), CPSub: s.isTheFetched(newCP)}
	switch {
	case s.pfFresh && sameHashes(proof, s.lastPF):
		ev.PF = "fetched"
	case len(proof) == 0:
		ev.PF = "empty"
	default:
		ev.PF = "other"
	}
	if fail {
		ev.Res, ev.V = "fail", "transient"
		s.ev = append(s.ev, ev)
		return nil, errTransient
	}
	ret, err := s.inner.Update(ctx, logID, oldSize, newCP, proof)
	ev.V = verdict(err)
	if err == nil {
		ev.Res = "accept"
		s.lastRet = ret
	} else {
		ev.Res = "refuse"
	}
	s.ev = append(s.ev, ev)
	return ret, err
}

// isTheFetched: what is submitted is the checkpoint that was fetched and verified: the same signed text, carrying the log's valid signature
// (signature lines of keys the feeder does not know may or may not be passed on).
func (s *feedStubs) isTheFetched(submitted []byte) bool {
	if bytes.Equal(submitted, s.cp) {
		return true
	}
	a, err1 := ref.ParseNote(submitted)
	b, err2 := ref.ParseNote(s.cp)
	if err1 != nil || err2 != nil || a.Text != b.Text {
		return false
	}
	for _, sg := range a.Sigs {
		if s.l.Key.VerifyLegacy(a.Text, sg) {
			return true
		}
	}
	return false
}

// refWitness is the "recording stub" of C13: an independent reference witness (the harness' own note reader and RFC 6962
// verifier, none of the repository's witness code) that accepts exactly the justified steps. It mirrors the one known
// deviation of the real witness (a stored size of 0 cannot be left, finding F1) so that the composed model applies to both.
type refWitness struct {
	w      *world.World
	l      *world.LogW
	latest []byte
}

func (r *refWitness) GetLatestCheckpoint(ctx context.Context, id string) ([]byte, error) {
	if id != r.l.ID || r.latest == nil {
		return nil, os.ErrNotExist
	}
	return r.latest, nil
}

func (r *refWitness) Update(ctx context.Context, id string, old uint64, cp []byte, proof [][]byte) ([]byte, error) {
	if id != r.l.ID {
		return nil, errors.New("ref: unknown log")
	}
	n, err := ref.ParseNote(cp)
	if err != nil {
		return nil, errors.New("ref: malformed note")
	}
	signed := false
	for _, sg := range n.Sigs {
		signed = signed || r.l.Key.VerifyLegacy(n.Text, sg)
	}
	c, err := ref.ParseCheckpointText(n.Text)
	if !signed || err != nil || c.Origin != r.l.Origin {
		return nil, errors.New("ref: not signed by the log")
	}
	if r.latest != nil {
		pn, _ := ref.ParseNote(r.latest)
		pc, _ := ref.ParseCheckpointText(pn.Text)
		switch {
		case old > c.Size:
			return r.latest, errors.New("ref: old size too large")
		case old != pc.Size:
			return r.latest, errors.New("ref: stale")
		case c.Size == pc.Size && !bytes.Equal(c.Root, pc.Root):
			return r.latest, errors.New("ref: root mismatch")
		case pc.Size == 0 && c.Size > 0:
			return r.latest, errors.New("ref: cannot leave size 0 (F1)")
		case c.Size > pc.Size && !ref.VerifyConsistency(pc.Size, c.Size, proof, pc.Root, c.Root):
			return r.latest, errors.New("ref: invalid proof")
		case c.Size == pc.Size && len(proof) > 0:
			return r.latest, errors.New("ref: proof must be empty")
		}
	}
	out := []byte(string(cp) + r.w.WitKey.SignLegacy(n.Text) + r.w.WitKey.SignCosigV1(n.Text, uint64(time.Now().Unix())))
	r.latest = out
	return out, nil
}

var feedUseStub bool

func feedMain(args []string) error {
	fs := flag.NewFlagSet("feed", flag.ExitOnError)
	in := fs.String("in", "", "scenarios (jsonl, first line params)")
	out := fs.String("out", "", "trace")
	seed := fs.Int64("seed", 1, "seed")
	embed := fs.String("embed", "id", "embedding")
	par := fs.Int("par", 256, "scenarios in flight (the library backoff cannot be shortened)")
	fs.BoolVar(&feedUseStub, "stub", false, "put the harness' reference witness (a recording stub) behind the feeder instead of the real witness")
	_ = fs.Parse(args)
	f, err := os.Open(*in)
	if err != nil {
		return err
	}
	defer f.Close()
	sc := bufio.NewScanner(f)
	sc.Buffer(make([]byte, 1<<20), 1<<24)
	if !sc.Scan() {
		return fmt.Errorf("empty input")
	}
	var hdr seqHeader
	if err := json.Unmarshal(sc.Bytes(), &hdr); err != nil || hdr.Params == nil {
		return fmt.Errorf("bad header")
	}
	hdr.Params.Embed = *embed
	hdr.Params.Seed = *seed
	base := world.New(*hdr.Params)
	tw, err := newTraceWriter(*out)
	if err != nil {
		return err
	}
	sem := make(chan struct{}, *par)
	var wg sync.WaitGroup
	var firstErr error
	var mu sync.Mutex
	n := 0
	for sc.Scan() {
		var s feedScen
		if err := json.Unmarshal(sc.Bytes(), &s); err != nil {
			return err
		}
		n++
		id := n
		wg.Add(1)
		sem <- struct{}{}
		go func() {
			defer wg.Done()
			defer func() { <-sem }()
			ev, err := execFeed(base, s, fmt.Sprintf("f%d-%s", id, *embed), *seed)
			if err == nil {
				err = tw.writeRun(ev)
			}
			if err != nil {
				mu.Lock()
				if firstErr == nil {
					firstErr = err
				}
				mu.Unlock()
			}
		}()
	}
	wg.Wait()
	if err := tw.Close(); err != nil {
		return err
	}
	if firstErr != nil {
		return firstErr
	}
	fmt.Printf("FEED scenarios=%d events=%d\n", n, tw.n)
	return nil
}

func execFeed(base *world.World, s feedScen, tag string, seed int64) ([]any, error) {
	w := base.ForRun(tag, hashSeed(tag, seed))
	l := w.Logs["l1"]
	st, _ := newStore("inmem", "")
	wit, err := newWitness(w, st.p)
	if err != nil {
		return nil, err
	}
	ctx, cancel := context.WithTimeout(context.Background(), 90*time.Second)
	defer cancel()
	// initial witness state
	var w0 struct {
		None bool `json:"none"`
		B    int  `json:"b"`
		N    int  `json:"n"`
	}
	_ = json.Unmarshal(s.W0, &w0)
	if !w0.None {
		c := w.Concretise("l1", world.Req{Auth: "good", B: w0.B, N: w0.N, Pf: world.Pf{K: "empty"}}, nil)
		if _, err := wit.Update(ctx, c.LogID, 0, c.CP, nil); err != nil {
			return nil, fmt.Errorf("set-up: %v", err)
		}
	}
	auth := "good"
	if s.Sub.Auth != "good" {
		auth = []string{"badsig", "badtext", "unknownkey", "wrongorigin"}[w.Rng.Intn(4)]
	}
	// the log's checkpoint comes in every shape a log may publish: with extension lines, with signature lines of keys the feeder does not know
	sub := w.Concretise("l1", world.Req{Auth: auth, B: s.Sub.B, N: s.Sub.N, Extra: w.Rng.Intn(3), Ext: w.Rng.Intn(2), Pf: world.Pf{K: "empty"}}, nil)
	var inner feeder.Witness = witnessAdapterOf(wit)
	if feedUseStub {
		rw := &refWitness{w: w, l: l}
		if b, err := wit.GetCheckpoint(l.ID); err == nil {
			rw.latest = b
		}
		inner = rw
		tag += "-stub"
	}
	stubs := &feedStubs{w: w, l: l, inner: inner, sc: s, run: tag, cp: sub.CP, cancel: cancel, cancelAt: -1}
	if s.Out.Why == "ctx" {
		stubs.cancelAt = len(s.Hist)
		if stubs.cancelAt == 0 {
			stubs.cancelAt = 1
		}
	}
	v, err := f_note.NewVerifier(l.Key.VKey())
	if err != nil {
		return nil, err
	}
	events := []any{feedEvent{E: "feed.start", Run: tag, W0: s.W0, Sub: &s.Sub, Out: &s.Out}}
	type res struct {
		b   []byte
		err error
	}
	done := make(chan res, 1)
	go func() {
		b, err := feeder.FeedOnce(ctx, feeder.FeedOpts{LogID: l.ID, LogOrigin: l.Origin, LogSigVerifier: v, Witness: stubs,
			FetchCheckpoint: stubs.FetchCheckpoint, FetchProof: stubs.FetchProof})
		done <- res{b, err}
	}()
	fe := feedEvent{E: "feed.result", Run: tag}
	select {
	case r := <-done:
		stubs.mu.Lock()
		fe.OK = r.err == nil
		fe.RetIsUpd = r.err == nil && stubs.lastRet != nil && bytes.Equal(r.b, stubs.lastRet)
		fe.CtxErr = r.err != nil && ctx.Err() != nil
		stubs.mu.Unlock()
	case <-time.After(120 * time.Second):
		fe.Hang = true
	}
	stubs.mu.Lock()
	events = append(events, stubs.ev...)
	fe.K = len(stubs.ev)
	fe.AfterCancel = stubs.after_
	stubs.mu.Unlock()
	return append(events, fe), nil
}
