package main

import (
	"bytes"
	"flag"
	"fmt"
	"math/rand"

	"github.com/transparency-dev/witness/internal/witness"
)

func init() { commands["parsefuzz"] = parseFuzzMain }

// parseFuzzMain feeds seeded random and mutated byte strings to the two text parsers that face the network.
func parseFuzzMain(args []string) error {
	fs := flag.NewFlagSet("parsefuzz", flag.ExitOnError)
	out := fs.String("out", "", "trace")
	n := fs.Int("n", 20000, "inputs per parser")
	seed := fs.Int64("seed", 1, "seed")
	_ = fs.Parse(args)
	rng := rand.New(rand.NewSource(*seed))
	seeds := [][]byte{[]byte("old 5\nQUJD\nREVG\n\norigin\n5\nAAAA\n\n— sig AAAA\n"), []byte("old 0\n\nx\n"), []byte("QUJD\nREVG\n"), []byte(""), []byte("\n")}
	tw, err := newTraceWriter(*out)
	if err != nil {
		return err
	}
	var events []any
	try := func(comp string, k int, f func([]byte) error, in []byte) {
		ev := cycleEvent{E: "cycle", Run: comp, K: k, Comp: comp, Wit: "-", CP: "valid", Data: "random", Sig: "-"}
		func() {
			defer func() {
				if r := recover(); r != nil {
					ev.Outcome, ev.Sig, ev.Detail = "panic", comp+"/panic", fmt.Sprintf("%v on %q", r, in)
				}
			}()
			if err := f(in); err != nil {
				ev.Outcome = "error"
			} else {
				ev.Outcome = "result"
			}
		}()
		events = append(events, ev)
	}
	for k := 0; k < *n; k++ {
		in := mutate(rng, seeds[rng.Intn(len(seeds))])
		if k%3 == 0 {
			in = mutate(rng, in)
		}
		try("parseBody", k, func(b []byte) error { _, _, _, err := shimParseBody(bytes.NewReader(b)); return err }, in)
		try("Proof.Unmarshal", k, func(b []byte) error { var p witness.Proof; return p.Unmarshal(b) }, in)
	}
	if err := tw.writeRun(events); err != nil {
		return err
	}
	if err := tw.Close(); err != nil {
		return err
	}
	fmt.Printf("PARSEFUZZ events=%d\n", len(events))
	return nil
}
