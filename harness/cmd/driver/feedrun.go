package main

// feedrun: the LONG-RUNNING feeder (feeder.Run, as the omniwitness starts it) through several cycles against a scripted log (idle, growing)
// while a third party (another feeder, a bastion request) may move the witness between cycles. Every cycle is judged like a FeedOnce cycle:
// what is submitted is justified by what the witness reported in that same attempt (Trace_Feeder).

import (
	"context"
	"encoding/json"
	"flag"
	"fmt"
	"math/rand"
	"sync"
	"time"

	f_note "github.com/transparency-dev/formats/note"
	"github.com/transparency-dev/witness/internal/feeder"
	"github.com/transparency-dev/witness/verifharness/internal/world"
)

func init() { commands["feedrun"] = feedRunMain }

type runCycle struct {
	N     int // size the log serves in this cycle
	Third int // >0: before the cycle, a third party brings the witness to this size
}

func feedRunMain(args []string) error {
	fs := flag.NewFlagSet("feedrun", flag.ExitOnError)
	out := fs.String("out", "", "trace")
	seed := fs.Int64("seed", 1, "seed")
	nrand := fs.Int("random", 20, "random scripts besides the fixed ones")
	fs.BoolVar(&feedUseStub, "stub", false, "reference witness instead of the real one")
	_ = fs.Parse(args)
	base := world.New(world.Params{Logs: []string{"l1"}, MaxSize: 3, NBranch: 2, ForkAt: []int{1}, MaxLines: 6, NWitKeys: 2, Embed: "id", Seed: *seed})
	scripts := [][]runCycle{
		{{N: 1}, {N: 1}, {N: 1}, {N: 2}, {N: 2}, {N: 3}, {N: 3}},                     // idle log, then growth
		{{N: 2}, {N: 2}, {N: 2, Third: 3}, {N: 2}, {N: 3}, {N: 3}},                   // idle log while a third party moves the witness ahead
		{{N: 1}, {N: 1, Third: 2}, {N: 1}, {N: 2}, {N: 2, Third: 3}, {N: 2}, {N: 3}}, // ... twice
		{{N: 1}, {N: 2}, {N: 3}, {N: 3}, {N: 3}},
	}
	rng := rand.New(rand.NewSource(*seed))
	for j := 0; j < *nrand; j++ {
		var sc []runCycle
		n, wn := 1+rng.Intn(2), 0
		for k := 0; k < 5+rng.Intn(4); k++ {
			c := runCycle{N: n}
			if wn < n {
				wn = n
			}
			if rng.Intn(4) == 0 && wn < 3 {
				wn++
				c.Third = wn
			}
			sc = append(sc, c)
			if rng.Intn(3) == 0 && n < 3 {
				n++
			}
		}
		scripts = append(scripts, sc)
	}
	tw, err := newTraceWriter(*out)
	if err != nil {
		return err
	}
	var wg sync.WaitGroup
	var mu sync.Mutex
	var firstErr error
	for j, sc := range scripts {
		wg.Add(1)
		go func(j int, sc []runCycle) {
			defer wg.Done()
			ev, err := execFeedRun(base, sc, fmt.Sprintf("run%d", j), *seed)
			if err == nil {
				err = tw.writeRun(ev)
			}
			if err != nil {
				mu.Lock()
				if firstErr == nil {
					firstErr = err
				}
				mu.Unlock()
			}
		}(j, sc)
	}
	wg.Wait()
	if err := tw.Close(); err != nil {
		return err
	}
	if firstErr != nil {
		return firstErr
	}
	fmt.Printf("FEEDRUN scripts=%d events=%d\n", len(scripts), tw.n)
	return nil
}

func execFeedRun(base *world.World, script []runCycle, tag string, seed int64) ([]any, error) {
	if feedUseStub {
		tag += "-stub"
	}
	w := base.ForRun(tag, hashSeed(tag, seed))
	l := w.Logs["l1"]
	st, _ := newStore("inmem", "")
	wit, err := newWitness(w, st.p)
	if err != nil {
		return nil, err
	}
	var inner feeder.Witness = witnessAdapterOf(wit)
	var rw *refWitness
	if feedUseStub {
		rw = &refWitness{w: w, l: l}
		inner = rw
	}
	ctx, cancel := context.WithCancel(context.Background())
	defer cancel()
	stubs := &feedStubs{w: w, l: l, inner: inner, run: tag, cancel: cancel, cancelAt: -1}
	cycle := -1
	allDone := make(chan struct{})
	var once sync.Once
	// current abstract state of the witness in front of the feeder
	state := func() json.RawMessage {
		b, err := inner.GetLatestCheckpoint(ctx, l.ID)
		if err != nil {
			return json.RawMessage(`{"none":true}`)
		}
		cp := w.Project(l, b).CP
		j, _ := json.Marshal(cp)
		return j
	}
	rendered := map[int]world.Concrete{}
	fetch := func(fctx context.Context) ([]byte, error) {
		stubs.mu.Lock()
		cycle++
		if cycle >= len(script) {
			stubs.mu.Unlock()
			once.Do(func() { close(allDone) })
			<-fctx.Done()
			return nil, fctx.Err()
		}
		c := script[cycle]
		stubs.mu.Unlock()
		if c.Third > 0 {
			// the third party: an honest step from wherever the witness is, made directly on the witness
			cur := world.CP{None: true}
			if b, err := inner.GetLatestCheckpoint(ctx, l.ID); err == nil {
				cur = w.Project(l, b).CP
			}
			rq := world.Req{Auth: "good", B: 0, N: c.Third, Pf: world.Pf{K: "empty"}}
			if !cur.None {
				rq.Old = cur.N
				if cur.N != c.Third {
					rq.Pf = world.Pf{K: "right", B: 0, M: cur.N, N: c.Third}
				}
			}
			cc := w.Concretise("l1", rq, &cur)
			if _, err := inner.Update(ctx, cc.LogID, cc.OldSize, cc.CP, cc.Proof); err != nil {
				return nil, fmt.Errorf("third party could not move the witness: %v", err)
			}
		}
		// (an idle log serves byte-identical checkpoints cycle after cycle: one rendering per size; the shape varies with the size)
		sub, ok := rendered[c.N]
		if !ok {
			sub = w.Concretise("l1", world.Req{Auth: "good", B: 0, N: c.N, Extra: c.N % 3, Ext: (c.N / 2) % 2, Pf: world.Pf{K: "empty"}}, nil)
			rendered[c.N] = sub
		}
		stubs.mu.Lock()
		stubs.sc = feedScen{Sub: feedSub{Auth: "good", B: 0, N: c.N}}
		stubs.cp = sub.CP
		stubs.calls = 0
		subCopy := stubs.sc.Sub
		stubs.ev = append(stubs.ev, feedEvent{E: "feed.start", Run: tag, K: cycle, W0: state(), Sub: &subCopy, Out: &feedOut{OK: true, Why: "ctx"}})
		stubs.mu.Unlock()
		return stubs.FetchCheckpoint(fctx)
	}
	v, err := f_note.NewVerifier(l.Key.VKey())
	if err != nil {
		return nil, err
	}
	done := make(chan error, 1)
	go func() {
		done <- feeder.Run(ctx, 40*time.Millisecond, feeder.FeedOpts{LogID: l.ID, LogOrigin: l.Origin, LogSigVerifier: v, Witness: stubs,
			FetchCheckpoint: fetch, FetchProof: stubs.FetchProof})
	}()
	select {
	case <-allDone:
	case err := <-done:
		return nil, fmt.Errorf("feeder.Run returned before the script ended: %v", err)
	case <-time.After(60 * time.Second):
		return nil, fmt.Errorf("feeder.Run did not get through %d cycles in 60 s (at cycle %d)", len(script), cycle)
	}
	cancel()
	select {
	case <-done:
	case <-time.After(10 * time.Second):
		return nil, fmt.Errorf("feeder.Run did not return after its context was cancelled")
	}
	stubs.mu.Lock()
	defer stubs.mu.Unlock()
	return stubs.ev, nil
}
