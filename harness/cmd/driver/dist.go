package main

import (
	"bufio"
	"bytes"
	"context"
	"encoding/json"
	"errors"
	"flag"
	"fmt"
	"io"
	"net/http"
	"net/http/httptest"
	"net/url"
	"os"
	"strconv"
	"strings"
	"sync"
	"time"

	"github.com/transparency-dev/witness/internal/config"
	"github.com/transparency-dev/witness/internal/distribute/rest"
	"github.com/transparency-dev/witness/verifharness/internal/ref"
	"github.com/transparency-dev/witness/verifharness/internal/world"
)

func init() { commands["dist"] = distMain }

type distScen struct {
	Wit  []string `json:"wit"`
	Dist []string `json:"dist"`
}

type distEvent struct {
	E            string   `json:"e"`
	Run          string   `json:"run"`
	K            int      `json:"k"`
	Wit          []string `json:"wit,omitempty"`
	Dist         []string `json:"dist,omitempty"`
	Log          int      `json:"log"`
	Method       string   `json:"method,omitempty"`
	PathOK       bool     `json:"pathok"`
	BodyIsAnswer bool     `json:"bodyisanswer"`
	Err          bool     `json:"err"`
	Asked        []int    `json:"asked"`
	Hang         bool     `json:"hang"`
	WName        string   `json:"wname,omitempty"`
}

type distWitness struct {
	mu      sync.Mutex
	answers map[string][]byte // log id -> bytes
	errs    map[string]error
	idx     map[string]int
	asked   []int
}

func (d *distWitness) GetLatestCheckpoint(ctx context.Context, logID string) ([]byte, error) {
	d.mu.Lock()
	defer d.mu.Unlock()
	d.asked = append(d.asked, d.idx[logID])
	if e := d.errs[logID]; e != nil {
		return nil, e
	}
	return d.answers[logID], nil
}

func distMain(args []string) error {
	fs := flag.NewFlagSet("dist", flag.ExitOnError)
	in := fs.String("in", "", "scenarios (jsonl)")
	out := fs.String("out", "", "trace")
	seed := fs.Int64("seed", 1, "seed")
	workers := fs.Int("workers", 8, "parallel scenarios")
	_ = fs.Parse(args)
	f, err := os.Open(*in)
	if err != nil {
		return err
	}
	defer f.Close()
	tw, err := newTraceWriter(*out)
	if err != nil {
		return err
	}
	ch := make(chan struct {
		s  distScen
		id int
	}, 64)
	var wg sync.WaitGroup
	var firstErr error
	var mu sync.Mutex
	for i := 0; i < *workers; i++ {
		wg.Add(1)
		go func() {
			defer wg.Done()
			// one stub distributor (one listening port, kept-alive connections) per worker for all its scenarios: hundreds of thousands of
			// scenarios must not use up the machine's ephemeral ports
			host := newDistHost()
			defer host.srv.Close()
			for j := range ch {
				ev, err := execDist(j.s, fmt.Sprintf("d%d", j.id), *seed, host)
				if err == nil {
					err = tw.writeRun(ev)
				}
				if err != nil {
					mu.Lock()
					if firstErr == nil {
						firstErr = err
					}
					mu.Unlock()
				}
			}
		}()
	}
	sc := bufio.NewScanner(f)
	sc.Buffer(make([]byte, 1<<20), 1<<24)
	n := 0
	for sc.Scan() {
		var s distScen
		if err := json.Unmarshal(sc.Bytes(), &s); err != nil {
			return err
		}
		n++
		ch <- struct {
			s  distScen
			id int
		}{s, n}
	}
	close(ch)
	wg.Wait()
	if err := tw.Close(); err != nil {
		return err
	}
	if firstErr != nil {
		return firstErr
	}
	fmt.Printf("DIST scenarios=%d events=%d\n", n, tw.n)
	return nil
}

// distHost is a stub distributor whose behaviour is set per scenario.
type distHost struct {
	srv *httptest.Server
	mu  sync.Mutex
	h   http.HandlerFunc
}

func newDistHost() *distHost {
	d := &distHost{}
	d.srv = httptest.NewServer(http.HandlerFunc(func(rw http.ResponseWriter, r *http.Request) {
		d.mu.Lock()
		h := d.h
		d.mu.Unlock()
		if h == nil {
			http.Error(rw, "no scenario", 500)
			return
		}
		h(rw, r)
	}))
	return d
}

func (d *distHost) set(h http.HandlerFunc) {
	d.mu.Lock()
	d.h = h
	d.mu.Unlock()
}

func execDist(s distScen, tag string, seed int64, host *distHost) ([]any, error) {
	names := make([]string, len(s.Wit))
	for i := range names {
		names[i] = fmt.Sprintf("l%d", i+1)
	}
	w := world.New(world.Params{Logs: names, MaxSize: 3, NBranch: 1, MaxLines: 6, NWitKeys: 2, Embed: "id", Seed: seed, RunTag: tag})
	w = w.ForRun(tag, hashSeed(tag, seed))
	// the witness' key name goes into the target path as ONE escaped segment: names that need escaping are part of the menu
	// (a note key name may contain anything but white space and '+')
	wnames := []string{"witness.verif.example", "witness.verif.example/w1", "wit%2Fness%41", "witness?x=1#frag", "a/../witness", "w\u00eftness.example", "witness.verif.example", "./w"}
	// ... or the same name as the first log's key (an operator using one name for both; different keys): a signature by the LOG then bears the witness' name
	wnames = append(wnames, w.Logs[names[0]].Key.Name, w.Logs[names[0]].Key.Name)
	wname := wnames[int(hashSeed(tag+"/wname", seed)%int64(len(wnames)))]
	w.WitKey = ref.NewKey(wname, "witness")
	_, witV, err := witnessSigners(w)
	if err != nil {
		return nil, err
	}
	dw := &distWitness{answers: map[string][]byte{}, errs: map[string]error{}, idx: map[string]int{}}
	var logs []config.Log
	now := uint64(time.Now().Unix())
	cosigned := func(l *world.LogW, key *ref.Key, witSig func(text string) string, mutate func(text string) string) []byte {
		root := w.Root(l, 0, 2)
		text := ref.CheckpointText(l.Origin, w.Sigma[2], root, "")
		signedText := text
		if mutate != nil {
			text = mutate(text)
		}
		return []byte(text + "\n" + key.SignLegacy(signedText) + witSig(signedText))
	}
	goodWit := func(text string) string { return w.WitKey.SignLegacy(text) + w.WitKey.SignCosigV1(text, now) }
	for i, name := range names {
		l := w.Logs[name]
		lc, err := config.NewLog(l.Origin, l.Key.VKey(), "http://log.invalid/")
		if err != nil {
			return nil, err
		}
		logs = append(logs, lc)
		dw.idx[l.ID] = i + 1
		switch s.Wit[i] {
		case "valid":
			dw.answers[l.ID] = cosigned(l, l.Key, goodWit, nil)
		case "missing":
			dw.errs[l.ID] = os.ErrNotExist
		case "error":
			dw.errs[l.ID] = errors.New("witness unavailable")
		case "wronglogkey":
			dw.answers[l.ID] = cosigned(l, ref.NewKey(l.Key.Name, "impostor"), goodWit, nil)
		case "nowitsig":
			dw.answers[l.ID] = cosigned(l, l.Key, func(string) string { return "" }, nil)
		case "badwitsig":
			dw.answers[l.ID] = cosigned(l, l.Key, func(text string) string { return w.WitKey.SignCosigV1(text+"x", now) }, nil)
		case "corrupted":
			dw.answers[l.ID] = cosigned(l, l.Key, goodWit, func(text string) string { return strings.Replace(text, "\n2\n", "\n3\n", 1) })
		case "otherlog":
			other := w.Logs[names[(i+1)%len(names)]]
			if other == l {
				o2 := *l
				o2.Origin = l.Origin + "/other"
				other = &o2
			}
			dw.answers[l.ID] = cosigned(other, other.Key, goodWit, nil)
		default:
			return nil, fmt.Errorf("unknown witness answer %q", s.Wit[i])
		}
	}
	var mu sync.Mutex
	events := []any{distEvent{E: "dist.start", Run: tag, Wit: s.Wit, Dist: s.Dist, Asked: []int{}, WName: wname}}
	k := 0
	host.set(http.HandlerFunc(func(rw http.ResponseWriter, r *http.Request) {
		body, _ := io.ReadAll(r.Body)
		mu.Lock()
		defer mu.Unlock()
		p := r.URL.EscapedPath()
		moved := strings.HasPrefix(p, "/moved")
		p = strings.TrimPrefix(p, "/moved")
		li := 0
		pathOK := false
		for i, name := range names {
			l := w.Logs[name]
			want := fmt.Sprintf("/distributor/v0/logs/%s/byWitness/%s/checkpoint", l.ID, url.PathEscape(w.WitKey.Name))
			if p == want {
				li, pathOK = i+1, true
			}
		}
		if li == 0 {
			for i, name := range names { // a wrong path that still mentions a log id
				if strings.Contains(p, w.Logs[name].ID) {
					li = i + 1
				}
			}
		}
		ans := "404"
		if li > 0 {
			ans = s.Dist[li-1]
		}
		if r.Method == http.MethodPut {
			k++
			var id string
			if li > 0 {
				id = w.Logs[names[li-1]].ID
			}
			events = append(events, distEvent{E: "dist.put", Run: tag, K: k, Log: li, Method: r.Method, PathOK: pathOK,
				BodyIsAnswer: li > 0 && bytes.Equal(body, dw.answers[id]), Asked: []int{}})
		}
		if moved {
			rw.WriteHeader(200)
			return
		}
		if strings.HasSuffix(ans, "then200") {
			// transient: the first PUT for this log gets the status in front, any later one 200
			first := true
			for _, e := range events {
				if de, ok := e.(distEvent); ok && de.E == "dist.put" && de.Log == li && de.K != k {
					first = false
				}
			}
			if first {
				code, _ := strconv.Atoi(ans[:3])
				http.Error(rw, "try again", code)
			} else {
				rw.WriteHeader(200)
			}
			return
		}
		switch ans {
		case "200":
			rw.WriteHeader(200)
		case "slow200":
			mu.Unlock()
			time.Sleep(120 * time.Millisecond)
			mu.Lock()
			rw.WriteHeader(200)
		case "404":
			http.Error(rw, "no such log", 404)
		case "500":
			http.Error(rw, "boom", 500)
		case "connerr":
			if hj, ok := rw.(http.Hijacker); ok {
				c, _, _ := hj.Hijack()
				c.Close()
			}
		case "redirect302":
			http.Redirect(rw, r, "/moved"+r.URL.EscapedPath(), http.StatusFound)
		case "redirect307":
			http.Redirect(rw, r, "/moved"+r.URL.EscapedPath(), http.StatusTemporaryRedirect)
		}
	}))
	defer host.set(nil)
	srv := host.srv
	d, err := rest.NewDistributor(srv.URL, srv.Client(), logs, witV, dw)
	if err != nil {
		return nil, err
	}
	done := make(chan error, 1)
	go func() { done <- d.DistributeOnce(context.Background()) }()
	re := distEvent{E: "dist.result", Run: tag}
	select {
	case err := <-done:
		re.Err = err != nil
	case <-time.After(60 * time.Second):
		re.Hang = true
	}
	mu.Lock()
	defer mu.Unlock()
	dw.mu.Lock()
	re.Asked = append([]int{}, dw.asked...)
	dw.mu.Unlock()
	re.K = k + 1
	return append(events, re), nil
}
