package main

import (
	"bufio"
	"context"
	"database/sql"
	"encoding/json"
	"flag"
	"fmt"
	"io"
	"net"
	"net/http"
	"net/http/httptest"
	"net/http/httputil"
	"net/url"
	"os"
	"path/filepath"
	"strings"
	"sync"
	"time"

	"github.com/transparency-dev/witness/internal/persistence"
	"github.com/transparency-dev/witness/internal/persistence/inmemory"
	psql "github.com/transparency-dev/witness/internal/persistence/sql"
	"github.com/transparency-dev/witness/omniwitness"
	"github.com/transparency-dev/witness/verifharness/internal/stublog"
	"github.com/transparency-dev/witness/verifharness/internal/world"
)

func init() { commands["omni"] = omniMain }

type omniEv struct {
	A string `json:"a"` // grow | fork | restart
	L string `json:"l,omitempty"`
	B int    `json:"b"`
	N int    `json:"n"`
}

type omniSched struct {
	ID     string    `json:"id"`
	Store  string    `json:"store"` // inmem | sqlfile
	Sigma  []uint64  `json:"sigma"`
	Events []omniEv  `json:"events"`
	Types  [2]string `json:"types"` // feeder type of l1, l2: sumdb | tiles
	Start  int       `json:"start"` // abstract size every log publishes first (default 1)
	// Partial makes outages partial: the log's checkpoint endpoint keeps answering, everything else (tiles, proofs) fails.
	Partial bool `json:"partial"`
	// NoneFirst lists the feeder-less entry before the polled logs whatever the schedule's hash says.
	NoneFirst bool `json:"nonefirst"`
	// Proxy (production binary only): the logs are reachable only through an egress proxy announced in the environment (HTTP_PROXY), as on
	// hosts without direct access to the outside; their URLs carry host names only the proxy can resolve.
	Proxy bool `json:"proxy"`
	// Stall makes outages silent: the log server accepts every request and then says nothing at all (the connection stays open for the rest of
	// the run). Only the HTTP client's own timeout ends such a request; requests made after the outage are answered normally.
	Stall bool `json:"stall"`
}

type omniEvent struct {
	E        string    `json:"e"`
	Run      string    `json:"run"`
	K        int       `json:"k"`
	A        string    `json:"a,omitempty"`
	L        string    `json:"l,omitempty"`
	B        int       `json:"b"`
	N        int       `json:"n"`
	Served   *world.CP `json:"served,omitempty"`
	Cosigned bool      `json:"cosigned"`
	WaitedMS int       `json:"waitedms"`
	Polls    int       `json:"polls"` // requests the stub log saw while we waited
	Durable  bool      `json:"durable"`
	Status   int       `json:"status"`
	MainErr  string    `json:"mainerr"`
}

const omniInterval = 250 * time.Millisecond

func omniMain(args []string) error {
	fs := flag.NewFlagSet("omni", flag.ExitOnError)
	in := fs.String("in", "", "schedules (jsonl)")
	out := fs.String("out", "", "trace")
	dir := fs.String("dir", os.TempDir(), "scratch")
	seed := fs.Int64("seed", 1, "seed")
	prod := fs.String("prod", "", "production binary: run the service as cmd/omniwitness in a child process (a restart is a SIGKILL)")
	_ = fs.Parse(args)
	omniProdBin = *prod
	f, err := os.Open(*in)
	if err != nil {
		return err
	}
	defer f.Close()
	tw, err := newTraceWriter(*out)
	if err != nil {
		return err
	}
	sc := bufio.NewScanner(f)
	sc.Buffer(make([]byte, 1<<20), 1<<24)
	n := 0
	for sc.Scan() {
		s := omniSched{Start: 1}
		if err := json.Unmarshal(sc.Bytes(), &s); err != nil {
			return err
		}
		ev, err := execOmni(s, *dir, *seed)
		if err != nil {
			return fmt.Errorf("schedule %s: %v", s.ID, err)
		}
		if err := tw.writeRun(ev); err != nil {
			return err
		}
		n++
	}
	if err := tw.Close(); err != nil {
		return err
	}
	fmt.Printf("OMNI schedules=%d events=%d\n", n, tw.n)
	return nil
}

type omniSvc struct {
	cancel context.CancelFunc
	done   chan error
	addr   string
	proc   *prodProc
}

// omniProdBin, when set, makes the service under observation the production binary instead of an in-process omniwitness.Main.
var omniProdBin string

func startOmniProd(w *world.World, yaml, dir, tag, db string, env []string) (*omniSvc, error) {
	p, err := startProd(prodCfg{Bin: omniProdBin, Dir: dir, Tag: tag, Yaml: yaml, WitSKey: w.WitKey.SKey(), DB: db, Poll: omniInterval, Dist: omniDistURL, Env: env})
	if err != nil {
		return nil, err
	}
	return &omniSvc{addr: p.api, proc: p}, nil
}

// distSink is a stub distributor: it records what the service's REST distributor pushes.
type distSink struct {
	mu   sync.Mutex
	puts []distPut
	srv  *httptest.Server
}

type distPut struct {
	path string
	body []byte
}

func newDistSink() *distSink {
	d := &distSink{}
	d.srv = httptest.NewServer(http.HandlerFunc(func(rw http.ResponseWriter, r *http.Request) {
		b, _ := io.ReadAll(r.Body)
		d.mu.Lock()
		d.puts = append(d.puts, distPut{path: r.Method + " " + r.URL.EscapedPath(), body: b})
		d.mu.Unlock()
		rw.WriteHeader(200)
	}))
	return d
}

func (d *distSink) take() []distPut {
	d.mu.Lock()
	defer d.mu.Unlock()
	p := d.puts
	d.puts = nil
	return p
}

var omniDistURL string

func startOmni(w *world.World, p persistence.LogStatePersistence) (*omniSvc, error) {
	signers, witV, err := witnessSigners(w)
	if err != nil {
		return nil, err
	}
	ln, err := net.Listen("tcp", "127.0.0.1:0")
	if err != nil {
		return nil, err
	}
	ctx, cancel := context.WithCancel(context.Background())
	s := &omniSvc{cancel: cancel, done: make(chan error, 1), addr: ln.Addr().String()}
	go func() {
		s.done <- omniwitness.Main(ctx, omniwitness.OperatorConfig{WitnessKeys: signers, WitnessVerifier: witV, FeedInterval: omniInterval,
			RestDistributorBaseURL: omniDistURL, DistributeInterval: omniInterval},
			p, ln, &http.Client{Timeout: 2 * time.Second})
	}()
	return s, nil
}

func (s *omniSvc) stop() string {
	if s.proc != nil {
		if !s.proc.alive() {
			return "the production binary had exited: " + tailOf(s.proc.log.String(), 600)
		}
		s.proc.kill()
		return ""
	}
	s.cancel()
	select {
	case err := <-s.done:
		if err != nil && err != context.Canceled && err != http.ErrServerClosed {
			return err.Error()
		}
		return ""
	case <-time.After(20 * time.Second):
		return "Main did not return after its context was cancelled"
	}
}

func execOmni(s omniSched, dir string, seed int64) ([]any, error) {
	tag := s.ID
	p := world.Params{Logs: []string{"l1", "l2"}, MaxSize: len(s.Sigma) - 1, NBranch: 2, ForkAt: []int{1}, MaxLines: 6, NWitKeys: 2, Seed: seed, RunTag: tag, Sigma: s.Sigma,
		Origins: map[string]string{}}
	for i, t := range s.Types {
		if t == "sumdb" {
			p.Origins[p.Logs[i]] = "go.sum database tree"
		}
	}
	w := world.New(p)
	w = w.ForRun(tag, hashSeed(tag, seed))
	logs := map[string]*stublog.Log{}
	// as in the shipped configuration, a log without a feeder (it is only served through the bastion) is listed among the polled ones:
	// FIRST in every other schedule, last otherwise
	noneEntry := fmt.Sprintf("  - Origin: verif.example/%s/bastion-only\n    URL: https://bastion-only.invalid\n    PublicKey: %s\n    Feeder: none\n", tag, w.Logs["l1"].Key.VKey())
	noneFirst := hashSeed(tag, seed)%2 == 0 || s.NoneFirst
	yaml := "Logs:\n"
	if noneFirst {
		yaml += noneEntry
	}
	var servers []*httptest.Server
	defer func() {
		for _, sv := range servers {
			sv.Close()
		}
	}()
	// an egress proxy: it alone knows where *.egress.verif.test lives (this machine); the binary learns about the proxy from its environment only
	var prodEnv []string
	viaProxy := s.Proxy && omniProdBin != ""
	if viaProxy {
		px := httptest.NewServer(&httputil.ReverseProxy{Director: func(r *http.Request) {
			if h, port, err := net.SplitHostPort(r.URL.Host); err == nil && strings.HasSuffix(h, ".egress.verif.test") {
				r.URL.Host = "127.0.0.1:" + port
			}
			r.URL.Scheme = "http"
		}})
		servers = append(servers, px)
		prodEnv = []string{"HTTP_PROXY=" + px.URL, "http_proxy=" + px.URL, "NO_PROXY=", "no_proxy="}
	}
	for i, name := range p.Logs {
		l := w.Logs[name]
		sl := stublog.New(l.Origin, l.Key, l.Trees)
		sl.Publish(0, w.Sigma[s.Start])
		logs[name] = sl
		var h http.Handler
		if s.Types[i] == "sumdb" {
			h = sl.SumDBHandler()
		} else {
			h = sl.TilesHandler()
		}
		// in front of the log: nothing, a compressing front end or a redirect to a canonical location (fixed per schedule and log)
		front := []string{"plain", "gzip", "redirect", "prefix"}[int(hashSeed(tag+"/front/"+name, seed)%4)]
		sv := httptest.NewServer(stublog.FrontEnd(h, front))
		servers = append(servers, sv)
		url := stublog.URLOf(sv.URL, front)
		if viaProxy {
			url = strings.Replace(url, "127.0.0.1", name+".egress.verif.test", 1)
		}
		if s.Types[i] == "tiles" {
			url += "/"
		}
		yaml += fmt.Sprintf("  - Origin: %s\n    URL: %s\n    PublicKey: %s\n    Feeder: %s\n", l.Origin, url, l.Key.VKey(), s.Types[i])
	}
	if !noneFirst {
		yaml += noneEntry
	}
	omniwitness.ConfigLogs = []byte(yaml)
	var pers persistence.LogStatePersistence
	durable := s.Store == "sqlfile"
	var db *sql.DB
	dbPath := filepath.Join(dir, "omni-"+tag+".db")
	openStore := func() error {
		if omniProdBin != "" {
			return nil
		}
		if durable {
			var err error
			db, err = sql.Open("sqlite3", dbPath)
			if err != nil {
				return err
			}
			db.SetMaxOpenConns(1)
			pers = psql.NewPersistence(db)
		} else if pers == nil {
			pers = inmemory.NewPersistence()
		}
		return nil
	}
	if err := openStore(); err != nil {
		return nil, err
	}
	defer func() {
		if db != nil {
			db.Close()
		}
		os.Remove(dbPath)
		os.Remove(dbPath + "-journal")
	}()
	sink := newDistSink()
	defer sink.srv.Close()
	omniDistURL = sink.srv.URL
	start := func() (*omniSvc, error) {
		if omniProdBin != "" {
			dbp := ""
			if durable {
				dbp = dbPath
			}
			return startOmniProd(w, yaml, dir, tag, dbp, prodEnv)
		}
		return startOmni(w, pers)
	}
	svc, err := start()
	if err != nil {
		return nil, err
	}
	defer func() {
		if svc != nil && svc.proc != nil && svc.proc.alive() {
			svc.proc.kill()
		}
	}()
	events := []any{omniEvent{E: "omni.start", Run: tag, Durable: durable, N: s.Start}}
	// what the distributor pushed since the last look: projected, with path and signature checks
	drainPuts := func() {
		for _, pt := range sink.take() {
			ev := omniEvent{E: "omni.put", Run: tag, K: 0, L: "?"}
			for _, name := range p.Logs {
				l := w.Logs[name]
				want := fmt.Sprintf("PUT /distributor/v0/logs/%s/byWitness/%s/checkpoint", l.ID, url.PathEscape(w.WitKey.Name))
				if pt.path == want {
					ev.L = name
					pr := w.Project(l, pt.body)
					c := pr.CP
					ev.Served = &c
					ev.Cosigned = pr.OK && pr.LogSigValid && pr.WitCosig == 1 && pr.WitForged == 0
				}
			}
			if ev.Served == nil {
				c := world.CP{B: 99, N: 99, Lines: 99, Ext: 99}
				ev.Served = &c
			}
			events = append(events, ev)
		}
	}
	k := 0
	get := func(name string) (world.CP, bool, int) {
		l := w.Logs[name]
		resp, err := http.Get(fmt.Sprintf("http://%s/witness/v0/logs/%s/checkpoint", svc.addr, l.ID))
		if err != nil {
			return world.CP{None: true}, false, -1
		}
		defer resp.Body.Close()
		b, _ := io.ReadAll(resp.Body)
		if resp.StatusCode != 200 {
			return world.CP{None: true}, false, resp.StatusCode
		}
		pr := w.Project(l, b)
		return pr.CP, pr.OK && pr.LogSigValid && pr.WitCosig == 1 && pr.WitLegacy == 1 && pr.WitForged == 0, 200
	}
	// observe waits until log `name` serves `want` (or the deadline passes) and records what is served
	observe := func(name string, want *world.CP, settle time.Duration) {
		t0 := time.Now()
		deadline := 100 * omniInterval
		var cp world.CP
		var cos bool
		var st int
		for {
			cp, cos, st = get(name)
			if want != nil && !cp.None && cp.B == want.B && cp.N == want.N && time.Since(t0) >= settle {
				break
			}
			if want == nil && time.Since(t0) >= settle {
				break
			}
			if time.Since(t0) > deadline {
				break
			}
			time.Sleep(omniInterval / 10)
		}
		drainPuts()
		k++
		c := cp
		events = append(events, omniEvent{E: "omni.obs", Run: tag, K: k, L: name, Served: &c, Cosigned: cos || cp.None, WaitedMS: int(time.Since(t0) / time.Millisecond),
			Polls: len(logs[name].Paths()), Status: st})
	}
	expect := func(name string) *world.CP {
		b, size := logs[name].Published()
		for n, v := range w.Sigma {
			if v == size {
				return &world.CP{B: w.CanonB(b, n), N: n}
			}
		}
		return nil
	}
	last := map[string]*world.CP{}
	isDown := map[string]bool{}
	consistent := func(name string) bool { // does the published checkpoint extend what was last served (and is the log reachable)?
		if isDown[name] {
			return false
		}
		prev, want := last[name], expect(name)
		if prev == nil || prev.None {
			return true
		}
		if want == nil || want.N < prev.N {
			return false
		}
		// same tree prefix: canonical branch of the published branch at the old size equals the old branch
		b, _ := logs[name].Published()
		return w.CanonB(b, prev.N) == prev.B
	}
	settleAll := func() {
		for _, name := range p.Logs {
			if consistent(name) {
				observe(name, expect(name), 0)
			} else {
				observe(name, nil, 8*omniInterval) // must NOT move: watch for a while
			}
			if len(events) > 0 {
				if oe, ok := events[len(events)-1].(omniEvent); ok && oe.Served != nil {
					c := *oe.Served
					last[name] = &c
				}
			}
		}
	}
	settleAll()
	runOver := make(chan struct{})
	defer close(runOver)
	for _, e := range s.Events {
		k++
		switch e.A {
		case "grow", "fork":
			logs[e.L].Publish(e.B, w.Sigma[e.N])
			events = append(events, omniEvent{E: "omni.ev", Run: tag, K: k, A: e.A, L: e.L, B: e.B, N: e.N})
		case "outage", "recover":
			down := e.A == "outage"
			isDown[e.L] = down
			if down {
				partial := s.Partial
				stall := s.Stall
				logs[e.L].SetHostile(func(rw http.ResponseWriter, r *http.Request) bool {
					if partial && (r.URL.Path == "/latest" || r.URL.Path == "/checkpoint") {
						return false
					}
					if stall {
						select {
						case <-runOver:
						case <-r.Context().Done():
						}
						return true
					}
					http.Error(rw, "outage", 503)
					return true
				})
			} else {
				logs[e.L].SetHostile(nil)
			}
			events = append(events, omniEvent{E: "omni.ev", Run: tag, K: k, A: e.A, L: e.L})
		case "restart":
			msg := svc.stop()
			if db != nil {
				db.Close()
				db = nil
			}
			if durable && k%2 == 0 {
				// every other restart is an upgrade: the file is brought into the form the pinned release leaves behind
				if err := rewriteAsRelease(dbPath); err != nil {
					return nil, err
				}
			}
			if err := openStore(); err != nil {
				return nil, err
			}
			svc, err = start()
			if err != nil {
				return nil, err
			}
			events = append(events, omniEvent{E: "omni.ev", Run: tag, K: k, A: "restart", MainErr: msg, Durable: durable})
		}
		settleAll()
	}
	if msg := svc.stop(); msg != "" {
		k++
		events = append(events, omniEvent{E: "omni.ev", Run: tag, K: k, A: "stop", MainErr: msg})
	}
	return events, nil
}
