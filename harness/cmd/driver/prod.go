package main

// The PRODUCTION BINARY as the system under observation: /repo/cmd/omniwitness built as it ships (flags, sql.Open,
// SetMaxOpenConns, metric factory, omniwitness.Main), with one add-only overlay file that points the exported
// omniwitness.ConfigLogs at a generated configuration. It is reached the way the outside world reaches it: through a
// (stub) bastion it dials, through its read API, and through the (stub) logs its feeders poll.

import (
	"bufio"
	"bytes"
	"context"
	"crypto/ecdsa"
	"crypto/ed25519"
	"crypto/elliptic"
	"crypto/rand"
	"crypto/sha256"
	"crypto/tls"
	"crypto/x509"
	"crypto/x509/pkix"
	"database/sql"
	"encoding/json"
	"encoding/pem"
	"flag"
	"fmt"
	"io"
	"math/big"
	mrand "math/rand"
	"net"
	"net/http"
	"os"
	"os/exec"
	"path/filepath"
	"sort"
	"strconv"
	"strings"
	"sync"
	"syscall"
	"time"

	wapi "github.com/transparency-dev/witness/api"
	"github.com/transparency-dev/witness/verifharness/internal/ref"
	"github.com/transparency-dev/witness/verifharness/internal/world"
	"golang.org/x/net/http2"
)

func init() {
	commands["prod-conc"] = prodConcMain
	commands["prod-crash"] = prodCrashMain
}

// ---- stub bastion ----

type stubBastion struct {
	ln     net.Listener
	caFile string
}

func newStubBastion(dir, tag string) (*stubBastion, error) {
	key, _ := ecdsa.GenerateKey(elliptic.P256(), rand.Reader)
	tmpl := &x509.Certificate{SerialNumber: big.NewInt(1), Subject: pkix.Name{CommonName: "stub bastion"}, NotBefore: time.Now().Add(-time.Hour), NotAfter: time.Now().Add(24 * time.Hour),
		KeyUsage: x509.KeyUsageDigitalSignature | x509.KeyUsageCertSign, ExtKeyUsage: []x509.ExtKeyUsage{x509.ExtKeyUsageServerAuth}, IsCA: true, BasicConstraintsValid: true,
		DNSNames: []string{"localhost"}, IPAddresses: []net.IP{net.ParseIP("127.0.0.1")}}
	der, err := x509.CreateCertificate(rand.Reader, tmpl, tmpl, &key.PublicKey, key)
	if err != nil {
		return nil, err
	}
	caFile := filepath.Join(dir, "stub-bastion-ca-"+tag+".pem")
	if err := os.WriteFile(caFile, pem.EncodeToMemory(&pem.Block{Type: "CERTIFICATE", Bytes: der}), 0o644); err != nil {
		return nil, err
	}
	ln, err := tls.Listen("tcp", "127.0.0.1:0", &tls.Config{Certificates: []tls.Certificate{{Certificate: [][]byte{der}, PrivateKey: key}},
		MinVersion: tls.VersionTLS13, NextProtos: []string{"bastion/0"}, ClientAuth: tls.RequestClientCert})
	if err != nil {
		return nil, err
	}
	return &stubBastion{ln: ln, caFile: caFile}, nil
}

func (b *stubBastion) close()       { b.ln.Close(); os.Remove(b.caFile) }
func (b *stubBastion) addr() string { return b.ln.Addr().String() }

// accept waits for the witness to dial in (it does so on a 5 s ticker, also after a connection was lost).
func (b *stubBastion) accept(timeout time.Duration) (*tls.Conn, *http2.ClientConn, time.Duration, error) {
	type acc struct {
		c   net.Conn
		err error
	}
	t0 := time.Now()
	ch := make(chan acc, 1)
	go func() { c, err := b.ln.Accept(); ch <- acc{c, err} }()
	var conn net.Conn
	select {
	case a := <-ch:
		if a.err != nil {
			return nil, nil, 0, a.err
		}
		conn = a.c
	case <-time.After(timeout):
		return nil, nil, 0, fmt.Errorf("the witness did not connect to the stub bastion within %v", timeout)
	}
	tc := conn.(*tls.Conn)
	if err := tc.Handshake(); err != nil {
		return nil, nil, 0, fmt.Errorf("handshake: %v", err)
	}
	cs := tc.ConnectionState()
	if cs.Version != tls.VersionTLS13 || cs.NegotiatedProtocol != "bastion/0" {
		return nil, nil, 0, fmt.Errorf("unexpected connection: tls %x alpn %q", cs.Version, cs.NegotiatedProtocol)
	}
	cc, err := (&http2.Transport{}).NewClientConn(tc)
	return tc, cc, time.Since(t0), err
}

func postVia(cc *http2.ClientConn, body []byte, timeout time.Duration) (int, string, []byte) {
	req, _ := http.NewRequest(http.MethodPost, "https://bastion.invalid/add-checkpoint", bytes.NewReader(body))
	ctx, cancel := context.WithTimeout(context.Background(), timeout)
	defer cancel()
	resp, err := cc.RoundTrip(req.WithContext(ctx))
	if err != nil {
		return -2, "", []byte(err.Error())
	}
	defer resp.Body.Close()
	b, err := io.ReadAll(resp.Body)
	if err != nil {
		return -2, "", []byte(err.Error())
	}
	return resp.StatusCode, resp.Header.Get("Content-Type"), b
}

// ---- the production process ----

type prodCfg struct {
	Bin     string
	Dir     string
	Tag     string
	Yaml    string // log configuration
	WitSKey string
	DB      string // sqlite file ("" = in-memory persistence, as the binary does without --db_file)
	Bastion string // stub bastion address ("" = none)
	CAFile  string
	Poll    time.Duration
	Dist    string
	Env     []string // further environment of the process (HTTP_PROXY=...: the host it runs on reaches the outside through an egress proxy)
	Rate    float64
	RateSet bool // Rate is meant even when it is 0
	Metrics bool // serve Prometheus metrics (the binary's --metrics_listen) on a free port
}

type tailBuf struct {
	mu sync.Mutex
	b  []byte
}

func (t *tailBuf) Write(p []byte) (int, error) {
	t.mu.Lock()
	t.b = append(t.b, p...)
	if len(t.b) > 1<<16 {
		t.b = t.b[len(t.b)-1<<15:]
	}
	t.mu.Unlock()
	return len(p), nil
}
func (t *tailBuf) String() string { t.mu.Lock(); defer t.mu.Unlock(); return string(t.b) }

type prodProc struct {
	cmd     *exec.Cmd
	api     string
	metrics string
	log     *tailBuf
	exited  chan struct{}
	files   []string
}

func freePort() (string, error) {
	ln, err := net.Listen("tcp", "127.0.0.1:0")
	if err != nil {
		return "", err
	}
	defer ln.Close()
	return ln.Addr().String(), nil
}

func bastionKeyPEM() []byte {
	seedKey := sha256.Sum256([]byte("verif bastion backend key"))
	priv := ed25519.NewKeyFromSeed(seedKey[:])
	der, err := x509.MarshalPKCS8PrivateKey(priv)
	if err != nil {
		panic(err)
	}
	return pem.EncodeToMemory(&pem.Block{Type: "PRIVATE KEY", Bytes: der})
}

// startProd launches the binary and waits until its read API answers (or it exits).
func startProd(c prodCfg) (*prodProc, error) {
	var lastErr error
	for attempt := 0; attempt < 5; attempt++ {
		p, err := startProdOnce(c)
		if err == nil {
			return p, nil
		}
		lastErr = err
		if !strings.Contains(err.Error(), "failed to listen") {
			break
		}
	}
	return nil, lastErr
}

func startProdOnce(c prodCfg) (*prodProc, error) {
	api, err := freePort()
	if err != nil {
		return nil, err
	}
	yamlPath := filepath.Join(c.Dir, "logs-"+c.Tag+".yaml")
	if err := os.WriteFile(yamlPath, []byte(c.Yaml), 0o644); err != nil {
		return nil, err
	}
	files := []string{yamlPath}
	// Prometheus metrics are ON in the shipped default (--metrics_listen :8081): the binary always runs with its real metric factory here
	maddr, err := freePort()
	if err != nil {
		return nil, err
	}
	args := []string{"--listen", api, "--metrics_listen", maddr, "--private_key", c.WitSKey, "--poll_interval", c.Poll.String(), "--logtostderr", "--v=2", "--http_timeout", "2s"} // (--v=2 as in cmd/omniwitness/docker-compose.yaml)
	if c.DB != "" {
		args = append(args, "--db_file", c.DB)
	}
	if c.Dist != "" {
		args = append(args, "--rest_distro_url", c.Dist)
	}
	if c.Bastion != "" {
		keyPath := filepath.Join(c.Dir, "bastion-key-"+c.Tag+".pem")
		if err := os.WriteFile(keyPath, bastionKeyPEM(), 0o600); err != nil {
			return nil, err
		}
		files = append(files, keyPath)
		rate := c.Rate
		if rate == 0 && !c.RateSet {
			rate = 1e6
		}
		args = append(args, "--bastion_addr", c.Bastion, "--bastion_key_path", keyPath, "--bastion_rate_limit", fmt.Sprint(rate))
	}
	cmd := exec.Command(c.Bin, args...)
	cmd.Env = append(os.Environ(), "VERIF_LOGS_YAML="+yamlPath)
	cmd.Env = append(cmd.Env, c.Env...)
	if c.CAFile != "" {
		cmd.Env = append(cmd.Env, "SSL_CERT_FILE="+c.CAFile, "SSL_CERT_DIR=/nonexistent")
	}
	lg := &tailBuf{}
	cmd.Stderr = lg
	cmd.Stdout = lg
	if err := cmd.Start(); err != nil {
		return nil, err
	}
	p := &prodProc{cmd: cmd, api: api, metrics: maddr, log: lg, exited: make(chan struct{}), files: files}
	go func() { _ = cmd.Wait(); close(p.exited) }()
	deadline := time.Now().Add(20 * time.Second)
	for time.Now().Before(deadline) {
		select {
		case <-p.exited:
			return nil, fmt.Errorf("the binary exited during start-up: %s", tailOf(lg.String(), 1500))
		default:
		}
		resp, err := http.Get("http://" + api + wapi.HTTPGetLogs)
		if err == nil {
			io.Copy(io.Discard, resp.Body)
			resp.Body.Close()
			return p, nil
		}
		time.Sleep(20 * time.Millisecond)
	}
	p.kill()
	return nil, fmt.Errorf("the binary's read API did not come up within 20 s: %s", tailOf(lg.String(), 1500))
}

func tailOf(s string, n int) string {
	if len(s) > n {
		return s[len(s)-n:]
	}
	return s
}

func (p *prodProc) alive() bool {
	select {
	case <-p.exited:
		return false
	default:
		return true
	}
}

// kill is SIGKILL: the process gets no chance to clean up.
func (p *prodProc) kill() {
	_ = p.cmd.Process.Signal(syscall.SIGKILL)
	<-p.exited
	for _, f := range p.files {
		os.Remove(f)
	}
}

// scrape reads the binary's Prometheus endpoint: counter name (without the omniwitness_ prefix) -> logid label -> value.
func (p *prodProc) scrape() (map[string]map[string]int, error) {
	resp, err := http.Get("http://" + p.metrics + "/metrics")
	if err != nil {
		return nil, err
	}
	defer resp.Body.Close()
	if resp.StatusCode != 200 {
		return nil, fmt.Errorf("metrics endpoint answered %d", resp.StatusCode)
	}
	out := map[string]map[string]int{}
	sc := bufio.NewScanner(resp.Body)
	sc.Buffer(make([]byte, 1<<20), 1<<24)
	for sc.Scan() {
		line := sc.Text()
		k := strings.Index(line, "witness_update_")
		if strings.HasPrefix(line, "#") || k < 0 {
			continue
		}
		i, j := strings.Index(line, `{logid="`), strings.Index(line, `"} `)
		if i < k || j < i {
			continue
		}
		name, id := line[k:i], line[i+8:j] // whatever prefix the operator's factory puts in front of the name
		var v float64
		if _, err := fmt.Sscanf(line[j+3:], "%g", &v); err != nil {
			return nil, fmt.Errorf("unparsable sample %q", line)
		}
		if out[name] == nil {
			out[name] = map[string]int{}
		}
		out[name][id] = int(v)
	}
	return out, sc.Err()
}

func (p *prodProc) get(id string) (int, []byte, error) {
	resp, err := http.Get("http://" + p.api + fmt.Sprintf(wapi.HTTPGetCheckpoint, id))
	if err != nil {
		return -1, nil, err
	}
	defer resp.Body.Close()
	b, err := io.ReadAll(resp.Body)
	return resp.StatusCode, b, err
}

// prodSnapshot reads the state of w's logs through the read API.
func prodSnapshot(p *prodProc, w *world.World) snapshot {
	s := snapshot{raw: map[string][]byte{}}
	for name, l := range w.Logs {
		st, b, err := p.get(l.ID)
		if err != nil {
			s.err = err.Error()
			continue
		}
		if st == 200 {
			s.raw[name] = b
			s.logs = append(s.logs, l.ID)
		} else if st != 404 {
			s.err = fmt.Sprintf("status %d", st)
		}
	}
	sort.Strings(s.logs)
	return s
}

func prodYaml(ws []*world.World) string {
	y := "Logs:\n"
	for _, w := range ws {
		for _, name := range w.P.Logs {
			l := w.Logs[name]
			y += fmt.Sprintf("  - Origin: %s\n    URL: http://127.0.0.1:9/\n    PublicKey: %s\n    Feeder: tiles\n", l.Origin, l.Key.VKey())
		}
	}
	return y
}

func statusVerdict(status int, ctype string) string {
	switch status {
	case 200:
		return "Accept"
	case 404:
		return "UnknownLog"
	case 403:
		return "NoValidSig"
	case 400:
		return "OldSizeInvalid"
	case 409:
		if ctype == "text/x.tlog.size" {
			return "Stale"
		}
		return "RootMismatch"
	case 422:
		return "InvalidProof"
	case 500:
		return "Internal"
	}
	return fmt.Sprintf("Status%d", status)
}

// ---- prod-conc: concurrent clients against the production binary (C05) ----

func prodConcMain(args []string) error {
	fs := flag.NewFlagSet("prod-conc", flag.ExitOnError)
	bin := fs.String("bin", "", "production binary")
	in := fs.String("in", "", "runs file (ops format, free mode)")
	out := fs.String("out", "", "trace")
	dir := fs.String("dir", os.TempDir(), "scratch")
	storeKind := fs.String("store", "sqlfile", "sqlfile | inmem")
	seed := fs.Int64("seed", 1, "seed")
	withMetrics := fs.Bool("metrics", false, "scrape the binary's Prometheus endpoint after every run (C20)")
	instances := fs.Int("instances", 1, "how many instances of the binary serve the same database file with the same key (old and new process of a rolling upgrade, a second replica): client p talks to instance p mod instances")
	_ = fs.Parse(args)
	f, err := os.Open(*in)
	if err != nil {
		return err
	}
	defer f.Close()
	rd := bufio.NewReaderSize(f, 1<<20)
	line, err := rd.ReadBytes('\n')
	if err != nil {
		return err
	}
	var hdr seqHeader
	if err := json.Unmarshal(line, &hdr); err != nil || hdr.Params == nil {
		return fmt.Errorf("bad header: %v", err)
	}
	hdr.Params.Embed = "id"
	hdr.Params.Seed = *seed
	base := world.New(*hdr.Params)
	var runs []opsRun
	var ws []*world.World
	var tags []string
	for {
		line, err := rd.ReadBytes('\n')
		if len(line) > 1 {
			var r opsRun
			if e := json.Unmarshal(line, &r); e != nil {
				return e
			}
			tag := fmt.Sprintf("%s-prod-%s-%d", r.ID, *storeKind, *seed)
			runs = append(runs, r)
			tags = append(tags, tag)
			ws = append(ws, base.ForRun(tag, hashSeed(tag, *seed)))
		}
		if err == io.EOF {
			break
		}
		if err != nil {
			return err
		}
	}
	sb, err := newStubBastion(*dir, "conc")
	if err != nil {
		return err
	}
	defer sb.close()
	cfg := prodCfg{Bin: *bin, Dir: *dir, Tag: "conc", Yaml: prodYaml(ws), WitSKey: base.WitKey.SKey(), Bastion: sb.addr(), CAFile: sb.caFile, Metrics: *withMetrics}
	if *storeKind == "sqlfile" {
		cfg.DB = filepath.Join(*dir, fmt.Sprintf("prod-conc-%d.db", *seed))
		os.Remove(cfg.DB)
		defer func() {
			os.Remove(cfg.DB)
			os.Remove(cfg.DB + "-journal")
			os.Remove(cfg.DB + "-wal")
			os.Remove(cfg.DB + "-shm")
		}()
	}
	p, err := startProd(cfg)
	if err != nil {
		return err
	}
	defer p.kill()
	_, cc, connected, err := sb.accept(60 * time.Second)
	if err != nil {
		return fmt.Errorf("%v; binary says: %s", err, tailOf(p.log.String(), 1500))
	}
	// further instances on the same database file (each dials its own bastion)
	ps, ccs := []*prodProc{p}, []*http2.ClientConn{cc}
	for k := 1; k < *instances; k++ {
		sbk, err := newStubBastion(*dir, fmt.Sprintf("conc%d", k))
		if err != nil {
			return err
		}
		defer sbk.close()
		ck := cfg
		ck.Tag, ck.Bastion, ck.CAFile = fmt.Sprintf("conc%d", k), sbk.addr(), sbk.caFile
		pk, err := startProd(ck)
		if err != nil {
			return err
		}
		defer pk.kill()
		_, cck, _, err := sbk.accept(60 * time.Second)
		if err != nil {
			return fmt.Errorf("instance %d: %v; binary says: %s", k, err, tailOf(pk.log.String(), 1500))
		}
		ps, ccs = append(ps, pk), append(ccs, cck)
	}
	tw, err := newTraceWriter(*out)
	if err != nil {
		return err
	}
	for i, r := range runs {
		w, tag := ws[i], tags[i]
		rec := &linRecorder{}
		// sequential set-up of the initial committed state
		names := make([]string, 0, len(r.Db0))
		for l := range r.Db0 {
			names = append(names, l)
		}
		sort.Strings(names)
		for _, l := range names {
			c := r.Db0[l]
			if c.None {
				continue
			}
			rq := world.Req{Auth: "good", B: c.B, N: c.N, Extra: c.Lines - 1 - w.P.NWitKeys, Ext: c.Ext, Pf: world.Pf{K: "empty"}}
			cc0 := w.Concretise(l, rq, nil)
			st, _, rb := postVia(cc, renderBody(w, bastionStep{Kind: "ok"}, cc0), 30*time.Second)
			if st != 200 {
				return fmt.Errorf("run %s: set-up of %s answered %d %s", tag, l, st, rb)
			}
		}
		rec.add(linEvent{E: "reset", Run: tag, Db0: project(w, prodSnapshot(p, w))})
		var wg sync.WaitGroup
		for pi := range r.Prog {
			pid := pi + 1
			wp := w.ForRun(tag, hashSeed(tag, *seed+int64(pid)))
			wg.Add(1)
			go func(pid int, prog []opsOp) {
				defer wg.Done()
				p, cc := ps[pid%len(ps)], ccs[pid%len(ccs)]
				rng := mrand.New(mrand.NewSource(hashSeed(tag, *seed+int64(100+pid))))
				for _, op := range prog {
					op := op
					if rng.Intn(4) == 0 {
						time.Sleep(time.Duration(rng.Intn(300)) * time.Microsecond)
					}
					rec.add(linEvent{E: "inv", Run: tag, P: pid, Op: &op})
					switch op.Kind {
					case "update":
						c := wp.Concretise(op.Log, *op.Req, &world.CP{B: 0, N: op.Req.Old})
						st, ct, rb := postVia(cc, renderBody(wp, bastionStep{Kind: "ok"}, c), 60*time.Second)
						ev := linEvent{E: "ret", Run: tag, P: pid, V: statusVerdict(st, ct)}
						if ev.V == "Stale" {
							// (identity embedding: abstract size = concrete size; anything unparsable is reported as -1 and matches no state)
							told := -1
							if n, err := strconv.Atoi(strings.TrimSuffix(string(rb), "\n")); err == nil {
								told = n
							}
							ev.Told = &told
						}
						if st == 200 {
							cp := world.CP{B: 99, N: 99, Lines: 99, Ext: 99}
							if cb := classifyBody(wp, rb, c.Text); cb.Cls == "sigline" && cb.SigOK {
								pr := wp.Project(wp.Logs[op.Log], c.CP)
								if pr.OK {
									cp = pr.CP
									cp.Lines = wp.AbsLines(pr.RealLines + wp.P.NWitKeys)
								}
							}
							ev.Val = &cp
						}
						rec.add(ev)
					case "read":
						st, b, gerr := p.get(wp.Logs[op.Log].ID)
						ev := linEvent{E: "ret", Run: tag, P: pid, V: "Read"}
						cp := world.CP{None: true}
						if gerr == nil && st == 200 {
							cp = wp.Project(wp.Logs[op.Log], b).CP
						} else if gerr != nil || st != 404 {
							ev.V = "Internal"
						}
						ev.Val = &cp
						rec.add(ev)
					}
				}
			}(pid, r.Prog[pi])
		}
		done := make(chan struct{})
		go func() { wg.Wait(); close(done) }()
		select {
		case <-done:
		case <-time.After(120 * time.Second):
			return fmt.Errorf("run %s: clients did not finish (hang); binary alive=%v: %s", tag, p.alive(), tailOf(p.log.String(), 1500))
		}
		for _, pk := range ps {
			if !pk.alive() {
				return fmt.Errorf("run %s: the binary exited: %s", tag, tailOf(pk.log.String(), 3000))
			}
		}
		rec.add(linEvent{E: "final", Run: tag, Stored: project(w, prodSnapshot(p, w))})
		if *withMetrics {
			m, err := p.scrape()
			if err != nil {
				return fmt.Errorf("run %s: %v", tag, err)
			}
			ctr := map[string]Ctr{}
			for name, l := range w.Logs {
				ctr[name] = Ctr{Attempt: m["witness_update_request"][l.ID], Success: m["witness_update_success"][l.ID],
					BadProof: m["witness_update_invalid_consistency"][l.ID], Inconsistent: m["witness_update_inconsistent_checkpoints"][l.ID]}
			}
			rec.add(linEvent{E: "metrics", Run: tag, Ctr: ctr})
		}
		if err := tw.writeRun(rec.ev); err != nil {
			return err
		}
	}
	if err := tw.Close(); err != nil {
		return err
	}
	fmt.Printf("PROD-CONC runs=%d events=%d store=%s instances=%d connected_after=%v\n", len(runs), tw.n, *storeKind, len(ps), connected.Round(time.Millisecond))
	return nil
}

// ---- prod-crash: the production binary is SIGKILLed at a random instant while it serves updates (C06) ----

type prodCrashRound struct {
	Steps []seqStep `json:"steps"`
}

func prodCrashMain(args []string) error {
	fs := flag.NewFlagSet("prod-crash", flag.ExitOnError)
	bin := fs.String("bin", "", "production binary")
	in := fs.String("in", "", "histories (jsonl, first line params header)")
	out := fs.String("out", "", "trace")
	dir := fs.String("dir", os.TempDir(), "scratch")
	seed := fs.Int64("seed", 1, "seed")
	workers := fs.Int("workers", 8, "parallel instances")
	kills := fs.Int("kills", 3, "kills per history")
	_ = fs.Parse(args)
	f, err := os.Open(*in)
	if err != nil {
		return err
	}
	defer f.Close()
	sc := bufio.NewScanner(f)
	sc.Buffer(make([]byte, 1<<20), 1<<24)
	if !sc.Scan() {
		return fmt.Errorf("empty input")
	}
	var hdr seqHeader
	if err := json.Unmarshal(sc.Bytes(), &hdr); err != nil || hdr.Params == nil {
		return fmt.Errorf("bad header: %v", err)
	}
	hdr.Params.Embed = "id"
	hdr.Params.Seed = 1
	var hists []crashHist
	for sc.Scan() {
		var h crashHist
		if err := json.Unmarshal(sc.Bytes(), &h); err != nil {
			return err
		}
		hists = append(hists, h)
	}
	tw, err := newTraceWriter(*out)
	if err != nil {
		return err
	}
	type job struct {
		h crashHist
		j int
	}
	ch := make(chan job, 64)
	var wg sync.WaitGroup
	var mu sync.Mutex
	var firstErr error
	nKill, nInflight := 0, 0
	for wi := 0; wi < *workers; wi++ {
		wg.Add(1)
		go func(wi int) {
			defer wg.Done()
			for jb := range ch {
				ev, infl, err := prodCrashOne(*bin, *dir, *hdr.Params, jb.h, jb.j, *seed, wi)
				if err == nil {
					err = tw.writeRun(ev)
				}
				mu.Lock()
				nKill++
				if infl {
					nInflight++
				}
				if err != nil && firstErr == nil {
					firstErr = fmt.Errorf("history %s kill %d: %v", jb.h.ID, jb.j, err)
				}
				mu.Unlock()
			}
		}(wi)
	}
	for _, h := range hists {
		for j := 0; j < *kills; j++ {
			ch <- job{h, j}
		}
	}
	close(ch)
	wg.Wait()
	if err := tw.Close(); err != nil {
		return err
	}
	if firstErr != nil {
		return firstErr
	}
	fmt.Printf("PROD-CRASH kills=%d with_update_in_flight=%d events=%d\n", nKill, nInflight, tw.n)
	return nil
}

// prodCrashOne: start the binary on a fresh SQLite file, submit the history's updates one after the other through the
// bastion, SIGKILL it after a random delay, restart it on the same file, and record what it serves and how it answers.
func prodCrashOne(bin, dir string, params world.Params, h crashHist, j int, seed int64, wi int) ([]any, bool, error) {
	tag := fmt.Sprintf("prodcrash-%s-%d-%d", h.ID, j, seed)
	params.RunTag = ""
	base := world.New(params)
	w := base.ForRun(tag, hashSeed(tag, seed))
	rng := mrand.New(mrand.NewSource(hashSeed(tag, seed+99)))
	sb, err := newStubBastion(dir, tag)
	if err != nil {
		return nil, false, err
	}
	defer sb.close()
	db := filepath.Join(dir, tag+".db")
	defer func() { os.Remove(db); os.Remove(db + "-journal"); os.Remove(db + "-wal"); os.Remove(db + "-shm") }()
	cfg := prodCfg{Bin: bin, Dir: dir, Tag: tag, Yaml: prodYaml([]*world.World{w}), WitSKey: base.WitKey.SKey(), Bastion: sb.addr(), CAFile: sb.caFile, DB: db}
	p, err := startProd(cfg)
	if err != nil {
		return nil, false, err
	}
	_, cc, _, err := sb.accept(60 * time.Second)
	if err != nil {
		p.kill()
		return nil, false, err
	}
	ev := []any{crashEvent{E: "reset", Run: tag}}
	// the kill: after a random number of acknowledged updates plus a random delay into the next one
	killAfterAcks := rng.Intn(len(h.Steps))
	var killMu sync.Mutex
	killed := false
	doKill := func() {
		killMu.Lock()
		if !killed {
			killed = true
			_ = p.cmd.Process.Signal(syscall.SIGKILL)
		}
		killMu.Unlock()
	}
	inflight := false
	cur := map[string]world.CP{}
	for k, s := range h.Steps {
		if s.Op != "update" || s.Req == nil {
			continue
		}
		var stored *world.CP
		if c, ok := cur[s.Log]; ok {
			stored = &c
		}
		c := w.Concretise(s.Log, *s.Req, stored)
		body := renderBody(w, bastionStep{Kind: "ok"}, c)
		if k >= killAfterAcks {
			d := time.Duration(rng.Intn(3000)) * time.Microsecond
			go func() { time.Sleep(d); doKill() }()
		}
		st, ct, rb := postVia(cc, body, 20*time.Second)
		if st < 0 {
			// no acknowledgement reached us: this update was in flight (or never started)
			ev = append(ev, crashEvent{E: "upd", Run: tag, K: k, Req: s.Req, Log: s.Log, Acked: false})
			inflight = true
			break
		}
		v := statusVerdict(st, ct)
		ce := crashEvent{E: "upd", Run: tag, K: k, Req: s.Req, Log: s.Log, Acked: true, V: v}
		if st == 200 {
			cp := world.CP{B: 99, N: 99, Lines: 99, Ext: 99}
			if cb := classifyBody(w, rb, c.Text); cb.Cls == "sigline" && cb.SigOK {
				if pr := w.Project(w.Logs[s.Log], c.CP); pr.OK {
					cp = pr.CP
					cp.Lines = w.AbsLines(pr.RealLines + w.P.NWitKeys)
				}
			}
			ce.RetCP = &cp
			cur[s.Log] = cp
		} else {
			none := world.CP{None: true}
			ce.RetCP = &none
		}
		ev = append(ev, ce)
		if k >= killAfterAcks {
			killMu.Lock()
			dead := killed
			killMu.Unlock()
			if dead {
				break
			}
		}
	}
	doKill()
	<-p.exited
	ev = append(ev, crashEvent{E: "crash", Run: tag, Point: -1, Op: "random-instant(production binary)"})
	// restart on the same file
	sb2, err := newStubBastion(dir, tag+"-r")
	if err != nil {
		return nil, false, err
	}
	defer sb2.close()
	cfg.Bastion, cfg.CAFile, cfg.Tag = sb2.addr(), sb2.caFile, tag+"-r"
	p2, err := startProd(cfg)
	rec := crashEvent{E: "recover", Run: tag, Complete: true}
	if err != nil {
		// the restarted binary does not come up on the file the killed one left behind
		rec.Complete = false
		rec.Stored = map[string]world.CP{}
		for _, name := range params.Logs {
			rec.Stored[name] = world.CP{B: 99, N: 99, Lines: 99, Ext: 99}
		}
		rec.After = rec.Stored
		rec.Forged, rec.Honest = "Internal", "Internal"
		rec.Op = tailOf(err.Error(), 400)
		ev = append(ev, rec)
		return ev, inflight, nil
	}
	defer p2.kill()
	snap := prodSnapshot(p2, w)
	rec.Stored = project(w, snap)
	for name, raw := range snap.raw {
		pr := w.Project(w.Logs[name], raw)
		if !pr.OK || !pr.LogSigValid || pr.WitCosig != 1 || pr.WitForged != 0 || pr.WitLegacy != 1 {
			rec.Complete = false
		}
	}
	if snap.err != "" {
		rec.Complete = false
	}
	_, cc2, _, err := sb2.accept(60 * time.Second)
	if err != nil {
		return nil, false, fmt.Errorf("after restart: %v", err)
	}
	st1 := rec.Stored["l1"]
	forged := world.Req{Auth: "good", Old: 0, B: 1, N: 2, Pf: world.Pf{K: "empty"}}
	cf := w.Concretise("l1", forged, &st1)
	fst, fct, _ := postVia(cc2, renderBody(w, bastionStep{Kind: "ok"}, cf), 20*time.Second)
	rec.Forged = statusVerdict(fst, fct)
	st2 := project(w, prodSnapshot(p2, w))["l1"]
	hon := world.Req{Auth: "good", B: 0, N: 3, Pf: world.Pf{K: "empty"}}
	if !st2.None {
		hon.Old = st2.N
		if st2.N != 3 && st2.N != 0 {
			hon.Pf = world.Pf{K: "right", B: 0, M: st2.N, N: 3}
		}
	}
	if st2.None || (st2.B == 0 && st2.N <= 3) {
		c2 := w.Concretise("l1", hon, &st2)
		hst, hct, _ := postVia(cc2, renderBody(w, bastionStep{Kind: "ok"}, c2), 20*time.Second)
		rec.Honest = statusVerdict(hst, hct)
	} else {
		rec.Honest = "skipped"
	}
	rec.After = project(w, prodSnapshot(p2, w))
	ev = append(ev, rec)
	return ev, inflight, nil
}

// ---- prod-start: the production binary STARTS on a database an earlier incarnation left (C20: start-up is not an update request) ----

func init() { commands["prod-start"] = prodStartMain }

// prodStartMain starts the binary on database files written (by this harness, in the release's format) the way earlier incarnations of the witness
// would have left them - cosigned by both current keys, by the legacy key only (before cosignature/v1 joined the signer set), by a key that has since
// been rotated away, with a cosignature time in the future - waits a few poll intervals, and records what its read API serves and what its
// /metrics endpoint counts: nobody has made a request, so every counter of every log is zero and the bytes are the ones in the file.
func prodStartMain(args []string) error {
	fs := flag.NewFlagSet("prod-start", flag.ExitOnError)
	bin := fs.String("bin", "", "production binary")
	out := fs.String("out", "", "trace")
	dir := fs.String("dir", os.TempDir(), "scratch")
	seed := fs.Int64("seed", 1, "seed")
	_ = fs.Parse(args)
	tw, err := newTraceWriter(*out)
	if err != nil {
		return err
	}
	n := 0
	for _, cls := range []string{"both", "legacyonly", "rotated", "future1h", "foreign-lines"} {
		tag := fmt.Sprintf("start-%s-%d", cls, *seed)
		w := world.New(world.Params{Logs: []string{"l1", "l2"}, MaxSize: 3, NBranch: 2, ForkAt: []int{1}, MaxLines: 6, NWitKeys: 2, Embed: "id", Seed: *seed, RunTag: tag})
		w = w.ForRun(tag, hashSeed(tag, *seed))
		db := filepath.Join(*dir, fmt.Sprintf("prod-start-%s-%d-%d.db", cls, *seed, os.Getpid()))
		os.Remove(db)
		raw, err := sql.Open("sqlite3", db)
		if err != nil {
			return err
		}
		if _, err := raw.Exec(pinnedSchema); err != nil {
			return err
		}
		rq := world.Req{Auth: "good", Old: 0, B: 0, N: 2, Pf: world.Pf{K: "empty"}}
		if cls == "foreign-lines" {
			rq.Extra = 2
		}
		c := w.Concretise("l1", rq, nil)
		now := uint64(time.Now().Unix())
		note := string(c.CP)
		switch cls {
		case "both", "foreign-lines":
			note += w.WitKey.SignLegacy(c.Text) + w.WitKey.SignCosigV1(c.Text, now)
		case "legacyonly":
			note += w.WitKey.SignLegacy(c.Text)
		case "rotated":
			old := ref.NewKey(w.WitKey.Name, "the key before the rotation")
			note += old.SignLegacy(c.Text) + old.SignCosigV1(c.Text, now-86400)
		case "future1h":
			note += w.WitKey.SignLegacy(c.Text) + w.WitKey.SignCosigV1(c.Text, now+3600)
		}
		if _, err := raw.Exec("INSERT OR REPLACE INTO chkpts (logID, chkpt, range) VALUES (?, ?, NULL)", c.LogID, []byte(note)); err != nil {
			return err
		}
		raw.Close()
		before := snapshot{raw: map[string][]byte{"l1": []byte(note)}}
		rec := &linRecorder{}
		rec.add(linEvent{E: "reset", Run: tag, Db0: project(w, before)})
		p, err := startProd(prodCfg{Bin: *bin, Dir: *dir, Tag: tag, Yaml: prodYaml([]*world.World{w}), WitSKey: w.WitKey.SKey(), DB: db, Poll: 50 * time.Millisecond, Metrics: true})
		if err != nil {
			return err
		}
		time.Sleep(400 * time.Millisecond)
		after := prodSnapshot(p, w)
		m, merr := p.scrape()
		alive := p.alive()
		p.kill()
		os.Remove(db)
		os.Remove(db + "-journal")
		if !alive {
			return fmt.Errorf("run %s: the binary exited: %s", tag, tailOf(p.log.String(), 2000))
		}
		if merr != nil {
			return merr
		}
		st := project(w, after)
		if string(after.raw["l1"]) != note {
			// the bytes served are not the bytes in the file: make the projection say so whatever it parses to
			cp := st["l1"]
			cp.Lines = 99
			st["l1"] = cp
		}
		rec.add(linEvent{E: "final", Run: tag, Stored: st})
		ctr := map[string]Ctr{}
		for name, l := range w.Logs {
			ctr[name] = Ctr{Attempt: m["witness_update_request"][l.ID], Success: m["witness_update_success"][l.ID],
				BadProof: m["witness_update_invalid_consistency"][l.ID], Inconsistent: m["witness_update_inconsistent_checkpoints"][l.ID]}
		}
		rec.add(linEvent{E: "metrics", Run: tag, Ctr: ctr})
		if err := tw.writeRun(rec.ev); err != nil {
			return err
		}
		n++
	}
	if err := tw.Close(); err != nil {
		return err
	}
	fmt.Printf("PROD-START runs=%d\n", n)
	return nil
}
