package main

// keytypes: the kinds of log key the configuration format admits (formats/note NewVerifier: Ed25519, ECDSA, RFC 6962 STH with an ECDSA or
// an RSA key). For each, a witness is built from a configuration entry the way Main does, and is given (a) a checkpoint validly signed with
// the key's own scheme, (b) the same with a signature that does not verify, (c) signatures of odd lengths. (C02: only what the configured key
// signed is accepted; C19: no input panics.) The signing side is the harness' own (crypto/ecdsa, crypto/rsa and RFC 6962 section 3.5).

import (
	"context"
	"crypto"
	"crypto/ecdsa"
	"crypto/ed25519"
	"crypto/elliptic"
	"crypto/rand"
	"crypto/rsa"
	"crypto/sha256"
	"crypto/x509"
	"encoding/base64"
	"encoding/binary"
	"flag"
	"fmt"

	f_note "github.com/transparency-dev/formats/note"
	"github.com/transparency-dev/merkle/rfc6962"
	"github.com/transparency-dev/witness/internal/config"
	"github.com/transparency-dev/witness/internal/witness"
	"github.com/transparency-dev/witness/omniwitness"
	"github.com/transparency-dev/witness/verifharness/internal/world"
)

func init() { commands["keytypes"] = keyTypesMain }

type keyTypeEvent struct {
	E                  string `json:"e"`
	Run                string `json:"run"`
	K                  int    `json:"k"`
	Alg                string `json:"alg"`
	ConfigOK           bool   `json:"configok"`
	ValidAccepted      bool   `json:"validaccepted"`
	GarbageRefused     bool   `json:"garbagerefused"`
	OtherKeyRefused    bool   `json:"otherkeyrefused"`
	OddLengthsSurvived bool   `json:"oddlengthssurvived"`
	// ResignedRefresh: on a witness wired the way Main wires it (LogConfig.AsLogMap), the log's unchanged checkpoint signed AGAIN (for key kinds
	// with randomised signatures: other signature bytes, equally valid) is accepted as a same-size refresh
	ResignedRefresh bool `json:"resignedrefresh"`
	Detail             string `json:"detail"`
}

type logKey struct {
	alg  string
	vkey string
	sign func(text string) []byte // signature bytes after the 4-byte key hash
}

func sthInput(ts uint64, size uint64, root []byte) []byte {
	b := make([]byte, 0, 50)
	b = append(b, 0, 1) // version v1, signature type tree_hash
	b = binary.BigEndian.AppendUint64(b, ts)
	b = binary.BigEndian.AppendUint64(b, size)
	return append(b, root...)
}

func keyTypesMain(args []string) error {
	fs := flag.NewFlagSet("keytypes", flag.ExitOnError)
	out := fs.String("out", "", "trace")
	seed := fs.Int64("seed", 1, "seed")
	_ = fs.Parse(args)
	base := world.New(world.Params{Logs: []string{"l1"}, MaxSize: 1, NBranch: 1, MaxLines: 6, NWitKeys: 2, Embed: "id", Seed: *seed, RunTag: "keytypes"})
	signers, _, err := witnessSigners(base)
	if err != nil {
		return err
	}
	size := uint64(5)
	root := sha256.Sum256([]byte("verif keytypes root"))
	rfcSig := func(ts uint64, sigAlg byte, raw []byte) []byte {
		b := binary.BigEndian.AppendUint64(nil, ts)
		b = append(b, 4, sigAlg)
		b = binary.BigEndian.AppendUint16(b, uint16(len(raw)))
		return append(b, raw...)
	}
	var keys []logKey
	// Ed25519 (plain note key)
	{
		pub, priv, _ := ed25519.GenerateKey(rand.Reader)
		name := "ed25519.keytypes.example"
		kb := append([]byte{1}, pub...)
		h := sha256.Sum256(append([]byte(name+"\n"), kb...))
		keys = append(keys, logKey{"ed25519", fmt.Sprintf("%s+%08x+%s", name, binary.BigEndian.Uint32(h[:4]), base64.StdEncoding.EncodeToString(kb)),
			func(text string) []byte { return ed25519.Sign(priv, []byte(text)) }})
	}
	// ECDSA with SHA-256 (algorithm 2)
	{
		k, _ := ecdsa.GenerateKey(elliptic.P256(), rand.Reader)
		der, _ := x509.MarshalPKIXPublicKey(&k.PublicKey)
		h := sha256.Sum256(der)
		keys = append(keys, logKey{"ecdsa", fmt.Sprintf("ecdsa.keytypes.example+%08x+%s", binary.BigEndian.Uint32(h[:4]), base64.StdEncoding.EncodeToString(append([]byte{2}, der...))),
			func(text string) []byte {
				d := sha256.Sum256([]byte(text))
				s, _ := ecdsa.SignASN1(rand.Reader, k, d[:])
				return s
			}})
	}
	// RFC 6962 STH, ECDSA and RSA
	{
		k, _ := ecdsa.GenerateKey(elliptic.P256(), rand.Reader)
		vk, err := f_note.RFC6962VerifierString("https://ct-ecdsa.keytypes.example/log/", &k.PublicKey)
		if err != nil {
			return err
		}
		keys = append(keys, logKey{"rfc6962-ecdsa", vk, func(text string) []byte {
			d := sha256.Sum256(sthInput(1700000000000, size, root[:]))
			s, _ := ecdsa.SignASN1(rand.Reader, k, d[:])
			return rfcSig(1700000000000, 3, s)
		}})
		rk, _ := rsa.GenerateKey(rand.Reader, 2048)
		vk2, err := f_note.RFC6962VerifierString("https://ct-rsa.keytypes.example/log/", &rk.PublicKey)
		if err != nil {
			return err
		}
		keys = append(keys, logKey{"rfc6962-rsa", vk2, func(text string) []byte {
			d := sha256.Sum256(sthInput(1700000000000, size, root[:]))
			s, _ := rsa.SignPKCS1v15(rand.Reader, rk, crypto.SHA256, d[:])
			return rfcSig(1700000000000, 1, s)
		}})
	}
	var events []any
	for i, lk := range keys {
		ev := keyTypeEvent{E: "keytype", Run: "keytypes", K: i, Alg: lk.alg}
		v, err := f_note.NewVerifier(lk.vkey)
		if err != nil {
			ev.Detail = "NewVerifier: " + err.Error()
			events = append(events, ev)
			continue
		}
		origin := v.Name()
		lc, err := config.NewLog(origin, lk.vkey, "http://127.0.0.1:1/")
		if err != nil {
			ev.Detail = "config.NewLog: " + err.Error()
			events = append(events, ev)
			continue
		}
		ev.ConfigOK = true
		text := fmt.Sprintf("%s\n%d\n%s\n", origin, size, base64.StdEncoding.EncodeToString(root[:]))
		note := func(sig []byte) []byte {
			kh := binary.BigEndian.AppendUint32(nil, v.KeyHash())
			return []byte(text + "\n— " + origin + " " + base64.StdEncoding.EncodeToString(append(kh, sig...)) + "\n")
		}
		try := func(cp []byte) (accepted bool, panicked string) {
			st, _ := newStore("inmem", "")
			w, err := witness.New(witness.Opts{Persistence: st.p, Signers: signers, KnownLogs: map[string]witness.LogInfo{lc.ID: {SigV: lc.Verifier, Origin: lc.Origin, Hasher: rfc6962.DefaultHasher}}})
			if err != nil {
				return false, "witness.New: " + err.Error()
			}
			defer func() {
				if r := recover(); r != nil {
					panicked = fmt.Sprint(r)
				}
			}()
			_, uerr := w.Update(context.Background(), lc.ID, 0, cp, nil)
			return uerr == nil, ""
		}
		good := lk.sign(text)
		acc, pn := try(note(good))
		ev.ValidAccepted = acc && pn == ""
		// a signature that does not verify: the valid one with its last byte changed, and random bytes of the same length
		bad := append([]byte{}, good...)
		bad[len(bad)-1] ^= 0x55
		accBad, pn1 := try(note(bad))
		rnd := append([]byte{}, good...)
		for j := len(rnd) - 64; j < len(rnd); j++ {
			if j >= 0 {
				rnd[j] = byte(j * 37)
			}
		}
		accRnd, pn2 := try(note(rnd))
		ev.GarbageRefused = !accBad && !accRnd
		// a valid signature made with ANOTHER key of the same kind under this key's name and hash
		other := keys[(i+1)%len(keys)]
		accOther, _ := try(note(other.sign(text)))
		ev.OtherKeyRefused = !accOther
		// odd lengths
		ev.OddLengthsSurvived = pn == "" && pn1 == "" && pn2 == ""
		for _, n := range []int{0, 1, 7, 8, 9, 10, 11, 12, 13, 64, 65} {
			if n >= len(good) {
				continue // (the whole signature is the valid one)
			}
			a, p := try(note(good[:n]))
			if p != "" {
				ev.OddLengthsSurvived = false
				ev.Detail += fmt.Sprintf("signature of %d bytes: panic %s; ", n, p)
			}
			if a {
				ev.GarbageRefused = false
				ev.Detail += fmt.Sprintf("signature of %d bytes accepted; ", n)
			}
		}
		if !ev.GarbageRefused {
			ev.Detail += fmt.Sprintf("corrupted signature accepted=%v random signature accepted=%v; ", accBad, accRnd)
		}
		// the production wiring of the verifier, one witness, the same text signed twice
		ev.ResignedRefresh = true
		func() {
			defer func() {
				if r := recover(); r != nil {
					ev.ResignedRefresh = false
					ev.Detail += fmt.Sprintf("re-signed refresh: panic %v; ", r)
				}
			}()
			lcfg := omniwitness.LogConfig{Logs: []omniwitness.LogInfo{{Origin: origin, PublicKey: lk.vkey, URL: "http://127.0.0.1:1/", Feeder: omniwitness.None}}}
			m, err := lcfg.AsLogMap()
			if err != nil {
				ev.Detail += "AsLogMap: " + err.Error() + "; "
				ev.ResignedRefresh = false
				return
			}
			st, _ := newStore("inmem", "")
			w, err := witness.New(witness.Opts{Persistence: st.p, Signers: signers, KnownLogs: m})
			if err != nil {
				ev.ResignedRefresh = false
				return
			}
			if _, err := w.Update(context.Background(), lc.ID, 0, note(lk.sign(text)), nil); err != nil {
				return // (the first submission is judged above; nothing to refresh)
			}
			for r := 0; r < 3; r++ {
				if _, err := w.Update(context.Background(), lc.ID, size, note(lk.sign(text)), nil); err != nil {
					ev.ResignedRefresh = false
					ev.Detail += fmt.Sprintf("re-signed refresh %d refused: %v; ", r, err)
				}
			}
		}()
		events = append(events, ev)
	}
	tw, err := newTraceWriter(*out)
	if err != nil {
		return err
	}
	if err := tw.writeRun(events); err != nil {
		return err
	}
	if err := tw.Close(); err != nil {
		return err
	}
	fmt.Printf("KEYTYPES kinds=%d\n", len(events))
	return nil
}
