package main

import (
	"bufio"
	"database/sql"
	"encoding/json"
	"fmt"
	"os"
	"path/filepath"
	"sort"
	"strings"
	"sync"

	_ "github.com/mattn/go-sqlite3"
	f_note "github.com/transparency-dev/formats/note"
	"github.com/transparency-dev/merkle/rfc6962"
	"github.com/transparency-dev/witness/internal/persistence"
	"github.com/transparency-dev/witness/internal/persistence/inmemory"
	psql "github.com/transparency-dev/witness/internal/persistence/sql"
	"github.com/transparency-dev/witness/internal/witness"
	"github.com/transparency-dev/witness/monitoring"
	"github.com/transparency-dev/witness/verifharness/internal/ref"
	"github.com/transparency-dev/witness/verifharness/internal/world"
	"golang.org/x/mod/sumdb/note"
	"google.golang.org/grpc/codes"
	"google.golang.org/grpc/status"
)

// ---- recording metric factory (C20) ----

type recCounter struct {
	name string
	mu   sync.Mutex
	vals map[string]int
}

func (c *recCounter) Inc(labelVals ...string) {
	c.mu.Lock()
	defer c.mu.Unlock()
	c.vals[strings.Join(labelVals, "|")]++
}

func (c *recCounter) get(label string) int {
	c.mu.Lock()
	defer c.mu.Unlock()
	return c.vals[label]
}

type recMetricFactory struct {
	mu       sync.Mutex
	counters map[string]*recCounter
}

func (f *recMetricFactory) NewCounter(name, help string, labelNames ...string) monitoring.Counter {
	f.mu.Lock()
	defer f.mu.Unlock()
	c := &recCounter{name: name, vals: map[string]int{}}
	f.counters[name] = c
	return c
}

func (f *recMetricFactory) value(name, label string) int {
	f.mu.Lock()
	c := f.counters[name]
	f.mu.Unlock()
	if c == nil {
		return -1
	}
	return c.get(label)
}

var recFactory = &recMetricFactory{counters: map[string]*recCounter{}}

// Ctr is the abstract counter record of one log.
type Ctr struct {
	Attempt      int `json:"attempt"`
	Success      int `json:"success"`
	BadProof     int `json:"badproof"`
	Inconsistent int `json:"inconsistent"`
}

func readCtr(id string) Ctr {
	return Ctr{
		Attempt:      recFactory.value("witness_update_request", id),
		Success:      recFactory.value("witness_update_success", id),
		BadProof:     recFactory.value("witness_update_invalid_consistency", id),
		Inconsistent: recFactory.value("witness_update_inconsistent_checkpoints", id),
	}
}

// ---- stores ----

type store struct {
	hook  *dbHook // set for the fault-injecting SQL driver
	kind  string
	p     persistence.LogStatePersistence
	db    *sql.DB
	path  string
	close func()
}

var dbSeq struct {
	sync.Mutex
	n int
}

func newStore(kind, dir string) (*store, error) {
	switch kind {
	case "inmem":
		return &store{kind: kind, p: inmemory.NewPersistence(), close: func() {}}, nil
	case "sqlmem", "sqlfile", "sqlfault":
		dsn := ":memory:"
		path := ""
		drv := "sqlite3"
		if kind == "sqlfile" || kind == "sqlfault" {
			dbSeq.Lock()
			dbSeq.n++
			path = filepath.Join(dir, fmt.Sprintf("w%d-%d.db", os.Getpid(), dbSeq.n))
			dbSeq.Unlock()
			dsn = path
		}
		var hk *dbHook
		if kind == "sqlfault" {
			drv = "sqlite3verif"
			hk = newHook(dsn)
		}
		db, err := sql.Open(drv, dsn)
		if err != nil {
			return nil, err
		}
		db.SetMaxOpenConns(1) // as cmd/omniwitness does
		return &store{kind: kind, p: psql.NewPersistence(db), db: db, path: path, hook: hk, close: func() {
			db.Close()
			if hk != nil {
				dropHook(dsn)
			}
			if path != "" {
				os.Remove(path)
				os.Remove(path + "-journal")
			}
		}}, nil
	}
	return nil, fmt.Errorf("unknown store %q", kind)
}

// ---- witness construction from a world ----

func witnessSigners(w *world.World) ([]note.Signer, note.Verifier, error) {
	cosig, err := f_note.NewSignerForCosignatureV1(w.WitKey.SKey())
	if err != nil {
		return nil, nil, err
	}
	if w.P.NWitKeys == 1 {
		return []note.Signer{cosig}, cosig.Verifier(), nil
	}
	legacy, err := note.NewSigner(w.WitKey.SKey())
	if err != nil {
		return nil, nil, err
	}
	return []note.Signer{legacy, cosig}, cosig.Verifier(), nil
}

func knownLogs(w *world.World) (map[string]witness.LogInfo, error) {
	m := map[string]witness.LogInfo{}
	for _, l := range w.Logs {
		v, err := f_note.NewVerifier(l.Key.VKey())
		if err != nil {
			return nil, err
		}
		m[l.ID] = witness.LogInfo{SigV: v, Origin: l.Origin, Hasher: rfc6962.DefaultHasher}
	}
	return m, nil
}

func newWitness(w *world.World, p persistence.LogStatePersistence) (*witness.Witness, error) {
	signers, _, err := witnessSigners(w)
	if err != nil {
		return nil, err
	}
	kl, err := knownLogs(w)
	if err != nil {
		return nil, err
	}
	return witness.New(witness.Opts{Persistence: p, Signers: signers, KnownLogs: kl})
}

// newWitnessWithout is newWitness with one log missing from the configuration.
func newWitnessWithout(w *world.World, p persistence.LogStatePersistence, name string) (*witness.Witness, error) {
	signers, _, err := witnessSigners(w)
	if err != nil {
		return nil, err
	}
	kl, err := knownLogs(w)
	if err != nil {
		return nil, err
	}
	if l, ok := w.Logs[name]; ok {
		delete(kl, l.ID)
	}
	return witness.New(witness.Opts{Persistence: p, Signers: signers, KnownLogs: kl})
}

// newWitnessRekeyed is newWitness with one log's public key REPLACED in the configuration (same origin, same key name, other key material:
// the key the "unknownkey" request class signs with half of the time).
func newWitnessRekeyed(w *world.World, p persistence.LogStatePersistence, name string) (*witness.Witness, error) {
	signers, _, err := witnessSigners(w)
	if err != nil {
		return nil, err
	}
	kl, err := knownLogs(w)
	if err != nil {
		return nil, err
	}
	if l, ok := w.Logs[name]; ok {
		v, err := f_note.NewVerifier(ref.NewKey(l.Key.Name, "impostor").VKey())
		if err != nil {
			return nil, err
		}
		kl[l.ID] = witness.LogInfo{SigV: v, Origin: l.Origin, Hasher: rfc6962.DefaultHasher}
	}
	return witness.New(witness.Opts{Persistence: p, Signers: signers, KnownLogs: kl})
}

// verdict names the outcome of Update in the model's vocabulary. Sentinel errors are compared by IDENTITY (==), which is
// how the repository's callers switch on them (bastion handleUpdate): a wrapped sentinel is not the sentinel.
func verdict(err error) string {
	switch err {
	case nil:
		return "Accept"
	case witness.ErrUnknownLog:
		return "UnknownLog"
	case witness.ErrNoValidSignature:
		return "NoValidSig"
	case witness.ErrOldSizeInvalid:
		return "OldSizeInvalid"
	case witness.ErrCheckpointStale:
		return "Stale"
	case witness.ErrRootMismatch:
		return "RootMismatch"
	case witness.ErrInvalidProof:
		return "InvalidProof"
	}
	return "Internal"
}

// ---- raw state snapshots, read straight from the persistence layer ----

type snapshot struct {
	raw  map[string][]byte // log name -> bytes (nil = none)
	logs []string          // sorted ids from Logs()
	err  string
}

func takeSnapshot(w *world.World, p persistence.LogStatePersistence) snapshot {
	s := snapshot{raw: map[string][]byte{}}
	for name, l := range w.Logs {
		r, err := p.ReadOps(l.ID)
		if err != nil {
			s.err = err.Error()
			continue
		}
		b, err := r.GetLatest()
		if err != nil {
			if status.Code(err) != codes.NotFound {
				s.err = err.Error()
			}
			continue
		}
		s.raw[name] = append([]byte{}, b...) // (a copy: the in-memory store hands out its own slice, and a later in-place change must show as a change)
	}
	logs, err := p.Logs()
	if err != nil {
		s.err = err.Error()
	}
	sort.Strings(logs)
	s.logs = logs
	return s
}

func (s snapshot) equal(o snapshot) bool {
	if len(s.raw) != len(o.raw) || len(s.logs) != len(o.logs) {
		return false
	}
	for k, v := range s.raw {
		ov, ok := o.raw[k]
		if !ok || string(ov) != string(v) {
			return false
		}
	}
	for i := range s.logs {
		if s.logs[i] != o.logs[i] {
			return false
		}
	}
	return true
}

// abstractLogs maps ids from Logs() to abstract names ("?id" for ids the world does not know).
func abstractLogs(w *world.World, ids []string) []string {
	out := []string{}
	for _, id := range ids {
		name := "?" + id
		for n, l := range w.Logs {
			if l.ID == id {
				name = n
			}
		}
		out = append(out, name)
	}
	sort.Strings(out)
	return out
}

func project(w *world.World, s snapshot) map[string]world.CP {
	m := map[string]world.CP{}
	for name, l := range w.Logs {
		raw, ok := s.raw[name]
		if !ok {
			m[name] = world.CP{None: true}
			continue
		}
		m[name] = w.Project(l, raw).CP
	}
	return m
}

// ---- ndjson output, one run at a time ----

type traceWriter struct {
	mu sync.Mutex
	w  *bufio.Writer
	f  *os.File
	n  int
}

func newTraceWriter(path string) (*traceWriter, error) {
	f, err := os.Create(path)
	if err != nil {
		return nil, err
	}
	return &traceWriter{f: f, w: bufio.NewWriterSize(f, 1<<20)}, nil
}

func (t *traceWriter) writeRun(events []any) error {
	var sb strings.Builder
	for _, e := range events {
		b, err := json.Marshal(e)
		if err != nil {
			return err
		}
		sb.Write(b)
		sb.WriteByte('\n')
	}
	t.mu.Lock()
	defer t.mu.Unlock()
	t.n += len(events)
	_, err := t.w.WriteString(sb.String())
	return err
}

func (t *traceWriter) Close() error {
	if err := t.w.Flush(); err != nil {
		return err
	}
	return t.f.Close()
}

func isNotFound(err error) bool { return status.Code(err) == codes.NotFound }

func newWitnessFromMap(m map[string]witness.LogInfo, signers []note.Signer) (*witness.Witness, error) {
	return witness.New(witness.Opts{Persistence: inmemory.NewPersistence(), Signers: signers, KnownLogs: m})
}
