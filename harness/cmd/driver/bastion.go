package main

import (
	"bufio"
	"bytes"
	"encoding/base64"
	"encoding/json"
	"flag"
	"fmt"
	"hash/fnv"
	"io"
	"net/http"
	"net/http/httptest"
	"os"
	"strconv"
	"strings"
	"sync"
	"time"

	"github.com/transparency-dev/witness/internal/config"
	"github.com/transparency-dev/witness/internal/feeder/bastion"
	"github.com/transparency-dev/witness/verifharness/internal/ref"
	"github.com/transparency-dev/witness/verifharness/internal/world"
	"golang.org/x/time/rate"
)

func init() { commands["bastion"] = bastionMain }

var fuzzPerStep int

// mutate applies one seeded byte-level mutation to a request body.
func mutate(rng interface {
	Intn(int) int
	Read([]byte) (int, error)
}, b []byte) []byte {
	out := append([]byte{}, b...)
	if len(out) == 0 {
		out = []byte("old 0\n\n")
	}
	switch rng.Intn(9) {
	case 0: // bit flip
		i := rng.Intn(len(out))
		out[i] ^= 1 << uint(rng.Intn(8))
	case 1: // truncate
		out = out[:rng.Intn(len(out))]
	case 2: // delete a line
		lines := bytes.Split(out, []byte("\n"))
		i := rng.Intn(len(lines))
		out = bytes.Join(append(lines[:i:i], lines[i+1:]...), []byte("\n"))
	case 3: // duplicate a line
		lines := bytes.Split(out, []byte("\n"))
		i := rng.Intn(len(lines))
		lines = append(lines[:i+1], lines[i:]...)
		out = bytes.Join(lines, []byte("\n"))
	case 4: // insert random bytes
		i := rng.Intn(len(out) + 1)
		r := make([]byte, 1+rng.Intn(40))
		rng.Read(r)
		out = append(out[:i:i], append(r, out[i:]...)...)
	case 5: // a very long line (beyond the reader's buffer)
		i := rng.Intn(len(out) + 1)
		out = append(out[:i:i], append(bytes.Repeat([]byte("QUFB"), 1500+rng.Intn(3000)), out[i:]...)...)
	case 6: // replace newlines
		out = bytes.ReplaceAll(out, []byte("\n"), [][]byte{[]byte("\r\n"), []byte("\r"), []byte("\n\n"), {0}}[rng.Intn(4)])
	case 7: // huge number
		out = bytes.Replace(out, []byte("old "), []byte("old 99999999999999999999999"), 1)
	default: // pure noise
		out = make([]byte, rng.Intn(600))
		rng.Read(out)
	}
	return out
}

// piecesReader hands out its content piece by piece: one Read never crosses a cut.
type piecesReader struct {
	b    []byte
	cuts []int // ascending offsets at which a Read ends
}

func (p *piecesReader) Read(dst []byte) (int, error) {
	if len(p.b) == 0 {
		return 0, io.EOF
	}
	n := len(p.b)
	if len(p.cuts) > 0 {
		n = p.cuts[0]
	}
	if n > len(dst) {
		n = len(dst)
	}
	copy(dst, p.b[:n])
	p.b = p.b[n:]
	for i := range p.cuts {
		p.cuts[i] -= n
	}
	for len(p.cuts) > 0 && p.cuts[0] <= 0 {
		p.cuts = p.cuts[1:]
	}
	return n, nil
}

// deliver chooses the delivery of a body from its content (so that a run is reproducible): whole, two pieces, or one piece per line.
func deliver(body []byte) io.Reader {
	h := fnv.New32a()
	h.Write(body)
	v := h.Sum32()
	switch {
	case len(body) < 2 || v%3 == 0:
		return bytes.NewReader(body)
	case v%3 == 1:
		return &piecesReader{b: body, cuts: []int{1 + int(v/3)%(len(body)-1)}}
	}
	var cuts []int
	for i, c := range body {
		if c == '\n' && i+1 < len(body) {
			cuts = append(cuts, i+1)
		}
	}
	return &piecesReader{b: body, cuts: cuts}
}

// serve calls the handler and turns a panic into status -1.
func serve(h http.Handler, body []byte) (status int, ctype string, rb []byte) {
	defer func() {
		if r := recover(); r != nil {
			status, rb = -1, []byte(fmt.Sprint(r))
		}
	}()
	// how the body REACHES the handler is the network's business, not the sender's: in one piece, in two (cut anywhere), or line by line
	// (a streamed sender, a relay, HTTP/2 DATA frames); the declared length is the same in every case
	req := httptest.NewRequest(http.MethodPost, "/", deliver(body))
	req.ContentLength = int64(len(body))
	rec := httptest.NewRecorder()
	h.ServeHTTP(rec, req)
	resp := rec.Result()
	b, _ := io.ReadAll(resp.Body)
	return resp.StatusCode, resp.Header.Get("Content-Type"), b
}

type bastionStep struct {
	Op      string     `json:"op"`   // post
	Kind    string     `json:"kind"` // ok | unknown-origin | nosize | suffix | notb64 | noblank | cp-one-line | empty-body | oversize
	Log     string     `json:"log,omitempty"`
	Req     *world.Req `json:"req,omitempty"`
	SleepMS int        `json:"sleep_ms,omitempty"`
	// ExtLock (production binary on a database file): while this request is served ANOTHER connection to the database file (a backup, an
	// operator's sqlite3 shell) holds a read transaction, so the witness' COMMIT cannot get its exclusive lock within the busy timeout.
	ExtLock bool `json:"extlock,omitempty"`
}

type bastionRun struct {
	ID    string        `json:"id"`
	Limit float64       `json:"limit"`
	Steps []bastionStep `json:"steps"`
}

type respBody struct {
	Cls   string `json:"cls"`   // empty | size | sigline | other
	N     int    `json:"n"`     // abstract size announced by a size body (-1 = not one of the generated sizes)
	SigOK bool   `json:"sigok"` // every line is a valid cosignature of the witness over the submitted text
}

type postEvent struct {
	E         string              `json:"e"`
	Run       string              `json:"run"`
	K         int                 `json:"k"`
	Kind      string              `json:"kind"`
	Log       string              `json:"log"`
	Req       world.Req           `json:"req"`
	Status    int                 `json:"status"`
	CType     string              `json:"ctype"`
	Body      respBody            `json:"body"`
	Stored    map[string]world.CP `json:"stored"`
	Unchanged bool                `json:"unchanged"`
	RefOK     string              `json:"refok"`
	Limit     int                 `json:"limit"`   // int(limit) = burst
	SinceMS   int                 `json:"sincems"` // upper bound of the time since the previous served request (-1 = none)
	GapMS     int                 `json:"gapms"`   // lower bound of that time
	Conc      string              `json:"conc"`
	ExtLock   bool                `json:"extlock"` // another connection held a read transaction on the database file while this request was served
}

type presetEvent struct {
	E      string              `json:"e"`
	Run    string              `json:"run"`
	K      int                 `json:"k"`
	Stored map[string]world.CP `json:"stored"`
}

func bastionMain(args []string) error {
	fs := flag.NewFlagSet("bastion", flag.ExitOnError)
	in := fs.String("in", "", "runs file")
	out := fs.String("out", "", "trace file")
	storeKind := fs.String("store", "inmem", "store")
	embed := fs.String("embed", "id", "size embedding")
	seed := fs.Int64("seed", 1, "seed")
	workers := fs.Int("workers", 8, "parallel runs")
	dir := fs.String("dir", os.TempDir(), "scratch")
	fs.IntVar(&fuzzPerStep, "fuzz", 0, "byte-level mutations of every request body, served to the handler as well (C19)")
	_ = fs.Parse(args)
	f, err := os.Open(*in)
	if err != nil {
		return err
	}
	defer f.Close()
	rd := bufio.NewReaderSize(f, 1<<20)
	line, err := rd.ReadBytes('\n')
	if err != nil {
		return err
	}
	var hdr seqHeader
	if err := json.Unmarshal(line, &hdr); err != nil || hdr.Params == nil {
		return fmt.Errorf("bad header: %v", err)
	}
	hdr.Params.Embed = *embed
	hdr.Params.Seed = *seed
	base := world.New(*hdr.Params)
	tw, err := newTraceWriter(*out)
	if err != nil {
		return err
	}
	runs := make(chan bastionRun, 64)
	var wg sync.WaitGroup
	var firstErr error
	var mu sync.Mutex
	for i := 0; i < *workers; i++ {
		wg.Add(1)
		go func() {
			defer wg.Done()
			for r := range runs {
				ev, err := execBastionRun(base, r, *storeKind, *embed, *seed, *dir)
				if err == nil {
					err = tw.writeRun(ev)
				}
				if err != nil {
					mu.Lock()
					if firstErr == nil {
						firstErr = fmt.Errorf("run %s: %v", r.ID, err)
					}
					mu.Unlock()
				}
			}
		}()
	}
	n := 0
	for {
		line, err := rd.ReadBytes('\n')
		if len(line) > 1 {
			var r bastionRun
			if e := json.Unmarshal(line, &r); e != nil {
				return e
			}
			runs <- r
			n++
		}
		if err == io.EOF {
			break
		}
		if err != nil {
			return err
		}
	}
	close(runs)
	wg.Wait()
	if err := tw.Close(); err != nil {
		return err
	}
	if firstErr != nil {
		return firstErr
	}
	fmt.Printf("BASTION runs=%d events=%d store=%s embed=%s\n", n, tw.n, *storeKind, *embed)
	return nil
}

// renderBody writes the add-checkpoint body for a step (the harness' own writer).
func renderBody(w *world.World, s bastionStep, c world.Concrete) []byte {
	var b bytes.Buffer
	size := "old " + strconv.FormatUint(c.OldSize, 10)
	proofLines := func() {
		for _, h := range c.Proof {
			b.WriteString(base64.StdEncoding.EncodeToString(h) + "\n")
		}
	}
	switch s.Kind {
	case "ok", "unknown-origin":
		b.WriteString(size + "\n")
		proofLines()
		b.WriteString("\n")
		b.Write(c.CP)
	case "nosize":
		switch w.Rng.Intn(4) {
		case 0: // size line missing altogether
		case 1:
			b.WriteString("new " + strconv.FormatUint(c.OldSize, 10) + "\n")
		case 2:
			b.WriteString("old\n")
		default:
			b.WriteString("old -1\n")
		}
		proofLines()
		b.WriteString("\n")
		b.Write(c.CP)
	case "suffix":
		b.WriteString(size + []string{"junk", "x10", " 6", "e3", ".0"}[w.Rng.Intn(5)] + "\n")
		proofLines()
		b.WriteString("\n")
		b.Write(c.CP)
	case "notb64":
		b.WriteString(size + "\n")
		proofLines()
		b.WriteString([]string{"!!!not base64!!!", "abc", "-_-_", "AAAA AAAA"}[w.Rng.Intn(4)] + "\n\n")
		b.Write(c.CP)
	case "noblank":
		b.WriteString(size + "\n")
		proofLines()
		if w.Rng.Intn(2) == 0 {
			b.WriteString(base64.StdEncoding.EncodeToString([]byte("0123456789abcdef0123456789abcdef")) + "\n")
		}
	case "cp-one-line":
		b.WriteString(size + "\n")
		proofLines()
		b.WriteString("\n")
		b.WriteString("a checkpoint without any newline")
	case "empty-body":
	case "oversize":
		b.WriteString(size + "\n")
		proofLines()
		b.WriteString("\n")
		b.Write(c.CP)
		b.WriteString(strings.Repeat("— pad AAAA\n", 2000))
	default:
		panic("unknown body kind " + s.Kind)
	}
	return b.Bytes()
}

// bastionFront is how a run reaches the endpoint and reads the witness state back.
type bastionFront struct {
	post func(body []byte) (int, string, []byte)
	snap func() snapshot
	// extLock takes a read lock on the witness' database from outside and returns the function that releases it (nil: not available here)
	extLock func() (func(), error)
}

func bastionLogs(w *world.World) ([]config.Log, error) {
	var logs []config.Log
	for _, name := range w.P.Logs {
		l := w.Logs[name]
		lc, err := config.NewLog(l.Origin, l.Key.VKey(), "http://log.invalid/")
		if err != nil {
			return nil, err
		}
		logs = append(logs, lc)
	}
	return logs, nil
}

func execBastionRun(base *world.World, r bastionRun, storeKind, embed string, seed int64, dir string) ([]any, error) {
	tag := fmt.Sprintf("%s-%s-%s-%d", r.ID, storeKind, embed, seed)
	w := base.ForRun(tag, hashSeed(tag, seed))
	st, err := newStore(storeKind, dir)
	if err != nil {
		return nil, err
	}
	defer st.close()
	wit, err := newWitness(w, st.p)
	if err != nil {
		return nil, err
	}
	_, witV, err := witnessSigners(w)
	if err != nil {
		return nil, err
	}
	logs, err := bastionLogs(w)
	if err != nil {
		return nil, err
	}
	limit := r.Limit
	if limit < 0 {
		limit = 0
	}
	h := shimNewHandler(bastion.Config{Logs: logs, WitnessVerifier: witV, Limits: bastion.RequestLimits{TotalPerSecond: rate.Limit(limit)}},
		witnessAdapterOf(wit))
	front := bastionFront{post: func(b []byte) (int, string, []byte) { return serve(h, b) }, snap: func() snapshot { return takeSnapshot(w, st.p) }}
	return driveBastion(w, r, tag, storeKind, embed, limit, front)
}

func driveBastion(w *world.World, r bastionRun, tag, storeKind, embed string, limit float64, front bastionFront) ([]any, error) {
	events := []any{resetEvent{E: "reset", Run: tag, Store: storeKind, Embed: embed, Phase: -1}}
	pre := front.snap()
	var lastServedStart, lastServedEnd time.Time
	for k, s := range r.Steps {
		if s.SleepMS > 0 {
			time.Sleep(time.Duration(s.SleepMS) * time.Millisecond)
		}
		if s.Op == "preset" {
			// the service was started on a database that ALREADY holds an acknowledged checkpoint of size 1 for s.Log (written by the harness the
			// way the pinned release writes it): the judge is told what is in the file, not what the service says is in it
			st := map[string]world.CP{}
			for name := range w.Logs {
				st[name] = world.CP{None: true}
			}
			st[s.Log] = world.CP{B: 0, N: 1, Lines: 1 + w.P.NWitKeys, Ext: 0}
			events = append(events, presetEvent{E: "preset", Run: tag, K: k, Stored: st})
			continue
		}
		preAbs := project(w, pre)
		var stored *world.CP
		if c, ok := preAbs[s.Log]; ok {
			stored = &c
		}
		rq := world.Req{Auth: "good", Pf: world.Pf{K: "empty"}}
		if s.Req != nil {
			rq = *s.Req
		}
		logName := s.Log
		if s.Kind == "unknown-origin" {
			logName = "unknown"
		}
		c := w.Concretise(logName, rq, stored)
		if s.Kind == "unknown-origin" {
			// a well-formed, validly signed checkpoint of an origin that is not configured
			l := w.Logs[w.P.Logs[0]]
			text := ref.CheckpointText(unknownOrigin(w, l.Origin), c.Size, c.Root, "")
			c.CP = []byte(text + "\n" + l.Key.SignLegacy(text))
			for j := w.Rng.Intn(3); j > 0; j-- { // sometimes with proof lines and a non-zero old size
				h := make([]byte, 32)
				w.Rng.Read(h)
				c.Proof = append(c.Proof, h)
			}
		}
		if w.Coincides(s.Log, rq, stored, c) {
			events = append(events, skipEvent{E: "skip", Run: tag, K: k})
			continue
		}
		body := renderBody(w, s, c)
		start := time.Now()
		locked := false
		var release func()
		if s.ExtLock && front.extLock != nil {
			rel, err := front.extLock()
			if err != nil {
				return nil, err
			}
			release, locked = rel, true
		}
		status, ctype, rb := front.post(body)
		if release != nil {
			release()
		}
		end := time.Now()
		post := front.snap()
		ev := postEvent{E: "post", Run: tag, K: k, Kind: s.Kind, Log: s.Log, Req: rq, Status: status, CType: ctype, ExtLock: locked,
			Stored: project(w, post), Unchanged: pre.equal(post), RefOK: "na", Limit: int(limit), SinceMS: -1, GapMS: -1,
			Conc: fmt.Sprintf("old=%d size=%d proof=%d body=%dB %s", c.OldSize, c.Size, len(c.Proof), len(body), c.Note)}
		if !lastServedStart.IsZero() {
			ev.SinceMS = int(end.Sub(lastServedStart) / time.Millisecond)
			ev.GapMS = int(start.Sub(lastServedEnd) / time.Millisecond)
		}
		if status != http.StatusTooManyRequests {
			lastServedStart, lastServedEnd = start, end
		}
		ev.Body = classifyBody(w, rb, c.Text)
		if l, ok := w.Logs[s.Log]; ok && s.Kind == "ok" {
			if prevRaw, had := pre.raw[s.Log]; had && rq.Auth == "good" {
				pp := w.Project(l, prevRaw)
				if cp, err := ref.ParseCheckpointText(pp.Text); err == nil && pp.OK && cp.Size <= c.Size {
					if ref.VerifyConsistency(cp.Size, c.Size, c.Proof, cp.Root, c.Root) {
						ev.RefOK = "yes"
					} else {
						ev.RefOK = "no"
					}
				}
			}
		}
		events = append(events, ev)
		pre = post
		for j := 0; j < fuzzPerStep && limit >= 1000; j++ {
			fb := mutate(w.Rng, body)
			fst, _, _ := front.post(fb)
			fpost := front.snap()
			events = append(events, postEvent{E: "post", Run: tag, K: k, Kind: "fuzz", Log: s.Log, Req: rq, Status: fst, Stored: project(w, fpost),
				Unchanged: pre.equal(fpost), RefOK: "na", Limit: int(limit), SinceMS: -1, GapMS: -1, Body: respBody{Cls: "other", N: -1}, Conc: fmt.Sprintf("mutated body %dB", len(fb))})
			pre = fpost
		}
	}
	return events, nil
}

func classifyBody(w *world.World, rb []byte, text string) respBody {
	if len(rb) == 0 {
		return respBody{Cls: "empty", N: -1}
	}
	s := string(rb)
	if strings.HasSuffix(s, "\n") {
		if v, err := strconv.ParseUint(strings.TrimSuffix(s, "\n"), 10, 64); err == nil {
			n := -1
			for i, sz := range w.Sigma {
				if sz == v {
					n = i
				}
			}
			return respBody{Cls: "size", N: n}
		}
	}
	if strings.HasPrefix(s, "— ") {
		note, err := ref.ParseNote([]byte(text + "\n" + s))
		if err != nil || len(note.Sigs) == 0 {
			return respBody{Cls: "other", N: -1}
		}
		ok := true
		for _, sg := range note.Sigs {
			// the protocol's response is the witness' cosignature/v1 line(s)
			if v1, _ := w.WitKey.VerifyCosigV1(text, sg); !v1 {
				ok = false
			}
		}
		return respBody{Cls: "sigline", N: -1, SigOK: ok}
	}
	return respBody{Cls: "other", N: -1}
}

func init() { commands["fuzzcfg"] = fuzzCfgMain }

// fuzzCfgMain writes the configuration and the seed corpus for the native fuzz target (valid requests of every verdict class).
func fuzzCfgMain(args []string) error {
	fs := flag.NewFlagSet("fuzzcfg", flag.ExitOnError)
	out := fs.String("out", "", "config json")
	seed := fs.Int64("seed", 1, "seed")
	_ = fs.Parse(args)
	w := world.New(world.Params{Logs: []string{"l1"}, MaxSize: 4, NBranch: 2, ForkAt: []int{2}, MaxLines: 6, NWitKeys: 2, Embed: "pow2", Seed: *seed, RunTag: "fuzz"})
	l := w.Logs["l1"]
	mk := func(kind string, rq world.Req, stored *world.CP) []byte {
		c := w.Concretise("l1", rq, stored)
		return renderBody(w, bastionStep{Kind: kind, Log: "l1", Req: &rq}, c)
	}
	E := world.Pf{K: "empty"}
	st := &world.CP{B: 0, N: 2, Lines: 3}
	cfg := map[string]any{"Origin": l.Origin, "LogVKey": l.Key.VKey(), "WitSKey": w.WitKey.SKey(),
		"Setup": [][]byte{mk("ok", world.Req{Auth: "good", B: 0, N: 2, Pf: E}, nil)}}
	seeds := [][]byte{
		mk("ok", world.Req{Auth: "good", Old: 2, B: 0, N: 3, Pf: world.Pf{K: "right", B: 0, M: 2, N: 3}}, st), // would be accepted
		mk("ok", world.Req{Auth: "good", Old: 2, B: 0, N: 2, Pf: E}, st),                                      // refresh
		mk("ok", world.Req{Auth: "good", Old: 1, B: 0, N: 3, Pf: world.Pf{K: "right", B: 0, M: 1, N: 3}}, st), // stale
		mk("ok", world.Req{Auth: "good", Old: 4, B: 0, N: 3, Pf: E}, st),                                      // old size too large
		mk("ok", world.Req{Auth: "good", Old: 2, B: 2, N: 2, Pf: E}, st),                                      // root mismatch
		mk("ok", world.Req{Auth: "good", Old: 2, B: 0, N: 4, Pf: world.Pf{K: "bad", Kind: "flip"}}, st),       // invalid proof
		mk("ok", world.Req{Auth: "badsig", B: 0, N: 3, Pf: E}, st),                                            // no valid signature
		mk("unknown-origin", world.Req{Auth: "good", B: 0, N: 3, Pf: E}, st),
		mk("nosize", world.Req{Auth: "good", B: 0, N: 3, Pf: E}, st), mk("notb64", world.Req{Auth: "good", B: 0, N: 3, Pf: E}, st),
		mk("noblank", world.Req{Auth: "good", B: 0, N: 3, Pf: E}, st), mk("cp-one-line", world.Req{Auth: "good", B: 0, N: 3, Pf: E}, st),
	}
	cfg["Seeds"] = seeds
	b, _ := json.Marshal(cfg)
	return os.WriteFile(*out, b, 0o644)
}

// unknownOrigin is an origin that is not configured: short or long, ASCII or not (whatever the endpoint does with the name of an origin it
// does not know - logging it, labelling a metric with it - must not change the answer).
func unknownOrigin(w *world.World, base string) string {
	switch w.Rng.Intn(6) {
	case 0:
		return base + "/not-configured"
	case 1:
		return base + "/" + strings.Repeat("n", 40+w.Rng.Intn(200))
	case 2:
		// multi-byte runes around every small offset
		return base[:w.Rng.Intn(len(base))] + strings.Repeat("é", 1+w.Rng.Intn(3)) + strings.Repeat("x", w.Rng.Intn(70)) + "ü日本語" + strings.Repeat("y", w.Rng.Intn(70)) + "ø"
	case 3:
		return strings.Repeat("日本語のログ", 4+w.Rng.Intn(12))
	case 4:
		return strings.Repeat("a", 60+w.Rng.Intn(8)) + "é" + strings.Repeat("b", w.Rng.Intn(10))
	default:
		return "not-configured.example/" + strings.Repeat("z", w.Rng.Intn(5)) + "\u00a0\u2028 spaced \"quoted\" {braces}"
	}
}
