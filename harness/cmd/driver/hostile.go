package main

import (
	"bufio"
	"bytes"
	"context"
	"encoding/hex"
	"encoding/json"
	"errors"
	"flag"
	"fmt"
	"math/rand"
	"net/http"
	"net/http/httptest"
	"os"
	"os/exec"
	"strconv"
	"strings"
	"sync"
	"time"

	"github.com/transparency-dev/witness/internal/config"
	"github.com/transparency-dev/witness/internal/distribute/rest"
	"github.com/transparency-dev/witness/internal/feeder"
	"github.com/transparency-dev/witness/internal/feeder/pixelbt"
	"github.com/transparency-dev/witness/internal/feeder/rekor"
	"github.com/transparency-dev/witness/internal/feeder/serverless"
	"github.com/transparency-dev/witness/internal/feeder/sumdb"
	"github.com/transparency-dev/witness/internal/feeder/tiles"
	"github.com/transparency-dev/witness/verifharness/internal/ref"
	"github.com/transparency-dev/witness/verifharness/internal/stublog"
	"github.com/transparency-dev/witness/verifharness/internal/world"
	"golang.org/x/mod/sumdb/tlog"
)

func init() {
	commands["hostile"] = hostileMain
	commands["hostile-child"] = hostileChild
}

type hostileScen struct {
	Feeder string `json:"feeder"`
	Wit    string `json:"wit"`
	CP     string `json:"cp"`
	Data   string `json:"data"`
}

type cycleEvent struct {
	E       string `json:"e"`
	Run     string `json:"run"`
	K       int    `json:"k"`
	Comp    string `json:"comp"`
	Wit     string `json:"wit"`
	CP      string `json:"cp"`
	Data    string `json:"data"`
	Outcome string `json:"outcome"` // result | error | panic | hang | exit
	Sig     string `json:"sig"`
	Detail  string `json:"detail"`
	// OverrunMS: how long after the END of its context the cycle returned (0 if it returned before)
	OverrunMS int `json:"overrunms"`
}

const (
	heldSize = 200
	pubSize  = 300
)

func hostileCheckpoint(w *world.World, l *world.LogW, cls string, rng *rand.Rand) (status int, body []byte) {
	sign := func(size uint64, root []byte) []byte {
		text := ref.CheckpointText(l.Origin, size, root, "")
		return []byte(text + "\n" + l.Key.SignLegacy(text))
	}
	rnd := func(n int) []byte { b := make([]byte, n); rng.Read(b); return b }
	honestRoot := l.Trees[0].Root(pubSize)
	honest := sign(pubSize, honestRoot[:])
	switch cls {
	case "valid":
		return 200, honest
	case "size0":
		e := ref.EmptyRoot()
		return 200, sign(0, e[:])
	case "size2^62":
		return 200, sign(1<<62, rnd(32))
	case "size2^62+":
		return 200, sign(1<<62+12345, rnd(32))
	case "size2^63":
		return 200, sign(1<<63, rnd(32))
	case "size2^64-1":
		return 200, sign(^uint64(0), rnd(32))
	case "hash0":
		return 200, sign(pubSize, []byte{})
	case "hash5":
		return 200, sign(pubSize, rnd(5))
	case "hash33":
		return 200, sign(pubSize, rnd(33))
	case "badsig":
		b := append([]byte{}, honest...)
		b[len(b)-10] ^= 1
		return 200, b
	case "truncated":
		return 200, honest[:len(honest)/2]
	case "oversized":
		return 200, bytes.Repeat([]byte("AAAAAAAAAAAAAAAAAAAAAAAAAAAAAAAAAAAAAAAAAAAAAAAAAAAAAAAAAAAAAAA\n"), 32*1024)
	case "random":
		return 200, rnd(300)
	case "status404":
		return 404, []byte("not found")
	case "status500":
		return 500, []byte("boom")
	case "empty":
		return 200, nil
	case "json-null-shard":
		// a Rekor-like answer whose active shard is another tree and whose inactive shards contain a null
		b, _ := json.Marshal(map[string]any{"signedTreeHead": string(honest), "treeID": "9999", "treeSize": pubSize, "rootHash": "",
			"inactiveShards": []any{nil, map[string]any{"signedTreeHead": string(honest), "treeID": "1234", "treeSize": pubSize}}})
		return 200, b
	case "json-inactive-shard":
		b, _ := json.Marshal(map[string]any{"signedTreeHead": "", "treeID": "9999", "treeSize": 1, "rootHash": "",
			"inactiveShards": []any{map[string]any{"signedTreeHead": string(honest), "treeID": "1234", "treeSize": pubSize}}})
		return 200, b
	case "json-odd-types":
		return 200, []byte([]string{`{"signedTreeHead": 5, "treeID": ["1234"], "inactiveShards": {"a": 1}}`, `[1,2,3]`, `{"treeID":"1234"}`, `null`, `{"inactiveShards":[[]]}`,
			`{"treeID":"1234","signedTreeHead":null,"treeSize":"big"}`}[rng.Intn(6)])
	}
	panic("unknown checkpoint class " + cls)
}

func hostileData(cls string, honest func() (int, []byte), rng *rand.Rand) (int, []byte) {
	switch cls {
	case "valid":
		return honest()
	case "truncated":
		st, b := honest()
		return st, b[:len(b)/2]
	case "oversized":
		return 200, make([]byte, 2<<20)
	case "random":
		b := make([]byte, 100+rng.Intn(200))
		rng.Read(b)
		return 200, b
	case "status404":
		return 404, []byte("no")
	case "status500":
		return 500, []byte("boom")
	case "empty":
		return 200, nil
	case "json-null":
		return 200, []byte([]string{`{"hashes":null}`, `{"hashes":[null]}`, `null`, `{}`}[rng.Intn(4)])
	case "json-odd":
		return 200, []byte([]string{`{"hashes":["zz"]}`, `{"hashes":"abcd"}`, `{"hashes":[1,2]}`, `{"hashes":["", ""]}`, `[[]]`}[rng.Intn(5)])
	}
	panic("unknown data class " + cls)
}

// hostileChild runs ONE feed cycle of one real feeder against one hostile log server and prints how it ended.
func hostileChild(args []string) error {
	fs := flag.NewFlagSet("hostile-child", flag.ExitOnError)
	scenJSON := fs.String("scen", "", "scenario json")
	seed := fs.Int64("seed", 1, "seed")
	_ = fs.Parse(args)
	var s hostileScen
	if err := json.Unmarshal([]byte(*scenJSON), &s); err != nil {
		return err
	}
	rng := rand.New(rand.NewSource(*seed))
	if s.Feeder == "distributor" {
		return hostileDistributor(s, rng, *seed)
	}
	if s.Feeder == "storm" {
		return hostileStorm(s, *seed)
	}
	p := world.Params{Logs: []string{"l1"}, MaxSize: 1, NBranch: 1, MaxLines: 6, NWitKeys: 2, Seed: *seed, RunTag: "hostile", Origins: map[string]string{}}
	if s.Feeder == "sumdb" {
		p.Origins["l1"] = "go.sum database tree"
	}
	shards := 1
	if s.Feeder == "rekor-shards" {
		s.Feeder, shards = "rekor", 3
		p.Logs = []string{"l1", "l2", "l3"}
	}
	w := world.New(p)
	l := w.Logs["l1"]
	st, _ := newStore("inmem", "")
	wit, err := newWitness(w, st.p)
	if err != nil {
		return err
	}
	ctx, cancel := context.WithTimeout(context.Background(), 1200*time.Millisecond)
	defer cancel()
	if s.Wit == "held" {
		r := l.Trees[0].Root(heldSize)
		text := ref.CheckpointText(l.Origin, heldSize, r[:], "")
		if _, err := wit.Update(ctx, l.ID, 0, []byte(text+"\n"+l.Key.SignLegacy(text)), nil); err != nil {
			return fmt.Errorf("set-up: %v", err)
		}
	}
	sl := stublog.New(l.Origin, l.Key, l.Trees)
	sl.Publish(0, pubSize)
	var honest http.Handler
	cpPath := ""
	switch s.Feeder {
	case "sumdb":
		honest, cpPath = sl.SumDBHandler(), "/latest"
	case "tiles":
		honest, cpPath = sl.TilesHandler(), "/checkpoint"
	case "serverless":
		honest, cpPath = http.NotFoundHandler(), "/checkpoint"
	case "pixel":
		cpPath = "/checkpoint.txt"
		honest = http.HandlerFunc(func(rw http.ResponseWriter, r *http.Request) {
			t, err := tlog.ParseTilePath(strings.TrimPrefix(r.URL.Path, "/"))
			if err != nil {
				http.NotFound(rw, r)
				return
			}
			data, err := tlog.ReadTileData(t, tlog.HashReaderFunc(func(idx []int64) ([]tlog.Hash, error) {
				out := make([]tlog.Hash, len(idx))
				for i, x := range idx {
					lv, n := tlog.SplitStoredHashIndex(x)
					lo := uint64(n) << uint(lv)
					out[i] = tlog.Hash(l.Trees[0].MTH(lo, lo+(uint64(1)<<uint(lv))))
				}
				return out, nil
			}))
			if err != nil {
				http.Error(rw, err.Error(), 404)
				return
			}
			rw.Write(data)
		})
	case "rekor":
		cpPath = "/api/v1/log"
		honest = http.HandlerFunc(func(rw http.ResponseWriter, r *http.Request) {
			if !strings.HasPrefix(r.URL.Path, "/api/v1/log/proof") {
				http.NotFound(rw, r)
				return
			}
			first, _ := strconv.ParseUint(r.URL.Query().Get("firstSize"), 10, 64)
			last, _ := strconv.ParseUint(r.URL.Query().Get("lastSize"), 10, 64)
			hashes := []string{}
			if first > 0 && first < last && last <= 1<<20 {
				for _, h := range l.Trees[0].ConsistencyProof(first, last) {
					hashes = append(hashes, hex.EncodeToString(h))
				}
			}
			b, _ := json.Marshal(map[string]any{"hashes": hashes})
			rw.Write(b)
		})
	default:
		return fmt.Errorf("unknown feeder %q", s.Feeder)
	}
	srv := httptest.NewServer(http.HandlerFunc(func(rw http.ResponseWriter, r *http.Request) {
		// "throttled": the server asks for patience (429 with Retry-After: 30) - however polite the feeder is, it stops when its context ends
		if (r.URL.Path == cpPath && s.CP == "throttled") || (r.URL.Path != cpPath && s.Data == "throttled") {
			rw.Header().Set("Retry-After", "30")
			http.Error(rw, "slow down", http.StatusTooManyRequests)
			return
		}
		if r.URL.Path == cpPath {
			status, body := hostileCheckpoint(w, l, s.CP, rng)
			if s.Feeder == "rekor" && status == 200 && s.CP != "random" && s.CP != "oversized" && s.CP != "empty" && s.CP != "truncated" && !strings.HasPrefix(s.CP, "json-") {
				body, _ = json.Marshal(map[string]any{"signedTreeHead": string(body), "treeID": "1234", "treeSize": pubSize, "rootHash": "00"})
			}
			rw.WriteHeader(status)
			rw.Write(body)
			return
		}
		status, body := hostileData(s.Data, func() (int, []byte) {
			rec := httptest.NewRecorder()
			honest.ServeHTTP(rec, r)
			return rec.Code, rec.Body.Bytes()
		}, rng)
		rw.WriteHeader(status)
		rw.Write(body)
	}))
	defer srv.Close()
	url := srv.URL + "/"
	if s.Feeder == "sumdb" {
		url = srv.URL
	}
	if s.Feeder == "rekor" {
		url = srv.URL + "/?treeID=1234"
	}
	lc, err := config.NewLog(l.Origin, l.Key.VKey(), url)
	if err != nil {
		return err
	}
	feed := map[string]func(context.Context, config.Log, feeder.Witness, *http.Client, time.Duration) error{
		"sumdb": sumdb.FeedLog, "tiles": tiles.FeedLog, "serverless": serverless.FeedLog, "pixel": pixelbt.FeedLog, "rekor": rekor.FeedLog}[s.Feeder]
	var ferr error
	cycleStart := time.Now()
	defer func() {
		if over := time.Since(cycleStart) - 1200*time.Millisecond; over > 0 {
			say("OVERRUN %d", over.Milliseconds())
		}
	}()
	if shards == 1 {
		ferr = feed(ctx, lc, witnessAdapterOf(wit), &http.Client{Timeout: 2 * time.Second}, 0)
	} else {
		// the shards of one instance: same host, one tree ID each, cycles overlapping; every one of them has to come back
		client := &http.Client{Timeout: 2 * time.Second}
		errs := make(chan error, shards)
		for i := 0; i < shards; i++ {
			li := w.Logs[p.Logs[i]]
			lci, err := config.NewLog(li.Origin, li.Key.VKey(), fmt.Sprintf("%s/?treeID=%d", srv.URL, 1234+i))
			if err != nil {
				return err
			}
			go func() { errs <- feed(ctx, lci, witnessAdapterOf(wit), client, 0) }()
		}
		for i := 0; i < shards; i++ {
			if e := <-errs; e != nil {
				ferr = e
			}
		}
	}
	if ferr == nil {
		say("OUTCOME result")
	} else {
		say("OUTCOME error %s", strings.ReplaceAll(ferr.Error(), "\n", " "))
	}
	return nil
}

// hostileDistributor runs ONE cycle of the real REST distributor, the way Main runs it (process context without a deadline, an HTTP
// client with a timeout), in front of a real witness that holds a checkpoint, against a distributor that answers with the given class.
func hostileDistributor(s hostileScen, rng *rand.Rand, seed int64) error {
	w := world.New(world.Params{Logs: []string{"l1"}, MaxSize: 1, NBranch: 1, MaxLines: 6, NWitKeys: 2, Seed: seed, RunTag: "hostile-dist"})
	l := w.Logs["l1"]
	st, _ := newStore("inmem", "")
	wit, err := newWitness(w, st.p)
	if err != nil {
		return err
	}
	r := l.Trees[0].Root(heldSize)
	text := ref.CheckpointText(l.Origin, heldSize, r[:], "")
	if _, err := wit.Update(context.Background(), l.ID, 0, []byte(text+"\n"+l.Key.SignLegacy(text)), nil); err != nil {
		return fmt.Errorf("set-up: %v", err)
	}
	_, witV, err := witnessSigners(w)
	if err != nil {
		return err
	}
	hops := 0
	other := httptest.NewServer(http.HandlerFunc(func(rw http.ResponseWriter, r *http.Request) { rw.WriteHeader(200) }))
	defer other.Close()
	srv := httptest.NewServer(http.HandlerFunc(func(rw http.ResponseWriter, r *http.Request) {
		hijackWrite := func(b []byte) {
			if hj, ok := rw.(http.Hijacker); ok {
				c, _, _ := hj.Hijack()
				c.Write(b)
				c.Close()
			}
		}
		switch s.Data {
		case "200":
			rw.WriteHeader(200)
		case "status404":
			http.Error(rw, "no such log", 404)
		case "status500":
			http.Error(rw, "boom", 500)
		case "empty":
			hijackWrite(nil)
		case "random":
			b := make([]byte, 200)
			rng.Read(b)
			hijackWrite(b)
		case "oversized":
			rw.WriteHeader(200)
			rw.Write(make([]byte, 8<<20))
		case "redirect-loop":
			hops++
			http.Redirect(rw, r, fmt.Sprintf("%s?hop=%d", r.URL.Path, hops), http.StatusTemporaryRedirect)
		case "redirect-elsewhere":
			http.Redirect(rw, r, other.URL+"/elsewhere", http.StatusPermanentRedirect)
		case "retry-after-seconds":
			rw.Header().Set("Retry-After", []string{"86400", "4294967295", "31536000"}[rng.Intn(3)])
			rw.WriteHeader([]int{429, 503}[rng.Intn(2)])
		case "retry-after-date":
			rw.Header().Set("Retry-After", time.Now().Add(72*time.Hour).UTC().Format(http.TimeFormat))
			rw.WriteHeader([]int{429, 503}[rng.Intn(2)])
		case "slow-headers":
			select {
			case <-time.After(60 * time.Second):
			case <-r.Context().Done():
			}
		case "slow-body":
			rw.WriteHeader(200)
			if f, ok := rw.(http.Flusher); ok {
				f.Flush()
			}
			select {
			case <-time.After(60 * time.Second):
			case <-r.Context().Done():
			}
		default:
			panic("unknown distributor answer " + s.Data)
		}
	}))
	defer srv.Close()
	lc, err := config.NewLog(l.Origin, l.Key.VKey(), "http://log.invalid/")
	if err != nil {
		return err
	}
	d, err := rest.NewDistributor(srv.URL, &http.Client{Timeout: 2 * time.Second}, []config.Log{lc}, witV, witnessAdapterOf(wit))
	if err != nil {
		return err
	}
	if derr := d.DistributeOnce(context.Background()); derr == nil {
		say("OUTCOME result")
	} else {
		say("OUTCOME error %s", strings.ReplaceAll(derr.Error(), "\n", " "))
	}
	os.Exit(0) // the cycle has ended; do not wait for the stub's slow handlers (httptest's Close would)
	return nil
}

func runHostileChild(self string, s hostileScen, seed int64, deadline time.Duration) (string, string) {
	b, _ := json.Marshal(s)
	ctx, cancel := context.WithTimeout(context.Background(), deadline)
	defer cancel()
	cmd := exec.CommandContext(ctx, self, "hostile-child", "-scen", string(b), "-seed", fmt.Sprint(seed))
	var out bytes.Buffer
	cmd.Stdout = &out
	cmd.Stderr = &out
	err := cmd.Run()
	if ctx.Err() != nil {
		return "hang", fmt.Sprintf("no outcome within %v (the cycle's own context ends after 1.2 s)", deadline)
	}
	for _, l := range strings.Split(out.String(), "\n") {
		if strings.HasPrefix(l, "OUTCOME result") {
			return "result", overrunNote(out.String())
		}
		if strings.HasPrefix(l, "OUTCOME error") {
			return "error", l + overrunNote(out.String())
		}
	}
	if strings.Contains(out.String(), "panic:") || strings.Contains(out.String(), "fatal error:") {
		return "panic", firstLine(out.String(), "panic:") + firstLine(out.String(), "fatal error:")
	}
	var ee *exec.ExitError
	if errors.As(err, &ee) {
		return "exit", out.String()
	}
	return "exit", out.String()
}

// overrunNote passes the child's OVERRUN line on inside the detail string (" OVERRUN=<ms>").
func overrunNote(out string) string {
	for _, l := range strings.Split(out, "\n") {
		if strings.HasPrefix(l, "OVERRUN ") {
			return " OVERRUN=" + strings.TrimPrefix(l, "OVERRUN ")
		}
	}
	return ""
}

func hostileMain(args []string) error {
	fs := flag.NewFlagSet("hostile", flag.ExitOnError)
	in := fs.String("in", "", "scenarios (jsonl)")
	out := fs.String("out", "", "trace")
	seed := fs.Int64("seed", 1, "seed")
	workers := fs.Int("workers", 8, "parallel child processes")
	_ = fs.Parse(args)
	self, err := os.Executable()
	if err != nil {
		return err
	}
	f, err := os.Open(*in)
	if err != nil {
		return err
	}
	defer f.Close()
	var scens []hostileScen
	sc := bufio.NewScanner(f)
	for sc.Scan() {
		var s hostileScen
		if err := json.Unmarshal(sc.Bytes(), &s); err != nil {
			return err
		}
		scens = append(scens, s)
	}
	res := make([]cycleEvent, len(scens))
	var wg sync.WaitGroup
	sem := make(chan struct{}, *workers)
	for i, s := range scens {
		wg.Add(1)
		sem <- struct{}{}
		go func(i int, s hostileScen) {
			defer wg.Done()
			defer func() { <-sem }()
			outcome, detail := runHostileChild(self, s, *seed, 20*time.Second)
			if outcome == "hang" { // a second, fresh attempt with a longer deadline before a hang is reported
				outcome, detail = runHostileChild(self, s, *seed+1, 40*time.Second)
			}
			comp := "feeder/" + s.Feeder
			if s.Feeder == "distributor" {
				comp = "distributor"
			}
			if s.Feeder == "storm" {
				comp = "witness/first submissions of many logs at once"
			}
			res[i] = cycleEvent{E: "cycle", Run: fmt.Sprintf("h%d", i), K: i, Comp: comp, Wit: s.Wit, CP: s.CP, Data: s.Data, Outcome: outcome,
				Sig: fmt.Sprintf("%s/%s/%s", s.Feeder, s.CP, outcome), Detail: detail}
			if s.Feeder == "distributor" {
				res[i].Sig = fmt.Sprintf("distributor/%s/%s", s.Data, outcome)
			}
			if outcome == "result" || outcome == "error" {
				res[i].Sig = "-"
			}
			if j := strings.LastIndex(detail, " OVERRUN="); j >= 0 {
				fmt.Sscanf(detail[j+9:], "%d", &res[i].OverrunMS)
			}
		}(i, s)
	}
	wg.Wait()
	tw, err := newTraceWriter(*out)
	if err != nil {
		return err
	}
	ev := make([]any, len(res))
	hist := map[string]int{}
	for i := range res {
		ev[i] = res[i]
		hist[res[i].Outcome]++
	}
	if err := tw.writeRun(ev); err != nil {
		return err
	}
	if err := tw.Close(); err != nil {
		return err
	}
	fmt.Printf("HOSTILE cycles=%d outcomes=%v\n", len(res), hist)
	return nil
}
