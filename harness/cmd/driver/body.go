package main

import (
	"bufio"
	"bytes"
	"encoding/base64"
	"encoding/json"
	"flag"
	"fmt"
	"math/rand"
	"os"
	"strconv"
	"strings"

	"github.com/transparency-dev/witness/internal/witness"
)

func init() { commands["body"] = bodyMain }

type bodyVec struct {
	Toks []string `json:"toks"`
}

type bodyEvent struct {
	E        string   `json:"e"` // body | proof | writer
	Run      string   `json:"run"`
	K        int      `json:"k"`
	Toks     []string `json:"toks"`
	Kind     string   `json:"kind"`
	Accepted bool     `json:"accepted"`
	OldOK    bool     `json:"oldok"`
	ProofOK  bool     `json:"proofok"`
	CPOK     bool     `json:"cpok"`
	NoData   bool     `json:"nodata"`
	Same     bool     `json:"same"`
	Conc     string   `json:"conc"`
}

var sizeSamples = []uint64{0, 1, 2, 9, 10, 99, 100, 255, 256, 65535, 65536, 1<<31 - 1, 1 << 31, 1<<32 - 1, 1 << 32, 1<<53 + 1, 1<<62 - 1, 1 << 62, 1<<63 - 1, 1 << 63, 1<<64 - 2, 1<<64 - 1}

func sampleSize(rng *rand.Rand) uint64 {
	switch rng.Intn(3) {
	case 0:
		return sizeSamples[rng.Intn(len(sizeSamples))]
	case 1: // every decimal length
		d := 1 + rng.Intn(20)
		s := string(rune('1' + rng.Intn(9)))
		for len(s) < d {
			s += string(rune('0' + rng.Intn(10)))
		}
		v, err := strconv.ParseUint(s, 10, 64)
		if err != nil {
			return ^uint64(0)
		}
		return v
	}
	return rng.Uint64() >> uint(rng.Intn(64))
}

func randBytes(rng *rand.Rand, n int) []byte {
	b := make([]byte, n)
	rng.Read(b)
	return b
}

// cpLine is a line of "checkpoint bytes": never valid base64, may be non-UTF-8, never contains a newline.
func cpLine(rng *rand.Rand) []byte {
	b := []byte("verif.example/log .")
	extra := randBytes(rng, rng.Intn(40))
	for i := range extra {
		if extra[i] == '\n' {
			extra[i] = 0xff
		}
		if extra[i] == '\r' && i == len(extra)-1 { // (a trailing CR would be eaten by the line reader in the proof area)
			extra[i] = 0xfe
		}
	}
	if rng.Intn(4) == 0 {
		b = append(b, '\r', ' ', 0)
	}
	return append(b, extra...)
}

// renderTokens turns a token sequence into bytes and remembers what was written.
func renderTokens(rng *rand.Rand, toks []string) (body []byte, old uint64, hashes [][]byte, cp []byte, desc string) {
	var b bytes.Buffer
	blankAt := -1
	for i, t := range toks {
		if t == "blank" && i >= 1 {
			blankAt = i
			break
		}
	}
	var cpBuf bytes.Buffer
	for i, t := range toks {
		var line []byte
		switch t {
		case "size":
			v := sampleSize(rng)
			if i == 0 {
				old = v
			}
			line = []byte("old " + strconv.FormatUint(v, 10))
		case "sloppy":
			v := sampleSize(rng)
			if i == 0 {
				old = v
			}
			d := strconv.FormatUint(v, 10)
			line = []byte([]string{"old 00" + d, "old  " + d, "old +" + d, "old " + d + " ", "old " + d + "\r", "old \t" + d}[rng.Intn(6)])
		case "suffix":
			line = []byte("old " + strconv.FormatUint(sampleSize(rng)>>8, 10) + []string{"junk", "x10", " 6", "e3", ".0", "_"}[rng.Intn(6)])
		case "nosize":
			line = [][]byte{[]byte("new 5"), []byte("old"), []byte("old -1"), []byte("old 18446744073709551616"), []byte("Old 5"), []byte("old abc"), []byte(" old 5"), []byte("old 0x"), cpLine(rng)}[rng.Intn(9)]
		case "b64":
			h := randBytes(rng, 1+rng.Intn(64))
			if blankAt < 0 || i < blankAt {
				if i >= 1 {
					hashes = append(hashes, h)
				}
			}
			line = []byte(base64.StdEncoding.EncodeToString(h))
		case "notb64":
			line = []byte([]string{"!!!not base64!!!", "abc", "-_-_", "AAAA AAAA", "QUJD=", "=QUJD", "QUJ", "QUJDRA=", "é"}[rng.Intn(9)])
		case "blank":
			line = nil
		case "cp":
			line = cpLine(rng)
		}
		if blankAt >= 0 && i > blankAt {
			cpBuf.Write(line)
			if i < len(toks)-1 || rng.Intn(2) == 0 {
				cpBuf.WriteByte('\n')
			}
			continue
		}
		b.Write(line)
		b.WriteByte('\n')
	}
	cp = cpBuf.Bytes()
	b.Write(cp)
	if hashes == nil {
		hashes = [][]byte{}
	}
	return b.Bytes(), old, hashes, cp, fmt.Sprintf("%dB old=%d hashes=%d cp=%dB", b.Len(), old, len(hashes), len(cp))
}

func sameHashes(a, b [][]byte) bool {
	if len(a) != len(b) {
		return false
	}
	for i := range a {
		if !bytes.Equal(a[i], b[i]) {
			return false
		}
	}
	return true
}

func bodyMain(args []string) error {
	fs := flag.NewFlagSet("body", flag.ExitOnError)
	in := fs.String("in", "", "token sequences (jsonl)")
	out := fs.String("out", "", "trace")
	seed := fs.Int64("seed", 1, "seed")
	reps := fs.Int("reps", 2, "concretisations per token sequence")
	nproof := fs.Int("proofs", 400, "proof round trips")
	writerIn := fs.String("writer-in", "", "write inputs for the repository's own body writer here and stop")
	writerOut := fs.String("writer-out", "", "bodies captured from the repository's own writer (base64 lines), with -writer-vec")
	writerVec := fs.String("writer-vec", "", "the inputs that were given to the writer")
	_ = fs.Parse(args)
	rng := rand.New(rand.NewSource(*seed))
	if *writerIn != "" {
		f, err := os.Create(*writerIn)
		if err != nil {
			return err
		}
		defer f.Close()
		for i := 0; i < 300; i++ {
			n := rng.Intn(12)
			if i < 65 {
				n = i
			}
			pf := []string{}
			for j := 0; j < n; j++ {
				pf = append(pf, base64.StdEncoding.EncodeToString(randBytes(rng, 1+rng.Intn(64))))
			}
			var cp bytes.Buffer
			for j := 0; j < rng.Intn(6); j++ {
				if rng.Intn(4) == 0 {
					cp.WriteByte('\n') // blank lines inside the checkpoint
				}
				cp.Write(cpLine(rng))
				cp.WriteByte('\n')
			}
			// the feeder only ever calls this writer with old size 0 (its GetLatestCheckpoint always answers "none")
			b, _ := json.Marshal(map[string]any{"old": 0, "proof": pf, "cp": base64.StdEncoding.EncodeToString(cp.Bytes())})
			f.Write(append(b, '\n'))
		}
		return nil
	}
	tw, err := newTraceWriter(*out)
	if err != nil {
		return err
	}
	var events []any
	k := 0
	// (1) token sequences through the real parseBody
	if *in != "" {
		f, err := os.Open(*in)
		if err != nil {
			return err
		}
		sc := bufio.NewScanner(f)
		sc.Buffer(make([]byte, 1<<20), 1<<24)
		for sc.Scan() {
			var v bodyVec
			if err := json.Unmarshal(sc.Bytes(), &v); err != nil {
				return err
			}
			if v.Toks == nil {
				v.Toks = []string{}
			}
			for r := 0; r < *reps; r++ {
				body, old, hashes, cp, desc := renderTokens(rng, v.Toks)
				gotOld, gotProof, gotCP, perr := shimParseBody(bytes.NewReader(body))
				// what was parsed must stay what it is while the parser works on the NEXT request (another body of about the same size)
				decoy := bytes.Repeat([]byte("old 7\nAAAAAAAAAAAAAAAAAAAAAAAAAAAAAAAAAAAAAAAAAAA=\n\ndecoy checkpoint body\n"), 1+len(body)/70)
				_, _, _, _ = shimParseBody(bytes.NewReader(decoy))
				ev := bodyEvent{E: "body", Run: "body", K: k, Toks: v.Toks, Accepted: perr == nil, Conc: desc}
				if perr == nil {
					ev.OldOK = gotOld == old
					ev.ProofOK = sameHashes(gotProof, hashes)
					ev.CPOK = bytes.Equal(gotCP, cp)
				} else {
					ev.NoData = gotOld == 0 && len(gotProof) == 0 && len(gotCP) == 0
				}
				events = append(events, ev)
				k++
			}
		}
		f.Close()
	}
	// (2) Proof.Marshal / Proof.Unmarshal
	for j := 0; j < *nproof; j++ {
		n := rng.Intn(65)
		if j <= 64 {
			n = j // every length 0..64, the empty list first
		}
		p := witness.Proof{}
		for x := 0; x < n; x++ {
			p = append(p, randBytes(rng, 1+rng.Intn(64)))
		}
		text := p.Marshal()
		var q witness.Proof
		uerr := q.Unmarshal([]byte(text))
		events = append(events, bodyEvent{E: "proof", Run: "proof", K: j, Kind: "roundtrip", Toks: []string{}, Accepted: uerr == nil,
			Same: uerr == nil && sameHashes(p, q), Conc: fmt.Sprintf("%d hashes, %dB", n, len(text))})
		if n > 0 {
			lines := strings.Split(strings.TrimSuffix(text, "\n"), "\n")
			lines[rng.Intn(len(lines))] = "!!not base64"
			var q2 witness.Proof
			e2 := q2.Unmarshal([]byte(strings.Join(lines, "\n") + "\n"))
			events = append(events, bodyEvent{E: "proof", Run: "proof", K: j, Kind: "notb64", Toks: []string{}, Accepted: e2 == nil})
			var q3 witness.Proof
			e3 := q3.Unmarshal([]byte(strings.TrimSuffix(text, "\n")))
			events = append(events, bodyEvent{E: "proof", Run: "proof", K: j, Kind: "nonewline", Toks: []string{}, Accepted: e3 == nil})
		}
	}
	// (3) bodies written by cmd/feedbastion's writer
	if *writerOut != "" {
		vf, err := os.Open(*writerVec)
		if err != nil {
			return err
		}
		of, err := os.Open(*writerOut)
		if err != nil {
			return err
		}
		vs, os_ := bufio.NewScanner(vf), bufio.NewScanner(of)
		vs.Buffer(make([]byte, 1<<20), 1<<24)
		os_.Buffer(make([]byte, 1<<20), 1<<24)
		j := 0
		for vs.Scan() && os_.Scan() {
			var v struct {
				Old   uint64   `json:"old"`
				Proof []string `json:"proof"`
				CP    string   `json:"cp"`
			}
			if err := json.Unmarshal(vs.Bytes(), &v); err != nil {
				return err
			}
			body, _ := base64.StdEncoding.DecodeString(os_.Text())
			want := [][]byte{}
			for _, p := range v.Proof {
				h, _ := base64.StdEncoding.DecodeString(p)
				want = append(want, h)
			}
			cp, _ := base64.StdEncoding.DecodeString(v.CP)
			gotOld, gotProof, gotCP, perr := shimParseBody(bytes.NewReader(body))
			_, _, _, _ = shimParseBody(bytes.NewReader(bytes.Repeat([]byte("old 9\n\nanother request's checkpoint\n"), 1+len(body)/36)))
			events = append(events, bodyEvent{E: "writer", Run: "writer", K: j, Toks: []string{}, Accepted: perr == nil,
				OldOK: gotOld == v.Old, ProofOK: perr == nil && sameHashes(gotProof, want), CPOK: bytes.Equal(gotCP, cp),
				Conc: fmt.Sprintf("%d hashes, cp %dB", len(want), len(cp))})
			j++
		}
	}
	if err := tw.writeRun(events); err != nil {
		return err
	}
	if err := tw.Close(); err != nil {
		return err
	}
	fmt.Printf("BODY events=%d\n", len(events))
	return nil
}
