//go:build noshim_bastion

package main

import (
	"io"
	"net/http"

	"github.com/transparency-dev/witness/internal/feeder"
	"github.com/transparency-dev/witness/internal/feeder/bastion"
)

// The overlay shim for package bastion does not compile against this tree: commands that need the unexported parser or handler cannot run.
func shimParseBody(r io.Reader) (uint64, [][]byte, []byte, error) {
	shimUnavailable("bastion")
	return 0, nil, nil, nil
}
func shimNewHandler(c bastion.Config, w feeder.Witness) http.Handler {
	shimUnavailable("bastion")
	return nil
}
