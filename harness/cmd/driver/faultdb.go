package main

import (
	"context"
	"database/sql"
	"database/sql/driver"
	"errors"
	"os"
	"strconv"
	"strings"
	"sync"
	"syscall"

	sqlite3 "github.com/mattn/go-sqlite3"
)

// A wrapping database/sql driver ("sqlite3verif") that delegates to mattn/go-sqlite3 and lets the
// harness (a) count transactions that were begun but not finished, (b) fail the n-th operation of a
// kind, (c) SIGKILL its own process at a chosen operation boundary (C06).

type dbHook struct {
	mu       sync.Mutex
	ops      []string       // every driver operation in order ("begin<", "begin>", ...)
	failNext map[string]int // op -> fail when the counter reaches 1
	fired    []string
	code     map[string]int // op -> SQLite primary result code of the next injected failure
	openTx   int
	killAt   int // boundary index at which the process kills itself (-1 = never)
	boundary int
	log      func(string)
}

var hook = &dbHook{failNext: map[string]int{}, killAt: -1} // default hook (single-database processes)

var hooks = struct {
	sync.Mutex
	m map[string]*dbHook
}{m: map[string]*dbHook{}}

// hookForDSN returns the hook registered for a database file (or the default one).
func hookForDSN(name string) *dbHook {
	hooks.Lock()
	defer hooks.Unlock()
	if h, ok := hooks.m[name]; ok {
		return h
	}
	return hook
}

func newHook(name string) *dbHook {
	h := &dbHook{failNext: map[string]int{}, killAt: -1}
	hooks.Lock()
	hooks.m[name] = h
	hooks.Unlock()
	return h
}

func dropHook(name string) {
	hooks.Lock()
	delete(hooks.m, name)
	hooks.Unlock()
}

// arm makes the nth next call of the named driver operation fail. "op#N" names the SQLite primary result code the failure carries
// (every code the library documents is swept at every operation: code that looks at WHICH error it got is driven down each branch).
func (h *dbHook) arm(op string, nth int) {
	h.mu.Lock()
	if i := strings.IndexByte(op, '#'); i > 0 {
		n, _ := strconv.Atoi(op[i+1:])
		op = op[:i]
		if h.code == nil {
			h.code = map[string]int{}
		}
		h.code[op] = n
	}
	h.failNext[op] = nth
	h.mu.Unlock()
}

// nextErr is the error the failing operation reports: the armed result code, or the rotation.
func (h *dbHook) nextErr(op string) error {
	h.mu.Lock()
	n, ok := h.code[op]
	delete(h.code, op)
	h.mu.Unlock()
	if ok {
		return codedDriverErr(n)
	}
	return nextDriverErr(op)
}

func (h *dbHook) disarm() []string {
	h.mu.Lock()
	defer h.mu.Unlock()
	h.failNext = map[string]int{}
	f := h.fired
	h.fired = nil
	return f
}

func (h *dbHook) open() int {
	h.mu.Lock()
	defer h.mu.Unlock()
	return h.openTx
}

// point is an operation boundary: "<" before the inner call, ">" after it.
func (h *dbHook) point(op, side string) {
	h.mu.Lock()
	idx := h.boundary
	h.boundary++
	h.ops = append(h.ops, op+side)
	kill := h.killAt == idx
	lg := h.log
	h.mu.Unlock()
	if lg != nil {
		lg(op + side)
	}
	if kill {
		_ = syscall.Kill(os.Getpid(), syscall.SIGKILL)
		select {} // never returns
	}
}

func (h *dbHook) shouldFail(op string) bool {
	h.mu.Lock()
	defer h.mu.Unlock()
	n, ok := h.failNext[op]
	if !ok {
		return false
	}
	if n <= 1 {
		delete(h.failNext, op)
		h.fired = append(h.fired, op)
		return true
	}
	h.failNext[op] = n - 1
	return false
}

var errDriverInjected = errors.New("verif: injected driver failure")

var driverErrSeq struct {
	mu sync.Mutex
	n  map[string]int
}

// nextDriverErr rotates through driverErrors, separately for every kind of driver operation (so that every kind meets every error).
// forcedDriverErr, when set for an operation, is reported instead of the rotation (one-shot).
var forcedDriverErr = map[string]error{}

func nextDriverErr(op string) error {
	driverErrSeq.mu.Lock()
	defer driverErrSeq.mu.Unlock()
	if e, ok := forcedDriverErr[op]; ok {
		delete(forcedDriverErr, op)
		return e
	}
	if driverErrSeq.n == nil {
		driverErrSeq.n = map[string]int{}
	}
	driverErrSeq.n[op]++
	return driverErrors[driverErrSeq.n[op]%len(driverErrors)]
}

type verifDriver struct{ inner *sqlite3.SQLiteDriver }

func (d *verifDriver) Open(name string) (driver.Conn, error) {
	c, err := d.inner.Open(name)
	if err != nil {
		return nil, err
	}
	ic, ok := c.(sqliteConn)
	if !ok {
		return nil, errors.New("verif: the SQLite connection lacks the context-taking driver interfaces")
	}
	return &verifConn{inner: ic, h: hookForDSN(name)}, nil
}

// sqliteConn is what the wrapper needs from mattn/go-sqlite3's connection (named by interface, so that the harness also compiles
// where cgo, and with it SQLite, is not available: the 32-bit build of the start-up walk).
type sqliteConn interface {
	driver.Conn
	driver.ConnBeginTx
	driver.ExecerContext
	driver.QueryerContext
}

type verifConn struct {
	inner sqliteConn
	h     *dbHook
}

func (c *verifConn) Prepare(q string) (driver.Stmt, error) { return c.inner.Prepare(q) }
func (c *verifConn) Close() error                          { return c.inner.Close() }
func (c *verifConn) Begin() (driver.Tx, error) {
	return c.BeginTx(context.Background(), driver.TxOptions{})
}

func (c *verifConn) BeginTx(ctx context.Context, opts driver.TxOptions) (driver.Tx, error) {
	c.h.point("begin", "<")
	if c.h.shouldFail("begin") {
		c.h.point("begin", ">")
		return nil, c.h.nextErr("begin")
	}
	tx, err := c.inner.BeginTx(ctx, opts)
	if err == nil {
		c.h.mu.Lock()
		c.h.openTx++
		c.h.mu.Unlock()
	}
	c.h.point("begin", ">")
	if err != nil {
		return nil, err
	}
	return &verifTx{inner: tx, h: c.h}, nil
}

func (c *verifConn) ExecContext(ctx context.Context, q string, args []driver.NamedValue) (driver.Result, error) {
	c.h.point("exec", "<")
	if c.h.shouldFail("exec") {
		c.h.point("exec", ">")
		return nil, c.h.nextErr("exec")
	}
	r, err := c.inner.ExecContext(ctx, q, args)
	c.h.point("exec", ">")
	return r, err
}

func (c *verifConn) QueryContext(ctx context.Context, q string, args []driver.NamedValue) (driver.Rows, error) {
	c.h.point("query", "<")
	if c.h.shouldFail("query") {
		c.h.point("query", ">")
		return nil, c.h.nextErr("query")
	}
	r, err := c.inner.QueryContext(ctx, q, args)
	c.h.point("query", ">")
	if err != nil {
		return nil, err
	}
	return &verifRows{inner: r, h: c.h}, nil
}

// verifRows lets a row FETCH fail (SQLITE_BUSY / SQLITE_IOERR while stepping the statement), which is a different
// failure from the query itself failing.
type verifRows struct {
	inner driver.Rows
	h     *dbHook
}

func (r *verifRows) Columns() []string { return r.inner.Columns() }
func (r *verifRows) Close() error      { return r.inner.Close() }
func (r *verifRows) Next(dest []driver.Value) error {
	r.h.point("next", "<")
	if r.h.shouldFail("next") {
		r.h.point("next", ">")
		return r.h.nextErr("next")
	}
	err := r.inner.Next(dest)
	r.h.point("next", ">")
	return err
}

type verifTx struct {
	inner driver.Tx
	h     *dbHook
}

func (t *verifTx) Commit() error {
	t.h.point("commit", "<")
	if t.h.shouldFail("commit") {
		// the driver reports failure and has rolled the transaction back
		_ = t.inner.Rollback()
		t.h.mu.Lock()
		t.h.openTx--
		t.h.mu.Unlock()
		t.h.point("commit", ">")
		return t.h.nextErr("commit")
	}
	err := t.inner.Commit()
	t.h.mu.Lock()
	t.h.openTx--
	t.h.mu.Unlock()
	t.h.point("commit", ">")
	return err
}

func (t *verifTx) Rollback() error {
	t.h.point("rollback", "<")
	err := t.inner.Rollback()
	t.h.mu.Lock()
	t.h.openTx--
	t.h.mu.Unlock()
	if t.h.shouldFail("rollback") {
		err = t.h.nextErr("rollback") // the rollback happened, an error is reported
	}
	t.h.point("rollback", ">")
	return err
}

func init() {
	sql.Register("sqlite3verif", &verifDriver{inner: &sqlite3.SQLiteDriver{}})
}
