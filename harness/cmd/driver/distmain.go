package main

import (
	"bufio"
	"context"
	"encoding/json"
	"flag"
	"fmt"
	"io"
	"net"
	"net/http"
	"net/http/httptest"
	"net/url"
	"os"
	"path/filepath"
	"strings"
	"sync"
	"time"

	"github.com/transparency-dev/witness/internal/persistence"
	"github.com/transparency-dev/witness/internal/persistence/inmemory"
	"github.com/transparency-dev/witness/omniwitness"
	"github.com/transparency-dev/witness/verifharness/internal/ref"
	"github.com/transparency-dev/witness/verifharness/internal/world"
)

func init() { commands["dist-main"] = distMainMain }

const distMainInterval = 250 * time.Millisecond

type distMainEvent struct {
	E         string   `json:"e"`
	Run       string   `json:"run"`
	K         int      `json:"k"`
	Wit       []string `json:"wit"`
	Dist      []string `json:"dist"`
	Attempted []int    `json:"attempted"` // logs for which a PUT with the witness' bytes on the right path arrived while Main ran
	Foreign   int      `json:"foreign"`   // PUTs that were neither
	Main      string   `json:"main"`
}

// distMainMain runs the distributor the way an operator gets it: inside omniwitness.Main, round after round at the distribute interval, against a
// distributor whose answers for some logs are slow ("slow200": 200, but only after several intervals), failing or fine. The witness holds a
// cosigned checkpoint for every log marked "valid" (placed in the store beforehand) and none for those marked "missing".
func distMainMain(args []string) error {
	fs := flag.NewFlagSet("dist-main", flag.ExitOnError)
	in := fs.String("in", "", "scenarios (jsonl)")
	out := fs.String("out", "", "trace")
	seed := fs.Int64("seed", 1, "seed")
	_ = fs.Parse(args)
	f, err := os.Open(*in)
	if err != nil {
		return err
	}
	defer f.Close()
	tw, err := newTraceWriter(*out)
	if err != nil {
		return err
	}
	sc := bufio.NewScanner(f)
	n := 0
	for sc.Scan() {
		var s distScen
		if err := json.Unmarshal(sc.Bytes(), &s); err != nil {
			return err
		}
		n++
		ev, err := execDistMain(s, fmt.Sprintf("dm%d", n), *seed)
		if err != nil {
			return err
		}
		if err := tw.writeRun([]any{ev}); err != nil {
			return err
		}
	}
	if err := tw.Close(); err != nil {
		return err
	}
	fmt.Printf("DIST-MAIN scenarios=%d interval=%v\n", n, distMainInterval)
	return nil
}

func execDistMain(s distScen, tag string, seed int64) (distMainEvent, error) {
	ev := distMainEvent{E: "dist.main", Run: tag, Wit: s.Wit, Dist: s.Dist, Attempted: []int{}}
	names := make([]string, len(s.Wit))
	for i := range names {
		names[i] = fmt.Sprintf("l%d", i+1)
	}
	w := world.New(world.Params{Logs: names, MaxSize: 3, NBranch: 1, MaxLines: 6, NWitKeys: 2, Embed: "id", Seed: seed, RunTag: tag})
	w = w.ForRun(tag, hashSeed(tag, seed))
	signers, witV, err := witnessSigners(w)
	if err != nil {
		return ev, err
	}
	p := inmemory.NewPersistence()
	if err := p.Init(); err != nil {
		return ev, err
	}
	now := uint64(time.Now().Unix())
	held := map[string][]byte{}
	next := map[string][]byte{} // the checkpoint an update stores WHILE the first PUT for the log is on its way (between the distributor's checks and the transport reading the body)
	yaml := "Logs:\n"
	for i, name := range names {
		l := w.Logs[name]
		yaml += fmt.Sprintf("  - Origin: %s\n    URL: http://127.0.0.1:9/\n    PublicKey: %s\n    Feeder: none\n", l.Origin, l.Key.VKey())
		if s.Wit[i] != "valid" {
			continue
		}
		root := w.Root(l, 0, 2)
		text := ref.CheckpointText(l.Origin, w.Sigma[2], root, "")
		// (two signature lines of a stranger besides the log's: the checkpoint that replaces this one while it is being pushed is SHORTER)
		b := []byte(text + "\n" + l.Key.SignLegacy(text) + w.Unknown.SignLegacy(text) + w.Unknown.SignCosigV1(text, now) + w.WitKey.SignLegacy(text) + w.WitKey.SignCosigV1(text, now))
		root3 := w.Root(l, 0, 3)
		text3 := ref.CheckpointText(l.Origin, w.Sigma[3], root3, "")
		next[l.ID] = []byte(text3 + "\n" + l.Key.SignLegacy(text3) + w.WitKey.SignLegacy(text3) + w.WitKey.SignCosigV1(text3, now))
		wr, err := p.WriteOps(l.ID)
		if err != nil {
			return ev, err
		}
		_, _ = wr.GetLatest()
		if err := wr.Set(b); err != nil {
			return ev, err
		}
		wr.Close()
		held[l.ID] = b
	}
	var mu sync.Mutex
	attempted := map[int]bool{}
	srv := httptest.NewServer(http.HandlerFunc(func(rw http.ResponseWriter, r *http.Request) {
		body, _ := io.ReadAll(r.Body)
		li := 0
		for i, name := range names {
			l := w.Logs[name]
			if r.URL.EscapedPath() == fmt.Sprintf("/distributor/v0/logs/%s/byWitness/%s/checkpoint", l.ID, url.PathEscape(w.WitKey.Name)) && (string(body) == string(held[l.ID]) || string(body) == string(next[l.ID])) && r.Method == http.MethodPut {
				li = i + 1
			}
		}
		mu.Lock()
		if li > 0 {
			attempted[li] = true
		} else {
			ev.Foreign++
		}
		mu.Unlock()
		ans := "404"
		if li > 0 {
			ans = s.Dist[li-1]
		}
		switch ans {
		case "slow200":
			select {
			case <-time.After(3 * distMainInterval): // (well below the HTTP client's timeout)
			case <-r.Context().Done():
				return
			}
			rw.WriteHeader(200)
		case "200":
			rw.WriteHeader(200)
		case "500":
			http.Error(rw, "boom", 500)
		default:
			http.Error(rw, "no", 404)
		}
	}))
	defer srv.Close()
	ln, err := net.Listen("tcp", "127.0.0.1:0")
	if err != nil {
		return ev, err
	}
	omniwitness.ConfigLogs = []byte(yaml)
	// long enough for one full round even if every log answers slowly, and for several rounds otherwise
	ctx, cancel := context.WithTimeout(context.Background(), time.Duration(3*len(names)+6)*distMainInterval)
	defer cancel()
	merr := omniwitness.Main(ctx, omniwitness.OperatorConfig{WitnessKeys: signers, WitnessVerifier: witV, FeedInterval: time.Hour,
		RestDistributorBaseURL: srv.URL, DistributeInterval: distMainInterval}, p, ln, &http.Client{Timeout: 10 * time.Second, Transport: &updatingTransport{p: p, next: next, done: map[string]bool{}}})
	ev.Main = "ended"
	if merr != nil && !strings.Contains(merr.Error(), "context") && !strings.Contains(merr.Error(), "Server closed") {
		ev.Main = "failed: " + merr.Error()
	}
	mu.Lock()
	for i := range names {
		if attempted[i+1] {
			ev.Attempted = append(ev.Attempted, i+1)
		}
	}
	mu.Unlock()
	return ev, nil
}

// updatingTransport lets an update be stored between the distributor's checks of a checkpoint and the moment the HTTP transport reads the request
// body: before the FIRST PUT for a log is passed on, the next checkpoint of that log (another length) is written through the persistence layer, as an
// accepted update would. What is pushed is then the checkpoint that was checked, or the new one - whole.
type updatingTransport struct {
	p    persistence.LogStatePersistence
	next map[string][]byte
	mu   sync.Mutex
	done map[string]bool
}

func (t *updatingTransport) RoundTrip(r *http.Request) (*http.Response, error) {
	if r.Method == http.MethodPut {
		for id, b := range t.next {
			t.mu.Lock()
			first := strings.Contains(r.URL.Path, id) && !t.done[id]
			if first {
				t.done[id] = true
			}
			t.mu.Unlock()
			if first {
				if wr, err := t.p.WriteOps(id); err == nil {
					_, _ = wr.GetLatest()
					_ = wr.Set(append([]byte{}, b...))
					wr.Close()
				}
			}
		}
	}
	return http.DefaultTransport.RoundTrip(r)
}

// ---- dist-prod: the distributor inside the PRODUCTION BINARY (Prometheus metric factory, real flags) against a distributor that misbehaves ----

func init() { commands["dist-prod"] = distProdMain }

// distProdMain gives the production binary a checkpoint for each of three logs (over the bastion connection it dials), kills it, and starts it
// again on the same database file with --rest_distro_url pointing at a stub: its first distribution pass finds three checkpoints. The stub
// answers per log as the scenario says - among the answers a 503 whose reason phrase is not UTF-8 (ISO-8859-1, as some proxies send it), an
// over-long reason phrase, an empty one. Whatever one log's answer is, the process stays up and every log gets its PUT.
func distProdMain(args []string) error {
	fs := flag.NewFlagSet("dist-prod", flag.ExitOnError)
	bin := fs.String("bin", "", "production binary")
	out := fs.String("out", "", "trace")
	dir := fs.String("dir", os.TempDir(), "scratch")
	seed := fs.Int64("seed", 1, "seed")
	_ = fs.Parse(args)
	tw, err := newTraceWriter(*out)
	if err != nil {
		return err
	}
	scens := [][]string{{"latin1-503", "200", "200"}, {"200", "long-reason-500", "200"}, {"empty-reason-404", "latin1-503", "200"}}
	for si, dist := range scens {
		tag := fmt.Sprintf("dp%d-%d", si, *seed)
		names := []string{"l1", "l2", "l3"}
		w := world.New(world.Params{Logs: names, MaxSize: 3, NBranch: 1, MaxLines: 6, NWitKeys: 2, Embed: "id", Seed: *seed, RunTag: tag})
		w = w.ForRun(tag, hashSeed(tag, *seed))
		db := filepath.Join(*dir, fmt.Sprintf("dist-prod-%d-%d-%d.db", si, *seed, os.Getpid()))
		os.Remove(db)
		sb, err := newStubBastion(*dir, tag)
		if err != nil {
			return err
		}
		cfg := prodCfg{Bin: *bin, Dir: *dir, Tag: tag, Yaml: prodYaml([]*world.World{w}), WitSKey: w.WitKey.SKey(), DB: db, Bastion: sb.addr(), CAFile: sb.caFile, Poll: time.Hour}
		p, err := startProd(cfg)
		if err != nil {
			sb.close()
			return err
		}
		_, cc, _, err := sb.accept(60 * time.Second)
		if err != nil {
			p.kill()
			sb.close()
			return err
		}
		for _, name := range names {
			c := w.Concretise(name, world.Req{Auth: "good", Old: 0, B: 0, N: 2, Pf: world.Pf{K: "empty"}}, nil)
			if st, _, rb := postVia(cc, renderBody(w, bastionStep{Kind: "ok"}, c), 30*time.Second); st != 200 {
				p.kill()
				sb.close()
				return fmt.Errorf("set-up of %s answered %d %s", name, st, rb)
			}
		}
		held := prodSnapshot(p, w)
		p.kill()
		sb.close()
		var mu sync.Mutex
		attempted := map[int]bool{}
		foreign := 0
		ln, err := net.Listen("tcp", "127.0.0.1:0")
		if err != nil {
			return err
		}
		// a raw HTTP/1.1 server: the status line is written by hand
		go func() {
			for {
				c, err := ln.Accept()
				if err != nil {
					return
				}
				go func(c net.Conn) {
					defer c.Close()
					br := bufio.NewReader(c)
					for {
						req, err := http.ReadRequest(br)
						if err != nil {
							return
						}
						body, _ := io.ReadAll(req.Body)
						li := 0
						for i, name := range names {
							l := w.Logs[name]
							if req.URL.EscapedPath() == fmt.Sprintf("/distributor/v0/logs/%s/byWitness/%s/checkpoint", l.ID, url.PathEscape(w.WitKey.Name)) && string(body) == string(held.raw[name]) && req.Method == http.MethodPut {
								li = i + 1
							}
						}
						mu.Lock()
						if li > 0 {
							attempted[li] = true
						} else {
							foreign++
						}
						mu.Unlock()
						line := "HTTP/1.1 404 Not Found"
						if li > 0 {
							switch dist[li-1] {
							case "200":
								line = "HTTP/1.1 200 OK"
							case "latin1-503":
								line = "HTTP/1.1 503 Service temporairement indisponible, r\xe9essayez"
							case "long-reason-500":
								line = "HTTP/1.1 500 " + strings.Repeat("very long reason ", 200)
							case "empty-reason-404":
								line = "HTTP/1.1 404 "
							}
						}
						fmt.Fprintf(c, "%s\r\nContent-Length: 0\r\nConnection: keep-alive\r\n\r\n", line)
					}
				}(c)
			}
		}()
		cfg2 := prodCfg{Bin: *bin, Dir: *dir, Tag: tag + "b", Yaml: cfg.Yaml, WitSKey: cfg.WitSKey, DB: db, Poll: time.Hour, Dist: "http://" + ln.Addr().String()}
		p2, err := startProd(cfg2)
		ev := distMainEvent{E: "dist.main", Run: tag, Wit: []string{"valid", "valid", "valid"}, Dist: dist, Attempted: []int{}, Main: "ended"}
		if err != nil {
			ev.Main = "failed: " + tailOf(err.Error(), 300)
		} else {
			deadline := time.Now().Add(6 * time.Second)
			for time.Now().Before(deadline) && p2.alive() {
				mu.Lock()
				n := len(attempted)
				mu.Unlock()
				if n == len(names) {
					break
				}
				time.Sleep(50 * time.Millisecond)
			}
			time.Sleep(300 * time.Millisecond)
			if !p2.alive() {
				ev.Main = "failed: the binary exited: " + tailOf(p2.log.String(), 400)
			}
			p2.kill()
		}
		ln.Close()
		os.Remove(db)
		os.Remove(db + "-journal")
		mu.Lock()
		for i := range names {
			if attempted[i+1] {
				ev.Attempted = append(ev.Attempted, i+1)
			}
		}
		ev.Foreign = foreign
		mu.Unlock()
		if err := tw.writeRun([]any{ev}); err != nil {
			return err
		}
	}
	if err := tw.Close(); err != nil {
		return err
	}
	fmt.Printf("DIST-PROD scenarios=%d\n", len(scens))
	return nil
}
