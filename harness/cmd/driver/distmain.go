package main

import (
	"bufio"
	"context"
	"encoding/json"
	"flag"
	"fmt"
	"io"
	"net"
	"net/http"
	"net/http/httptest"
	"net/url"
	"os"
	"strings"
	"sync"
	"time"

	"github.com/transparency-dev/witness/internal/persistence"
	"github.com/transparency-dev/witness/internal/persistence/inmemory"
	"github.com/transparency-dev/witness/omniwitness"
	"github.com/transparency-dev/witness/verifharness/internal/ref"
	"github.com/transparency-dev/witness/verifharness/internal/world"
)

func init() { commands["dist-main"] = distMainMain }

const distMainInterval = 250 * time.Millisecond

type distMainEvent struct {
	E         string   `json:"e"`
	Run       string   `json:"run"`
	K         int      `json:"k"`
	Wit       []string `json:"wit"`
	Dist      []string `json:"dist"`
	Attempted []int    `json:"attempted"` // logs for which a PUT with the witness' bytes on the right path arrived while Main ran
	Foreign   int      `json:"foreign"`   // PUTs that were neither
	Main      string   `json:"main"`
}

// distMainMain runs the distributor the way an operator gets it: inside omniwitness.Main, round after round at the distribute interval, against a
// distributor whose answers for some logs are slow ("slow200": 200, but only after several intervals), failing or fine. The witness holds a
// cosigned checkpoint for every log marked "valid" (placed in the store beforehand) and none for those marked "missing".
func distMainMain(args []string) error {
	fs := flag.NewFlagSet("dist-main", flag.ExitOnError)
	in := fs.String("in", "", "scenarios (jsonl)")
	out := fs.String("out", "", "trace")
	seed := fs.Int64("seed", 1, "seed")
	_ = fs.Parse(args)
	f, err := os.Open(*in)
	if err != nil {
		return err
	}
	defer f.Close()
	tw, err := newTraceWriter(*out)
	if err != nil {
		return err
	}
	sc := bufio.NewScanner(f)
	n := 0
	for sc.Scan() {
		var s distScen
		if err := json.Unmarshal(sc.Bytes(), &s); err != nil {
			return err
		}
		n++
		ev, err := execDistMain(s, fmt.Sprintf("dm%d", n), *seed)
		if err != nil {
			return err
		}
		if err := tw.writeRun([]any{ev}); err != nil {
			return err
		}
	}
	if err := tw.Close(); err != nil {
		return err
	}
	fmt.Printf("DIST-MAIN scenarios=%d interval=%v\n", n, distMainInterval)
	return nil
}

func execDistMain(s distScen, tag string, seed int64) (distMainEvent, error) {
	ev := distMainEvent{E: "dist.main", Run: tag, Wit: s.Wit, Dist: s.Dist, Attempted: []int{}}
	names := make([]string, len(s.Wit))
	for i := range names {
		names[i] = fmt.Sprintf("l%d", i+1)
	}
	w := world.New(world.Params{Logs: names, MaxSize: 3, NBranch: 1, MaxLines: 6, NWitKeys: 2, Embed: "id", Seed: seed, RunTag: tag})
	w = w.ForRun(tag, hashSeed(tag, seed))
	signers, witV, err := witnessSigners(w)
	if err != nil {
		return ev, err
	}
	p := inmemory.NewPersistence()
	if err := p.Init(); err != nil {
		return ev, err
	}
	now := uint64(time.Now().Unix())
	held := map[string][]byte{}
	next := map[string][]byte{} // the checkpoint an update stores WHILE the first PUT for the log is on its way (between the distributor's checks and the transport reading the body)
	yaml := "Logs:\n"
	for i, name := range names {
		l := w.Logs[name]
		yaml += fmt.Sprintf("  - Origin: %s\n    URL: http://127.0.0.1:9/\n    PublicKey: %s\n    Feeder: none\n", l.Origin, l.Key.VKey())
		if s.Wit[i] != "valid" {
			continue
		}
		root := w.Root(l, 0, 2)
		text := ref.CheckpointText(l.Origin, w.Sigma[2], root, "")
		// (two signature lines of a stranger besides the log's: the checkpoint that replaces this one while it is being pushed is SHORTER)
		b := []byte(text + "\n" + l.Key.SignLegacy(text) + w.Unknown.SignLegacy(text) + w.Unknown.SignCosigV1(text, now) + w.WitKey.SignLegacy(text) + w.WitKey.SignCosigV1(text, now))
		root3 := w.Root(l, 0, 3)
		text3 := ref.CheckpointText(l.Origin, w.Sigma[3], root3, "")
		next[l.ID] = []byte(text3 + "\n" + l.Key.SignLegacy(text3) + w.WitKey.SignLegacy(text3) + w.WitKey.SignCosigV1(text3, now))
		wr, err := p.WriteOps(l.ID)
		if err != nil {
			return ev, err
		}
		_, _ = wr.GetLatest()
		if err := wr.Set(b); err != nil {
			return ev, err
		}
		wr.Close()
		held[l.ID] = b
	}
	var mu sync.Mutex
	attempted := map[int]bool{}
	srv := httptest.NewServer(http.HandlerFunc(func(rw http.ResponseWriter, r *http.Request) {
		body, _ := io.ReadAll(r.Body)
		li := 0
		for i, name := range names {
			l := w.Logs[name]
			if r.URL.EscapedPath() == fmt.Sprintf("/distributor/v0/logs/%s/byWitness/%s/checkpoint", l.ID, url.PathEscape(w.WitKey.Name)) && (string(body) == string(held[l.ID]) || string(body) == string(next[l.ID])) && r.Method == http.MethodPut {
				li = i + 1
			}
		}
		mu.Lock()
		if li > 0 {
			attempted[li] = true
		} else {
			ev.Foreign++
		}
		mu.Unlock()
		ans := "404"
		if li > 0 {
			ans = s.Dist[li-1]
		}
		switch ans {
		case "slow200":
			select {
			case <-time.After(3 * distMainInterval): // (well below the HTTP client's timeout)
			case <-r.Context().Done():
				return
			}
			rw.WriteHeader(200)
		case "200":
			rw.WriteHeader(200)
		case "500":
			http.Error(rw, "boom", 500)
		default:
			http.Error(rw, "no", 404)
		}
	}))
	defer srv.Close()
	ln, err := net.Listen("tcp", "127.0.0.1:0")
	if err != nil {
		return ev, err
	}
	omniwitness.ConfigLogs = []byte(yaml)
	// long enough for one full round even if every log answers slowly, and for several rounds otherwise
	ctx, cancel := context.WithTimeout(context.Background(), time.Duration(3*len(names)+6)*distMainInterval)
	defer cancel()
	merr := omniwitness.Main(ctx, omniwitness.OperatorConfig{WitnessKeys: signers, WitnessVerifier: witV, FeedInterval: time.Hour,
		RestDistributorBaseURL: srv.URL, DistributeInterval: distMainInterval}, p, ln, &http.Client{Timeout: 10 * time.Second, Transport: &updatingTransport{p: p, next: next, done: map[string]bool{}}})
	ev.Main = "ended"
	if merr != nil && !strings.Contains(merr.Error(), "context") && !strings.Contains(merr.Error(), "Server closed") {
		ev.Main = "failed: " + merr.Error()
	}
	mu.Lock()
	for i := range names {
		if attempted[i+1] {
			ev.Attempted = append(ev.Attempted, i+1)
		}
	}
	mu.Unlock()
	return ev, nil
}

// updatingTransport lets an update be stored between the distributor's checks of a checkpoint and the moment the HTTP transport reads the request
// body: before the FIRST PUT for a log is passed on, the next checkpoint of that log (another length) is written through the persistence layer, as an
// accepted update would. What is pushed is then the checkpoint that was checked, or the new one - whole.
type updatingTransport struct {
	p    persistence.LogStatePersistence
	next map[string][]byte
	mu   sync.Mutex
	done map[string]bool
}

func (t *updatingTransport) RoundTrip(r *http.Request) (*http.Response, error) {
	if r.Method == http.MethodPut {
		for id, b := range t.next {
			t.mu.Lock()
			first := strings.Contains(r.URL.Path, id) && !t.done[id]
			if first {
				t.done[id] = true
			}
			t.mu.Unlock()
			if first {
				if wr, err := t.p.WriteOps(id); err == nil {
					_, _ = wr.GetLatest()
					_ = wr.Set(append([]byte{}, b...))
					wr.Close()
				}
			}
		}
	}
	return http.DefaultTransport.RoundTrip(r)
}
