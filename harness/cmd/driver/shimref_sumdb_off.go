//go:build noshim_sumdb

package main

import (
	"github.com/transparency-dev/witness/internal/client"
	"golang.org/x/mod/sumdb/tlog"
)

// The overlay shim for package feeder/sumdb does not compile against this tree: the tile-path part of C18 cannot run (the proof sweeps can).
func shimReadTiles(c *client.SumDBClient, tiles []tlog.Tile) ([][]byte, error) {
	shimUnavailable("sumdb")
	return nil, nil
}
