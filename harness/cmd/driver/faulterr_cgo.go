//go:build cgo

package main

import "github.com/mattn/go-sqlite3"

// driverErrors are the failures the wrapping SQL driver reports, in rotation: the typed errors mattn/go-sqlite3 itself returns (busy, locked,
// I/O error, disk full, ...) besides an untyped one. Code that treats some of them specially (retries on busy, say) is driven down that path.
var driverErrors = []error{
	errDriverInjected,
	sqlite3.Error{Code: sqlite3.ErrBusy},
	sqlite3.Error{Code: sqlite3.ErrIoErr, ExtendedCode: sqlite3.ErrIoErrWrite},
	sqlite3.Error{Code: sqlite3.ErrLocked},
	sqlite3.Error{Code: sqlite3.ErrFull},
	sqlite3.Error{Code: sqlite3.ErrBusy, ExtendedCode: sqlite3.ErrBusySnapshot},
	sqlite3.Error{Code: sqlite3.ErrCorrupt},
	sqlite3.Error{Code: sqlite3.ErrReadonly},
}

// errSQLiteBusy is what mattn/go-sqlite3 reports when another connection or process holds a lock past the busy timeout.
var errSQLiteBusy error = sqlite3.Error{Code: sqlite3.ErrBusy}

// codedDriverErr is the error mattn/go-sqlite3 returns for a primary result code.
func codedDriverErr(code int) error { return sqlite3.Error{Code: sqlite3.ErrNo(code)} }
