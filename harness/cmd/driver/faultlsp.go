package main

import (
	"database/sql"
	"errors"
	"fmt"
	"sync"

	"github.com/transparency-dev/witness/internal/persistence"
	"google.golang.org/grpc/codes"
	"google.golang.org/grpc/status"
)

// readErrors are the non-NotFound errors a failing read of the latest checkpoint is given, in rotation:
// none of them affirms that nothing is stored.
var readErrors = []error{
	errInjected,
	status.Error(codes.Unavailable, "verif: storage unavailable"),
	status.Error(codes.DeadlineExceeded, "verif: storage timeout"),
	status.Error(codes.Internal, "verif: storage internal error"),
	status.Error(codes.Unknown, "verif: unknown storage error"),
	fmt.Errorf("verif: wrapped: %w", sql.ErrConnDone),
	errors.New("verif: no rows could be read because the disk is on fire"),
	status.Error(codes.Aborted, "verif: aborted"),
	status.Error(codes.FailedPrecondition, "verif: failed precondition"),
}

// faultLSP wraps a LogStatePersistence and fails the n-th call of a kind while armed (C07, interface level).
// Failures happen BEFORE the inner call (nothing is applied), except Close, which releases and then reports an error.
type faultLSP struct {
	nread int
	inner persistence.LogStatePersistence
	mu    sync.Mutex
	fail  map[string]int
	fired []string
	calls []string
	// hold: the named call blocks (before reaching the store) until released; reached is closed when it arrives there
	holdCall string
	reached  chan struct{}
	release  chan struct{}
}

// armHold makes the next call of the given kind wait inside the wrapper until the returned release function is called.
func (f *faultLSP) armHold(call string) (<-chan struct{}, func()) {
	f.mu.Lock()
	defer f.mu.Unlock()
	f.holdCall = call
	f.reached = make(chan struct{})
	f.release = make(chan struct{})
	rel := f.release
	var once sync.Once
	return f.reached, func() { once.Do(func() { close(rel) }) }
}

func (f *faultLSP) maybeHold(call string) {
	f.mu.Lock()
	if f.holdCall != call {
		f.mu.Unlock()
		return
	}
	f.holdCall = ""
	reached, release := f.reached, f.release
	f.mu.Unlock()
	close(reached)
	<-release
}

// sawAfter reports whether a call of the given kind was recorded (calls are recorded when they arrive at the wrapper).
func (f *faultLSP) saw(call string) bool {
	f.mu.Lock()
	defer f.mu.Unlock()
	for _, c := range f.calls {
		if c == call {
			return true
		}
	}
	return false
}

func newFaultLSP(inner persistence.LogStatePersistence) *faultLSP {
	return &faultLSP{inner: inner, fail: map[string]int{}}
}

func (f *faultLSP) arm(call string, nth int) {
	f.mu.Lock()
	f.fail[call] = nth
	f.mu.Unlock()
}

func (f *faultLSP) disarm() (fired, calls []string) {
	f.mu.Lock()
	defer f.mu.Unlock()
	f.fail = map[string]int{}
	fired, calls = f.fired, f.calls
	f.fired, f.calls = nil, nil
	return
}

func (f *faultLSP) hit(call string) bool {
	f.mu.Lock()
	defer f.mu.Unlock()
	f.calls = append(f.calls, call)
	if _, boom := f.fail["panic:"+call]; boom {
		// the storage layer panics inside this call (a driver bug, a nil map ...): whoever called Update recovers, as net/http does per request
		delete(f.fail, "panic:"+call)
		f.fired = append(f.fired, "panic:"+call)
		panic("verif: injected panic inside the storage call " + call)
	}
	n, ok := f.fail[call]
	if !ok {
		return false
	}
	if n <= 1 {
		delete(f.fail, call)
		f.fired = append(f.fired, call)
		return true
	}
	f.fail[call] = n - 1
	return false
}

func (f *faultLSP) Init() error             { return f.inner.Init() }
func (f *faultLSP) Logs() ([]string, error) { return f.inner.Logs() }

func (f *faultLSP) ReadOps(id string) (persistence.LogStateReadOps, error) {
	if f.hit("ReadOps") {
		return nil, errInjected
	}
	r, err := f.inner.ReadOps(id)
	if err != nil {
		return nil, err
	}
	return &faultRead{inner: r, f: f}, nil
}

func (f *faultLSP) WriteOps(id string) (persistence.LogStateWriteOps, error) {
	f.maybeHold("WriteOps")
	if f.hit("WriteOps") {
		return nil, errInjected
	}
	w, err := f.inner.WriteOps(id)
	if err != nil {
		return nil, err
	}
	return &faultWrite{inner: w, f: f}, nil
}

type faultRead struct {
	inner persistence.LogStateReadOps
	f     *faultLSP
}

func (r *faultRead) GetLatest() ([]byte, error) {
	if r.f.hit("ReadGetLatest") {
		return nil, r.f.readErr()
	}
	b, err := r.inner.GetLatest()
	r.f.maybeHold("ReadGetLatest>") // the read has its answer; its RETURN is what is held back
	return b, err
}

type faultWrite struct {
	inner persistence.LogStateWriteOps
	f     *faultLSP
}

func (f *faultLSP) readErr() error {
	f.mu.Lock()
	defer f.mu.Unlock()
	f.nread++
	return readErrors[f.nread%len(readErrors)]
}

func (w *faultWrite) GetLatest() ([]byte, error) {
	w.f.maybeHold("GetLatest")
	if w.f.hit("GetLatest") {
		return nil, w.f.readErr()
	}
	return w.inner.GetLatest()
}

func (w *faultWrite) Set(c []byte) error {
	w.f.maybeHold("Set")
	if w.f.hit("Set") {
		return errInjected
	}
	return w.inner.Set(c)
}

func (w *faultWrite) Close() error {
	fail := w.f.hit("Close")
	err := w.inner.Close()
	if fail {
		return errInjected
	}
	return err
}
