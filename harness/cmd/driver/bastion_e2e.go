package main

import (
	"bufio"
	"context"
	"crypto/ed25519"
	"crypto/sha256"
	"crypto/tls"
	"database/sql"
	"encoding/json"
	"flag"
	"fmt"
	"io"
	"net"
	"net/http"
	"os"
	"os/exec"
	"path/filepath"
	"sort"
	"strings"
	"time"

	"github.com/gorilla/mux"
	wapi "github.com/transparency-dev/witness/api"
	"github.com/transparency-dev/witness/internal/config"
	"github.com/transparency-dev/witness/internal/feeder/bastion"
	ihttp "github.com/transparency-dev/witness/internal/http"
	"github.com/transparency-dev/witness/internal/persistence/inmemory"
	"github.com/transparency-dev/witness/internal/witness"
	"github.com/transparency-dev/witness/verifharness/internal/world"
	"golang.org/x/net/http2"
	"golang.org/x/time/rate"
)

func init() {
	commands["bastion-e2e"] = bastionE2EMain
	commands["bastion-e2e-child"] = bastionE2EChild
}

// e2eWorlds rebuilds, deterministically, the per-run worlds both processes use.
func e2eWorlds(in string, seed int64) (*world.World, []bastionRun, []*world.World, error) {
	f, err := os.Open(in)
	if err != nil {
		return nil, nil, nil, err
	}
	defer f.Close()
	rd := bufio.NewReaderSize(f, 1<<20)
	line, err := rd.ReadBytes('\n')
	if err != nil {
		return nil, nil, nil, err
	}
	var hdr seqHeader
	if err := json.Unmarshal(line, &hdr); err != nil || hdr.Params == nil {
		return nil, nil, nil, fmt.Errorf("bad header")
	}
	hdr.Params.Embed = "id"
	hdr.Params.Seed = seed
	base := world.New(*hdr.Params)
	var runs []bastionRun
	var ws []*world.World
	for {
		line, err := rd.ReadBytes('\n')
		if len(line) > 1 {
			var r bastionRun
			if e := json.Unmarshal(line, &r); e != nil {
				return nil, nil, nil, e
			}
			tag := fmt.Sprintf("%s-e2e-id-%d", r.ID, seed)
			runs = append(runs, r)
			ws = append(ws, base.ForRun(tag, hashSeed(tag, seed)))
		}
		if err == io.EOF {
			break
		}
		if err != nil {
			return nil, nil, nil, err
		}
	}
	return base, runs, ws, nil
}

// bastionE2EChild is the witness side: the REAL FeedBastion dialling the stub bastion, one real witness
// that knows the logs of every run, and the real read API on a local port (printed on stdout).
func bastionE2EChild(args []string) error {
	fs := flag.NewFlagSet("bastion-e2e-child", flag.ExitOnError)
	in := fs.String("in", "", "runs")
	addr := fs.String("bastion", "", "stub bastion address")
	seed := fs.Int64("seed", 1, "seed")
	limit := fs.Float64("limit", 100000, "requests per second the real FeedBastion is configured with")
	_ = fs.Parse(args)
	base, _, ws, err := e2eWorlds(*in, *seed)
	if err != nil {
		return err
	}
	known := map[string]witness.LogInfo{}
	var logs []config.Log
	for _, w := range ws {
		kl, err := knownLogs(w)
		if err != nil {
			return err
		}
		for id, li := range kl {
			known[id] = li
		}
		ls, err := bastionLogs(w)
		if err != nil {
			return err
		}
		logs = append(logs, ls...)
	}
	signers, witV, err := witnessSigners(base)
	if err != nil {
		return err
	}
	wit, err := witness.New(witness.Opts{Persistence: inmemory.NewPersistence(), Signers: signers, KnownLogs: known})
	if err != nil {
		return err
	}
	rt := mux.NewRouter()
	ihttp.NewServer(wit).RegisterHandlers(rt)
	ln, err := net.Listen("tcp", "127.0.0.1:0")
	if err != nil {
		return err
	}
	go http.Serve(ln, rt)
	say("API %s", ln.Addr().String())
	seedKey := sha256.Sum256([]byte("verif bastion backend key"))
	priv := ed25519.NewKeyFromSeed(seedKey[:])
	ctx, cancel := context.WithTimeout(context.Background(), 10*time.Minute)
	defer cancel()
	ferr := bastion.FeedBastion(ctx, bastion.Config{Addr: *addr, Logs: logs, BastionKey: priv, WitnessVerifier: witV,
		Limits: bastion.RequestLimits{TotalPerSecond: rate.Limit(*limit)}}, witnessAdapterOf(wit))
	say("FEEDBASTION %v", ferr)
	return nil
}

func bastionE2EMain(args []string) error {
	fs := flag.NewFlagSet("bastion-e2e", flag.ExitOnError)
	in := fs.String("in", "", "runs")
	out := fs.String("out", "", "trace")
	dir := fs.String("dir", os.TempDir(), "scratch")
	seed := fs.Int64("seed", 1, "seed")
	legacy := fs.Bool("legacy", false, "with -prod: the database file already exists, written the way the pinned release writes it, and holds an acknowledged checkpoint of size 1 for l1 of every run")
	prod := fs.String("prod", "", "production binary: the witness side is cmd/omniwitness (SQLite file) instead of the exported FeedBastion in a child of this driver")
	limit := fs.Float64("limit", 100000, "configured rate limit (requests per second) of the witness side; the runs' own limit field is ignored")
	_ = fs.Parse(args)
	base, runs, ws, err := e2eWorlds(*in, *seed)
	if err != nil {
		return err
	}
	self, err := os.Executable()
	if err != nil {
		return err
	}
	// the stub bastion: TLS 1.3 listener with ALPN bastion/0; its certificate is the witness side's only trusted root
	sb, err := newStubBastion(*dir, fmt.Sprintf("e2e-%d-%d", *seed, os.Getpid()))
	if err != nil {
		return err
	}
	defer sb.close()
	api := ""
	alive := func() bool { return true }
	var extLock func() (func(), error)
	if *prod != "" {
		db := filepath.Join(*dir, fmt.Sprintf("bastion-e2e-prod-%d-%d.db", *seed, os.Getpid()))
		if *legacy {
			os.Remove(db)
			raw, err := sql.Open("sqlite3", db)
			if err != nil {
				return err
			}
			if _, err := raw.Exec(pinnedSchema); err != nil {
				return err
			}
			for _, w := range ws {
				c := w.Concretise("l1", legacyS1, nil)
				note := string(c.CP) + w.WitKey.SignLegacy(c.Text) + w.WitKey.SignCosigV1(c.Text, uint64(time.Now().Unix()))
				// (the log ID bound as a Go string, as the release binds it)
				if _, err := raw.Exec("INSERT OR REPLACE INTO chkpts (logID, chkpt, range) VALUES (?, ?, NULL)", c.LogID, []byte(note)); err != nil {
					return err
				}
			}
			raw.Close()
		}
		extLock = func() (func(), error) {
			// a second connection to the same file: BEGIN; SELECT ... leaves a SHARED lock until the transaction ends
			other, err := sql.Open("sqlite3", db)
			if err != nil {
				return nil, err
			}
			tx, err := other.Begin()
			if err != nil {
				other.Close()
				return nil, err
			}
			var n int
			if err := tx.QueryRow("SELECT count(*) FROM chkpts").Scan(&n); err != nil {
				tx.Rollback()
				other.Close()
				return nil, fmt.Errorf("outside reader: %v", err)
			}
			return func() { tx.Rollback(); other.Close() }, nil
		}
		defer func() { os.Remove(db); os.Remove(db + "-journal") }()
		p, err := startProd(prodCfg{Bin: *prod, Dir: *dir, Tag: fmt.Sprintf("e2e-%d-%d", *seed, os.Getpid()), Yaml: prodYaml(ws), WitSKey: base.WitKey.SKey(),
			// (the operator's DSN: a busy timeout well below the endpoint's own 5 s write timeout, so that a commit that cannot get its lock is
			//  ANSWERED - with the library's default of 5 s the stream is reset at the same moment and the client sees no status at all)
			DB:      "file:" + db + "?_busy_timeout=700",
			Bastion: sb.addr(), CAFile: sb.caFile, Rate: *limit, RateSet: true})
		if err != nil {
			return err
		}
		defer p.kill()
		api = p.api
		alive = p.alive
	} else {
		cmd := exec.Command(self, "bastion-e2e-child", "-in", *in, "-bastion", sb.addr(), "-seed", fmt.Sprint(*seed), "-limit", fmt.Sprint(*limit))
		cmd.Env = append(os.Environ(), "SSL_CERT_FILE="+sb.caFile, "SSL_CERT_DIR=/nonexistent")
		stdout, err := cmd.StdoutPipe()
		if err != nil {
			return err
		}
		if err := cmd.Start(); err != nil {
			return err
		}
		defer func() { cmd.Process.Kill(); cmd.Wait() }()
		sc := bufio.NewScanner(stdout)
		for sc.Scan() {
			if strings.HasPrefix(sc.Text(), "API ") {
				api = strings.TrimPrefix(sc.Text(), "API ")
				break
			}
		}
		if api == "" {
			return fmt.Errorf("witness child did not report its API address")
		}
	}
	accept := func() (*tls.Conn, *http2.ClientConn, time.Duration, error) { return sb.accept(60 * time.Second) }
	tc, cc, connected, err := accept()
	if err != nil {
		return err
	}
	var reconnected time.Duration
	post := func(body []byte) (int, string, []byte) { return postVia(cc, body, 30*time.Second) }
	tw, err := newTraceWriter(*out)
	if err != nil {
		return err
	}
	for i, r := range runs {
		if i == len(runs)/2 && len(runs) >= 4 {
			// the bastion drops the connection: the witness has to come back by itself, with its state intact
			tc.Close()
			tc, cc, reconnected, err = accept()
			if err != nil {
				return fmt.Errorf("after the connection was dropped: %v", err)
			}
		}
		w := ws[i]
		snap := func() snapshot {
			s := snapshot{raw: map[string][]byte{}}
			for name, l := range w.Logs {
				resp, err := http.Get("http://" + api + fmt.Sprintf(wapi.HTTPGetCheckpoint, l.ID))
				if err != nil {
					s.err = err.Error()
					continue
				}
				b, _ := io.ReadAll(resp.Body)
				resp.Body.Close()
				if resp.StatusCode == 200 {
					s.raw[name] = b
				}
			}
			// the log list of this run only (the witness is shared by all runs)
			for name, l := range w.Logs {
				if _, ok := s.raw[name]; ok {
					s.logs = append(s.logs, l.ID)
				}
			}
			sort.Strings(s.logs)
			return s
		}
		ev, err := driveBastion(w, r, w.P.RunTag, "e2e", "id", *limit, bastionFront{post: post, snap: snap, extLock: extLock})
		if err != nil {
			return err
		}
		if err := tw.writeRun(ev); err != nil {
			return err
		}
	}
	if err := tw.Close(); err != nil {
		return err
	}
	_ = tc
	if !alive() {
		return fmt.Errorf("the production binary exited while serving the runs")
	}
	fmt.Printf("BASTION-E2E runs=%d events=%d connected_after=%v reconnected_after=%v tls13=true alpn=bastion/0\n", len(runs), tw.n, connected.Round(time.Millisecond), reconnected.Round(time.Millisecond))
	return nil
}
