//go:build noshim_omni

package main

import (
	"context"
	"os"

	"github.com/transparency-dev/witness/internal/feeder"
	"github.com/transparency-dev/witness/internal/witness"
	"google.golang.org/grpc/codes"
	"google.golang.org/grpc/status"
)

// The overlay shim for package omniwitness does not compile against this tree (the unexported adapter changed shape): the drivers that only
// need SOME feeder.Witness in front of a real witness use this stand-in; the real adapter is still exercised wherever omniwitness.Main or the
// production binary runs (C13 reference runs, C14, C10 end to end).
type standInAdapter struct{ w *witness.Witness }

func (a standInAdapter) GetLatestCheckpoint(ctx context.Context, logID string) ([]byte, error) {
	cp, err := a.w.GetCheckpoint(logID)
	if err != nil && status.Code(err) == codes.NotFound {
		return nil, os.ErrNotExist
	}
	return cp, err
}

func (a standInAdapter) Update(ctx context.Context, logID string, oldSize uint64, newCP []byte, proof [][]byte) ([]byte, error) {
	return a.w.Update(ctx, logID, oldSize, newCP, proof)
}

func witnessAdapterOf(w *witness.Witness) feeder.Witness { return standInAdapter{w} }

const adapterIsReal = false
