//go:build !noshim_sumdb

package main

import (
	"github.com/transparency-dev/witness/internal/client"
	"github.com/transparency-dev/witness/internal/feeder/sumdb"
	"golang.org/x/mod/sumdb/tlog"
)

func shimReadTiles(c *client.SumDBClient, tiles []tlog.Tile) ([][]byte, error) {
	return sumdb.VerifReadTiles(c, tiles)
}
