//go:build !noshim_omni

package main

import (
	"github.com/transparency-dev/witness/internal/feeder"
	"github.com/transparency-dev/witness/internal/witness"
	"github.com/transparency-dev/witness/omniwitness"
)

// witnessAdapterOf is the adapter omniwitness.Main puts between the witness and its feeders / bastion / distributor (through the overlay shim).
func witnessAdapterOf(w *witness.Witness) feeder.Witness { return omniwitness.VerifWitnessAdapter(w) }

const adapterIsReal = true
