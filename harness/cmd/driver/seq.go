package main

import (
	"bufio"
	"context"
	"database/sql"
	"encoding/json"
	"errors"
	"flag"
	"fmt"
	"github.com/transparency-dev/witness/internal/distribute/rest"
	"io"
	"net/http"
	"net/http/httptest"
	"net/url"
	"os"
	"path"
	"path/filepath"
	"runtime/debug"
	"sort"
	"strings"
	"sync"
	"time"

	"github.com/gorilla/mux"
	wapi "github.com/transparency-dev/witness/api"
	wclient "github.com/transparency-dev/witness/client/http"
	ihttp "github.com/transparency-dev/witness/internal/http"
	psql "github.com/transparency-dev/witness/internal/persistence/sql"
	"github.com/transparency-dev/witness/verifharness/internal/ref"
	"github.com/transparency-dev/witness/verifharness/internal/world"
)

func init() { commands["seq"] = seqMain }

type seqStep struct {
	Op  string     `json:"op"` // update | probe | get | getlogs | getodd
	Cls string     `json:"cls,omitempty"`
	Log string     `json:"log,omitempty"`
	Req *world.Req `json:"req,omitempty"`
	// Wait asks for the next wall-clock second to start before the step (freshness runs).
	Wait bool `json:"wait,omitempty"`
	// Faults (interface level) and DFaults (SQL driver level) are storage calls that fail during this step (C07).
	Faults  []string `json:"faults,omitempty"`
	DFaults []string `json:"dfaults,omitempty"`
	// N is the target size of a probe: the honest request computed from the OBSERVED stored state.
	N   int `json:"n,omitempty"`
	Ext int `json:"ext,omitempty"` // probe: the honest checkpoint carries extension lines
	// Hold names a storage call (WriteOps | GetLatest | Set): the update's context is cancelled while that call is held inside the
	// storage wrapper, then the call is released. Whatever Update answers, a refusal must have no effect, also later.
	Hold string `json:"hold,omitempty"`
}

type seqRun struct {
	ID    string    `json:"id"`
	Steps []seqStep `json:"steps"`
	// Phases, when present, are executed one after the other, each on a fresh witness over a fresh
	// store but with the same keys and origins; a "final" event closes each phase (C12).
	Phases [][]seqStep `json:"phases,omitempty"`
	// Sigma, when present, is this run's own size embedding (numeric sweeps; needs a fork-free world).
	Sigma []uint64 `json:"sigma,omitempty"`
}

type finalEvent struct {
	E      string              `json:"e"`
	Run    string              `json:"run"`
	K      int                 `json:"k"`
	Phase  int                 `json:"phase"`
	Only   string              `json:"only"` // the one log this phase's steps name ("" if several)
	Stored map[string]world.CP `json:"stored"`
	FP     map[string]string   `json:"fp"` // per log: digest of text and all signature lines except the timestamped one
}

type oddEvent struct {
	E      string `json:"e"`
	Run    string `json:"run"`
	K      int    `json:"k"`
	Cls    string `json:"cls"`
	Names  string `json:"names"`  // abstract log the cleaned path names ("" = none)
	First  int    `json:"first"`  // status of the first response
	LocOK  bool   `json:"locok"`  // a redirect points at the cleaned path
	Final  int    `json:"final"`  // status after following redirects
	Served string `json:"served"` // abstract log whose stored bytes were served ("" none, "?" other bytes)
	Client string `json:"client"` // bundled client on the same id: bytes | notexist | error
	Path   string `json:"path"`
}

// bgRead is a read running in the background of a sequential run.
type bgRead struct {
	log          string
	k            int
	done         chan struct{}
	reached      <-chan struct{}
	body         []byte
	status       int
	err          error
	afterUpdates int // number of updates that had returned when the read was started
}

type seqHeader struct {
	Params *world.Params `json:"params"`
}

type shape struct {
	Text     bool `json:"text"`     // cosigned text is byte-identical to the submitted text
	LogSig   bool `json:"logsig"`   // log signature present and valid
	Legacy   int  `json:"legacy"`   // valid legacy lines by the witness key
	Cosig    int  `json:"cosig"`    // valid cosignature/v1 lines by the witness key
	Forged   int  `json:"forged"`   // lines under a witness key id that do not verify
	TS       bool `json:"ts"`       // cosignature time inside the window of the producing call
	ReadBack bool `json:"readback"` // a read directly after returns exactly the returned bytes
}

type updEvent struct {
	E         string              `json:"e"`
	Run       string              `json:"run"`
	K         int                 `json:"k"`
	Log       string              `json:"log"`
	Req       world.Req           `json:"req"`
	V         string              `json:"v"`
	Ret       string              `json:"ret"`
	RetCP     world.CP            `json:"retcp"` // projection of the returned bytes (accepts only)
	Stored    map[string]world.CP `json:"stored"`
	LogList   []string            `json:"loglist"`
	Unchanged bool                `json:"unchanged"`
	RefOK     string              `json:"refok"`
	Shape     shape               `json:"shape"`
	Ctr       map[string]Ctr      `json:"ctr"`
	Conc      string              `json:"conc"`
	FRun      bool                `json:"frun"`   // the run injects storage failures (C07)
	Fired     []string            `json:"fired"`  // failures that were actually injected during this step
	Calls     []string            `json:"calls"`  // storage calls the witness made during this step
	OpenTx    int                 `json:"opentx"` // driver transactions begun and not finished after the call returned
	InUse     int                 `json:"inuse"`  // database/sql connections in use after the call returned
}

type getEvent struct {
	E      string   `json:"e"`
	Run    string   `json:"run"`
	K      int      `json:"k"`
	Log    string   `json:"log"`
	Val    world.CP `json:"val"`
	Exact  bool     `json:"exact"`  // body is byte-identical to what storage holds
	Status int      `json:"status"` // HTTP status (0 when the API is called in process)
	Client string   `json:"client"` // what the bundled client made of it: bytes | notexist | error
	FRun   bool     `json:"frun"`
	Fired  []string `json:"fired"`
	OpenTx int      `json:"opentx"`
	InUse  int      `json:"inuse"`
	Failed bool     `json:"failed"` // the read reported an error other than "nothing stored"
}

type getLogsEvent struct {
	E   string   `json:"e"`
	Run string   `json:"run"`
	K   int      `json:"k"`
	Val []string `json:"val"`
	OK  bool     `json:"ok"`
}

type skipEvent struct {
	E   string `json:"e"`
	Run string `json:"run"`
	K   int    `json:"k"`
}

type restoreEvent struct {
	E      string              `json:"e"`
	Run    string              `json:"run"`
	K      int                 `json:"k"`
	Log    string              `json:"log"`
	Cls    string              `json:"cls"`
	Stored map[string]world.CP `json:"stored"`
}

// envStepEvent: an environment step that only READS the witness (a pass of its REST distributor) was executed
type envStepEvent struct {
	E         string `json:"e"`
	Run       string `json:"run"`
	K         int    `json:"k"`
	Kind      string `json:"kind"`
	Unchanged bool   `json:"unchanged"`
}

// confEvent: the witness was restarted on the same database with this list of configured logs (environment action Reconfigure of Retire.tla)
type confEvent struct {
	E         string              `json:"e"`
	Run       string              `json:"run"`
	K         int                 `json:"k"`
	Cls       string              `json:"cls"`
	Conf      []string            `json:"conf"`
	Stored    map[string]world.CP `json:"stored"`
	Unchanged bool                `json:"unchanged"`
}

type resetEvent struct {
	E     string `json:"e"`
	Run   string `json:"run"`
	Phase int    `json:"phase"`
	Store string `json:"store"`
	Embed string `json:"embed"`
}

func seqMain(args []string) error {
	fs := flag.NewFlagSet("seq", flag.ExitOnError)
	in := fs.String("in", "", "runs file (jsonl, first line = params header)")
	out := fs.String("out", "", "trace file (ndjson)")
	storeKind := fs.String("store", "inmem", "inmem | sqlmem | sqlfile")
	embed := fs.String("embed", "id", "size embedding")
	seed := fs.Int64("seed", 1, "seed")
	workers := fs.Int("workers", 8, "parallel runs")
	dir := fs.String("dir", os.TempDir(), "scratch directory")
	useHTTP := fs.Bool("http", false, "serve reads through the HTTP API and the bundled client")
	withFaults := fs.Bool("faults", false, "wrap the store with the fault-injecting persistence (C07)")
	_ = fs.Parse(args)

	f, err := os.Open(*in)
	if err != nil {
		return err
	}
	defer f.Close()
	rd := bufio.NewReaderSize(f, 1<<20)
	line, err := rd.ReadBytes('\n')
	if err != nil {
		return fmt.Errorf("reading header: %v", err)
	}
	var hdr seqHeader
	if err := json.Unmarshal(line, &hdr); err != nil || hdr.Params == nil {
		return fmt.Errorf("bad header: %v", err)
	}
	hdr.Params.Embed = *embed
	hdr.Params.Seed = *seed
	base := world.New(*hdr.Params)

	tw, err := newTraceWriter(*out)
	if err != nil {
		return err
	}
	runs := make(chan seqRun, 64)
	var wg sync.WaitGroup
	var firstErr error
	var errMu sync.Mutex
	for i := 0; i < *workers; i++ {
		wg.Add(1)
		go func() {
			defer wg.Done()
			for r := range runs {
				type res struct {
					ev  []any
					err error
				}
				rc := make(chan res, 1)
				go func() {
					defer func() {
						// a panic of the harness itself (or of the code under verification on this goroutine): say which run it was and keep the run
						if p := recover(); p != nil {
							b, _ := json.Marshal(r)
							path := filepath.Join(*dir, "panicked-run.json")
							_ = os.WriteFile(path, b, 0o644)
							rc <- res{nil, fmt.Errorf("panic: %v (run kept in %s)\n%s", p, path, debug.Stack())}
						}
					}()
					ev, err := execSeqRun(base, r, *storeKind, *embed, *seed, *dir, *useHTTP, *withFaults)
					rc <- res{ev, err}
				}()
				var ev []any
				var err error
				select {
				case x := <-rc:
					ev, err = x.ev, x.err
				case <-time.After(5 * time.Minute):
					// never wait for ever: the check reports this as inconclusive (steps that may legitimately hang have their own deadlines)
					fmt.Fprintf(os.Stderr, "run %s did not finish within 5 minutes\n", r.ID)
					os.Exit(4)
				}
				if err == nil {
					err = tw.writeRun(ev)
				}
				if err != nil {
					errMu.Lock()
					if firstErr == nil {
						firstErr = fmt.Errorf("run %s: %v", r.ID, err)
					}
					errMu.Unlock()
				}
			}
		}()
	}
	nRuns := 0
	for {
		line, err := rd.ReadBytes('\n')
		if len(line) > 1 {
			var r seqRun
			if e := json.Unmarshal(line, &r); e != nil {
				return fmt.Errorf("bad run line: %v", e)
			}
			runs <- r
			nRuns++
		}
		if err == io.EOF {
			break
		}
		if err != nil {
			return err
		}
	}
	close(runs)
	wg.Wait()
	if err := tw.Close(); err != nil {
		return err
	}
	if firstErr != nil {
		return firstErr
	}
	fmt.Printf("SEQ runs=%d events=%d store=%s embed=%s seed=%d sigma=%v\n", nRuns, tw.n, *storeKind, *embed, *seed, base.Sigma)
	return nil
}

func hashSeed(s string, seed int64) int64 {
	h := ref.LogID(fmt.Sprintf("%s/%d", s, seed))
	var v int64
	for i := 0; i < 15; i++ {
		v = v<<4 | int64(hexVal(h[i]))
	}
	return v
}

func hexVal(c byte) byte {
	if c >= 'a' {
		return c - 'a' + 10
	}
	return c - '0'
}

func execSeqRun(base *world.World, r seqRun, storeKind, embed string, seed int64, dir string, useHTTP, withFaults bool) ([]any, error) {
	tag := fmt.Sprintf("%s-%s-%s-%d", r.ID, storeKind, embed, seed)
	if len(r.Sigma) > 0 {
		base = base.WithSigma(r.Sigma)
	}
	if len(r.Phases) == 0 {
		return execPhase(base, tag, -1, r.Steps, storeKind, embed, seed, dir, useHTTP, withFaults)
	}
	var all []any
	for pi, steps := range r.Phases {
		ev, err := execPhase(base, tag, pi, steps, storeKind, embed, seed, dir, useHTTP, withFaults)
		if err != nil {
			return nil, err
		}
		all = append(all, ev...)
	}
	return all, nil
}

func execPhase(base *world.World, tag string, phase int, steps []seqStep, storeKind, embed string, seed int64, dir string, useHTTP, withFaults bool) ([]any, error) {
	r := seqRun{Steps: steps}
	w := base.ForRun(tag, hashSeed(tag, seed))
	w.P.BigExt = useHTTP // (reads through the HTTP API and the bundled client: very long checkpoints come back whole)
	st, err := newStore(storeKind, dir)
	if err != nil {
		return nil, err
	}
	defer func() { st.close() }()
	var fl *faultLSP
	witP := st.p
	if withFaults {
		fl = newFaultLSP(st.p)
		witP = fl
	}
	// background reads (op bgget / release): a read whose return from storage is held back while other requests are served
	var holder *faultLSP
	var bg []*bgRead
	var releaseHeld func()
	for _, s := range r.Steps {
		if s.Op == "bgget" && fl == nil {
			holder = newFaultLSP(st.p)
			witP = holder
			break
		}
	}
	if fl != nil {
		holder = fl
	}
	wit, err := newWitness(w, witP)
	if err != nil {
		return nil, err
	}
	var srv *httptest.Server
	var cl wclient.Witness
	if useHTTP {
		rt := mux.NewRouter()
		ihttp.NewServer(wit).RegisterHandlers(rt)
		srv = httptest.NewServer(rt)
		defer func() { srv.Close() }()
		u, _ := url.Parse(srv.URL)
		cl = wclient.NewWitness(u, srv.Client())
	}
	// foreground HTTP reads while a background read is held back: if the answer does not come (the read path made this request wait for
	// the held one), the held read is released and the request repeated; what it then answers is judged like any other read
	fgGet := func(u string) (*http.Response, error) {
		if releaseHeld == nil {
			return srv.Client().Get(u)
		}
		c2 := *srv.Client()
		c2.Timeout = 1500 * time.Millisecond
		resp, err := c2.Get(u)
		if err == nil {
			return resp, nil
		}
		if releaseHeld != nil {
			releaseHeld()
			releaseHeld = nil
		}
		return srv.Client().Get(u)
	}
	events := []any{resetEvent{E: "reset", Run: tag, Store: storeKind, Embed: embed, Phase: phase}}
	nUpdates := 0
	pre := takeSnapshot(w, st.p)
	ctx := context.Background()
	for k, s := range r.Steps {
		if s.Op == "probe" {
			st, ok := project(w, pre)[s.Log]
			if !ok || (!st.None && (st.B != 0 || st.N > w.P.MaxSize || s.N < st.N)) {
				events = append(events, skipEvent{E: "skip", Run: tag, K: k})
				continue
			}
			rq := world.Req{Auth: "good", B: 0, N: s.N, Ext: s.Ext, Pf: world.Pf{K: "empty"}}
			if !st.None {
				rq.Old = st.N
				if st.N != s.N && st.N != 0 {
					rq.Pf = world.Pf{K: "right", B: 0, M: st.N, N: s.N}
				}
			}
			s.Op, s.Req = "update", &rq
		}
		switch s.Op {
		case "restore":
			// the stored checkpoint of a log is replaced by the SAME checkpoint as an earlier incarnation of this witness would have left it:
			//   future3s / future1h : cosigned when the wall clock was that far ahead (clock corrected since: NTP step, VM restore)
			//   legacyonly          : cosigned before the cosignature/v1 key was added to the signer set (only the legacy witness line)
			// Same text, same log signature, valid witness signatures; written through the persistence layer. The abstract state is unchanged.
			events = append(events, skipEvent{E: "skip", Run: tag, K: k})
			l, ok := w.Logs[s.Log]
			raw, has := pre.raw[s.Log]
			if !ok || !has || fl != nil {
				continue
			}
			n, err := ref.ParseNote(raw)
			if err != nil {
				continue
			}
			out := n.Text + "\n"
			for _, sg := range n.Sigs {
				if sg.Name != w.WitKey.Name {
					out += sg.Line
				}
			}
			out += w.WitKey.SignLegacy(n.Text)
			switch s.Cls {
			case "future3s":
				out += w.WitKey.SignCosigV1(n.Text, uint64(time.Now().Unix())+3)
			case "future1h":
				out += w.WitKey.SignCosigV1(n.Text, uint64(time.Now().Unix())+3600)
			case "legacyonly":
			default:
				return nil, fmt.Errorf("unknown restore class %q", s.Cls)
			}
			wr, err := st.p.WriteOps(l.ID)
			if err != nil {
				return nil, err
			}
			_, _ = wr.GetLatest() // (the in-memory store wants the read before the write; what it answers is the code's business, not this step's)
			if err := wr.Set([]byte(out)); err != nil {
				wr.Close()
				return nil, err
			}
			wr.Close()
			pre = takeSnapshot(w, st.p)
			// (the skip event appended above stands for a restore that could not be done; this one tells the judge what is stored now)
			events[len(events)-1] = restoreEvent{E: "restore", Run: tag, K: k, Log: s.Log, Cls: s.Cls, Stored: project(w, pre)}
			continue
		case "distribute":
			// the witness' own REST distributor makes a pass, wired as Main wires it (same adapter, the logs' configuration, the witness' verifier);
			// the distributor service answers 200 to everything (a transport without a network). It only reads: nothing observable may change.
			if fl != nil || holder != nil {
				events = append(events, skipEvent{E: "skip", Run: tag, K: k})
				continue
			}
			logs, err := bastionLogs(w)
			if err != nil {
				return nil, err
			}
			_, witV, err := witnessSigners(w)
			if err != nil {
				return nil, err
			}
			if d, err := rest.NewDistributor("http://distributor.invalid", &http.Client{Transport: okTransport{}}, logs, witV, witnessAdapterOf(wit)); err == nil {
				_ = d.DistributeOnce(ctx)
			}
			// byte for byte, what the store holds after the pass is what it held before
			after := takeSnapshot(w, st.p)
			events = append(events, envStepEvent{E: "envstep", Run: tag, K: k, Kind: "distribute", Unchanged: pre.equal(after)})
			pre = after
			continue
		case "migrate":
			// the file the witness runs on is replaced by one with the same content written the way the RELEASE under verification writes it
			// (schema and parameter binding of internal/persistence/sql at the pinned commit), and the witness is restarted on it: an
			// upgrade to the tree's code over existing data. Nothing observable may change.
			events = append(events, skipEvent{E: "skip", Run: tag, K: k})
			if st.path == "" || st.kind != "sqlfile" || fl != nil || holder != nil {
				continue
			}
			snap := takeSnapshot(w, st.p)
			st.db.Close()
			if s.Cls != "restart" && s.Cls != "retire" && s.Cls != "rekey" { // ("restart", "retire": the same file as it is; otherwise the file as the release would have written it)
				os.Remove(st.path)
				os.Remove(st.path + "-journal")
				raw, err := sql.Open("sqlite3", st.path)
				if err != nil {
					return nil, err
				}
				if _, err := raw.Exec(pinnedSchema); err != nil {
					return nil, err
				}
				for name, b := range snap.raw {
					if _, err := raw.Exec("INSERT OR REPLACE INTO chkpts (logID, chkpt, range) VALUES (?, ?, NULL)", w.Logs[name].ID, b); err != nil {
						return nil, err
					}
				}
				raw.Close()
			}
			db, err := sql.Open("sqlite3", st.path)
			if err != nil {
				return nil, err
			}
			db.SetMaxOpenConns(1)
			path := st.path
			st.db, st.p = db, psql.NewPersistence(db)
			st.close = func() { db.Close(); os.Remove(path); os.Remove(path + "-journal") }
			if s.Cls == "retire" {
				// the operator has dropped s.Log from the configuration (a retired log): the restarted witness no longer takes updates for it,
				// but what it holds for it is still what it holds
				wit, err = newWitnessWithout(w, st.p, s.Log)
			} else if s.Cls == "rekey" {
				// the operator has replaced s.Log's public key in the configuration (same origin): what the witness holds for the log was signed
				// with the old key. Whatever it does with requests under the new key, it does not start a second history for the log.
				wit, err = newWitnessRekeyed(w, st.p, s.Log)
			} else {
				wit, err = newWitness(w, st.p)
			}
			if err != nil {
				return nil, err
			}
			if useHTTP {
				srv.Close()
				rt := mux.NewRouter()
				ihttp.NewServer(wit).RegisterHandlers(rt)
				srv = httptest.NewServer(rt)
				u, _ := url.Parse(srv.URL)
				cl = wclient.NewWitness(u, srv.Client())
			}
			// (the skip event appended above stands for a restart that could not be done; this one tells the judges which logs the running
			//  instance is configured with now - Retire.tla's `conf` - and that the store holds, byte for byte, what it held before the restart)
			after := takeSnapshot(w, st.p)
			confNow := []string{}
			for name := range w.Logs {
				if !(s.Cls == "retire" && name == s.Log) {
					confNow = append(confNow, name)
				}
			}
			sort.Strings(confNow)
			events[len(events)-1] = confEvent{E: "conf", Run: tag, K: k, Cls: s.Cls, Conf: confNow, Stored: project(w, after), Unchanged: snap.equal(after)}
			pre = after
			continue
		case "bgget":
			// start a read in the background; with Hold set, its storage read is let through and its return is held until "release"
			l, ok := w.Logs[s.Log]
			if !ok || holder == nil {
				continue
			}
			b := &bgRead{log: s.Log, k: k, done: make(chan struct{}), afterUpdates: nUpdates}
			if s.Hold != "" && releaseHeld == nil {
				reached, rel := holder.armHold("ReadGetLatest>")
				releaseHeld = rel
				b.reached = reached
			}
			go func() {
				defer close(b.done)
				if useHTTP {
					resp, err := srv.Client().Get(srv.URL + fmt.Sprintf(wapi.HTTPGetCheckpoint, l.ID))
					if err != nil {
						b.err = err
						return
					}
					b.body, _ = io.ReadAll(resp.Body)
					resp.Body.Close()
					b.status = resp.StatusCode
					if resp.StatusCode != 200 {
						b.body = nil
					}
					return
				}
				b.body, b.err = wit.GetCheckpoint(l.ID)
			}()
			if b.reached != nil {
				select {
				case <-b.reached:
				case <-b.done:
					// the read was answered without going to storage (something in front of it had the answer): nothing to hold back
					releaseHeld()
					releaseHeld = nil
				case <-time.After(5 * time.Second):
					releaseHeld()
					releaseHeld = nil
				}
			} else {
				// give it the time to reach storage or whatever it waits for (it may legitimately be waiting for the held read)
				select {
				case <-b.done:
				case <-time.After(100 * time.Millisecond):
				}
			}
			bg = append(bg, b)
			continue
		case "release":
			if releaseHeld != nil {
				releaseHeld()
				releaseHeld = nil
			}
			for _, b := range bg {
				select {
				case <-b.done:
				case <-time.After(10 * time.Second):
					b.err = fmt.Errorf("background read did not return")
				}
				// a read started after the last update had returned must see exactly what is stored now; an earlier one overlapped it
				if b.afterUpdates != nUpdates {
					continue
				}
				l := w.Logs[b.log]
				ev := getEvent{E: "get", Run: tag, K: b.k, Log: b.log, Val: world.CP{None: true}, FRun: false, Fired: []string{}, Status: b.status}
				stored, has := pre.raw[b.log]
				switch {
				case b.err != nil && !isNotFound(b.err):
					ev.Client, ev.Failed = "error", true
				case b.body != nil:
					ev.Client = "bytes"
					ev.Val = w.Project(l, b.body).CP
					ev.Exact = has && string(stored) == string(b.body)
				default:
					ev.Client = "notexist"
					ev.Exact = !has
				}
				if useHTTP && ev.Client == "bytes" && ev.Status == 0 {
					ev.Status = 200
				}
				events = append(events, ev)
			}
			bg = nil
			continue
		case "update":
			nUpdates++
			if s.Wait {
				now := time.Now()
				time.Sleep(now.Truncate(time.Second).Add(time.Second + 5*time.Millisecond).Sub(now))
			}
			preAbs := project(w, pre)
			var stored *world.CP
			if c, ok := preAbs[s.Log]; ok {
				stored = &c
			}
			c := w.Concretise(s.Log, *s.Req, stored)
			if w.Coincides(s.Log, *s.Req, stored, c) {
				// under this embedding the bytes of the "genuine proof for other sizes" happen to be a
				// valid proof for this step (constant-leaf regions of huge trees): not a rendering of
				// the abstract request, so the step is not executed.
				events = append(events, skipEvent{E: "skip", Run: tag, K: k})
				continue
			}
			if fl != nil {
				for _, f := range s.Faults {
					fl.arm(f, 1)
				}
				if st.hook != nil {
					for _, f := range s.DFaults {
						st.hook.arm(f, 1)
					}
				}
			}
			start := time.Now()
			var ret []byte
			var uerr error
			hung := false
			heldNote := ""
			panicked := false
			if fl != nil && s.Hold == "before" {
				// the caller's context has already ended when the request reaches the witness (a dropped stream, an expired per-cycle deadline)
				cctx, cancel := context.WithCancel(ctx)
				cancel()
				done := make(chan struct{})
				go func() {
					defer func() {
						if r := recover(); r != nil {
							ret, uerr, panicked = nil, fmt.Errorf("recovered: %v", r), true
						}
						close(done)
					}()
					ret, uerr = wit.Update(cctx, c.LogID, c.OldSize, c.CP, c.Proof)
				}()
				select {
				case <-done:
				case <-time.After(20 * time.Second):
					hung = true
				}
				heldNote = " ctx had ended before the call"
			} else if fl != nil && s.Hold != "" {
				cctx, cancel := context.WithCancel(ctx)
				reached, release := fl.armHold(s.Hold)
				done := make(chan struct{})
				go func() {
					ret, uerr = wit.Update(cctx, c.LogID, c.OldSize, c.CP, c.Proof)
					close(done)
				}()
				arrived := false
				select {
				case <-reached:
					arrived = true
				case <-done:
				case <-time.After(10 * time.Second):
				}
				cancel()
				early := false
				if arrived {
					select {
					case <-done:
						early = true // Update answered while its storage call was still in progress
					case <-time.After(150 * time.Millisecond):
					}
				}
				release()
				select {
				case <-done:
				case <-time.After(20 * time.Second):
					hung = true
				}
				if early {
					// whatever was left running behind the answer gets the time to finish before the state is read
					for t0 := time.Now(); time.Since(t0) < 2*time.Second && !fl.saw("Close"); {
						time.Sleep(5 * time.Millisecond)
					}
					time.Sleep(20 * time.Millisecond)
				}
				heldNote = fmt.Sprintf(" ctx cancelled while %s was in progress (reached=%v answered-before-release=%v)", s.Hold, arrived, early)
			} else if fl != nil {
				done := make(chan struct{})
				go func() {
					defer func() {
						if r := recover(); r != nil {
							ret, uerr, panicked = nil, fmt.Errorf("recovered: %v", r), true
						}
						close(done)
					}()
					ret, uerr = wit.Update(ctx, c.LogID, c.OldSize, c.CP, c.Proof)
				}()
				select {
				case <-done:
				case <-time.After(20 * time.Second):
					hung = true
				}
			} else {
				ret, uerr = wit.Update(ctx, c.LogID, c.OldSize, c.CP, c.Proof)
			}
			end := time.Now()
			var fired, calls []string
			openTx, inUse := 0, 0
			if fl != nil {
				fired, calls = fl.disarm()
				if s.Hold != "" {
					fired = append(fired, "ctx-cancel")
				}
				if st.hook != nil {
					fired = append(fired, st.hook.disarm()...)
					openTx = st.hook.open()
				}
				if st.db != nil {
					inUse = st.db.Stats().InUse
				}
			}
			if hung || inUse > 0 {
				// the store is wedged (a transaction holds the single connection): state cannot be read back
				v := verdict(uerr)
				if hung {
					v = "Hang"
				}
				ab := updEvent{E: "update", Run: tag, K: k, Log: s.Log, Req: *s.Req, V: v, Ret: "nil",
					Stored: project(w, pre), LogList: abstractLogs(w, pre.logs), Unchanged: true, RefOK: "na", Ctr: map[string]Ctr{},
					FRun: true, Fired: nonNil(fired), Calls: nonNil(calls), OpenTx: openTx, InUse: inUse, Conc: "store wedged; run abandoned"}
				for name, l := range w.Logs {
					ab.Ctr[name] = readCtr(l.ID)
				}
				return append(events, ab), nil
			}
			post := takeSnapshot(w, st.p)
			vd := verdict(uerr)
			if panicked {
				vd = "Panic"
			}
			ev := updEvent{E: "update", Run: tag, K: k, Log: s.Log, Req: *s.Req, V: vd,
				FRun: fl != nil, Fired: nonNil(fired), Calls: nonNil(calls), OpenTx: openTx, InUse: inUse,
				Stored: project(w, post), LogList: abstractLogs(w, post.logs), Unchanged: pre.equal(post),
				RefOK: "na", Ctr: map[string]Ctr{},
				Conc: fmt.Sprintf("old=%d size=%d proof=%d %s", c.OldSize, c.Size, len(c.Proof), c.Note) + heldNote}
			prevRaw, hadPrev := pre.raw[s.Log]
			newRaw, hasNew := post.raw[s.Log]
			isPrev := hadPrev && len(ret) > 0 && string(ret) == string(prevRaw)
			isNew := hasNew && len(ret) > 0 && string(ret) == string(newRaw)
			switch {
			case len(ret) == 0:
				ev.Ret = "nil"
			case uerr == nil && isNew:
				ev.Ret = "new"
			case isPrev:
				ev.Ret = "prev"
			case isNew:
				ev.Ret = "new"
			default:
				ev.Ret = "other"
			}
			if l, ok := w.Logs[s.Log]; ok {
				// independent verdict on the concrete proof bytes against the stored root
				if hadPrev && s.Req.Auth == "good" {
					pp := w.Project(l, prevRaw)
					if cp, err := ref.ParseCheckpointText(pp.Text); err == nil && pp.OK && cp.Size <= c.Size {
						if ref.VerifyConsistency(cp.Size, c.Size, c.Proof, cp.Root, c.Root) {
							ev.RefOK = "yes"
						} else {
							ev.RefOK = "no"
						}
					}
				}
				if uerr == nil {
					p := w.Project(l, ret)
					ev.RetCP = p.CP
					ev.Shape = shape{Text: p.Text == c.Text, LogSig: p.LogSigValid, Legacy: p.WitLegacy, Cosig: p.WitCosig, Forged: p.WitForged,
						TS:       p.WitCosig > 0 && p.CosigTime >= uint64(start.Unix()) && p.CosigTime <= uint64(end.Unix()),
						ReadBack: readBack(wit, l.ID, ret)}
				}
			}
			for name, l := range w.Logs {
				ev.Ctr[name] = readCtr(l.ID)
			}
			events = append(events, ev)
			pre = post
		case "get":
			id := ""
			var l *world.LogW
			if lw, ok := w.Logs[s.Log]; ok {
				l, id = lw, lw.ID
			} else {
				id = ref.LogID("verif.example/" + tag + "/not-configured")
				l = w.Logs[w.P.Logs[0]]
			}
			ev := getEvent{E: "get", Run: tag, K: k, Log: s.Log, Val: world.CP{None: true}, FRun: fl != nil, Fired: []string{}}
			if fl != nil {
				for _, f := range s.Faults {
					fl.arm(f, 1)
				}
				if st.hook != nil {
					for _, f := range s.DFaults {
						st.hook.arm(f, 1)
					}
				}
			}
			var body []byte
			if useHTTP {
				resp, err := fgGet(srv.URL + fmt.Sprintf(wapi.HTTPGetCheckpoint, id))
				if err != nil {
					return nil, err
				}
				body, _ = io.ReadAll(resp.Body)
				resp.Body.Close()
				ev.Status = resp.StatusCode
				if resp.StatusCode != 200 {
					body = nil
				}
				if resp.StatusCode >= 500 {
					ev.Failed = true // the service said that it could not answer (which is not "there is no checkpoint")
				}
				cb, cerr := cl.GetLatestCheckpoint(ctx, id)
				switch {
				case cerr == nil && string(cb) == string(body) && resp.StatusCode == 200:
					ev.Client = "bytes"
				case errors.Is(cerr, os.ErrNotExist):
					ev.Client = "notexist"
				default:
					ev.Client = "error"
				}
			} else {
				b, err := wit.GetCheckpoint(id)
				if err == nil {
					body = b
					ev.Client = "bytes"
				} else if isNotFound(err) {
					ev.Client = "notexist"
				} else {
					ev.Client = "error"
					ev.Failed = true
				}
			}
			if fl != nil {
				fired, _ := fl.disarm()
				if st.hook != nil {
					fired = append(fired, st.hook.disarm()...)
					ev.OpenTx = st.hook.open()
				}
				if st.db != nil {
					ev.InUse = st.db.Stats().InUse
				}
				ev.Fired = nonNil(fired)
				if ev.InUse > 0 {
					return append(events, ev), nil // the single connection is stuck: the run cannot go on
				}
			}
			stored, has := pre.raw[s.Log]
			if body != nil {
				ev.Val = w.Project(l, body).CP
				ev.Exact = has && string(stored) == string(body)
			} else if ev.Failed {
				ev.Exact = true
				if has { // the judge compares val with the stored value: a failed read reports nothing
					ev.Val = w.Project(l, stored).CP
				}
			} else {
				ev.Exact = !has
			}
			events = append(events, ev)
		case "getlogs":
			ev := getLogsEvent{E: "getlogs", Run: tag, K: k}
			var ids []string
			if useHTTP {
				resp, err := fgGet(srv.URL + wapi.HTTPGetLogs)
				if err != nil {
					return nil, err
				}
				b, _ := io.ReadAll(resp.Body)
				resp.Body.Close()
				ev.OK = resp.StatusCode == http.StatusOK && json.Unmarshal(b, &ids) == nil
			} else {
				var err error
				ids, err = wit.GetLogs()
				ev.OK = err == nil
			}
			sort.Strings(ids)
			ev.Val = abstractLogs(w, ids)
			events = append(events, ev)
		case "getodd":
			if !useHTTP {
				return nil, fmt.Errorf("getodd needs -http")
			}
			ev, err := oddGet(w, srv, cl, pre, tag, k, s)
			if err != nil {
				return nil, err
			}
			events = append(events, ev)
		default:
			return nil, fmt.Errorf("unknown op %q", s.Op)
		}
	}
	if phase >= 0 {
		fe := finalEvent{E: "final", Run: tag, K: len(r.Steps), Phase: phase, Stored: project(w, pre), FP: map[string]string{}}
		for name := range w.Logs {
			fe.FP[name] = fingerprint(w, pre.raw[name])
		}
		named := map[string]bool{}
		for _, s := range r.Steps {
			named[s.Log] = true
		}
		if len(named) == 1 {
			for n := range named {
				fe.Only = n
			}
		}
		events = append(events, fe)
	}
	return events, nil
}

// fingerprint digests the text and every signature line except cosignature/v1 lines of the witness
// (whose timestamp legitimately differs between runs).
func fingerprint(w *world.World, raw []byte) string {
	if raw == nil {
		return "none"
	}
	n, err := ref.ParseNote(raw)
	if err != nil {
		return "unparsable:" + ref.LogID(string(raw))
	}
	acc := n.Text
	for _, sg := range n.Sigs {
		if sg.Name == w.WitKey.Name && sg.Hash == w.WitKey.KeyHash(ref.AlgCosigV1) {
			acc += "<cosig/v1>\n"
			continue
		}
		acc += sg.Line
	}
	return ref.LogID(acc)
}

// oddGet requests a syntactically odd log id over HTTP, without and with following redirects.
func oddGet(w *world.World, srv *httptest.Server, cl wclient.Witness, pre snapshot, tag string, k int, s seqStep) (oddEvent, error) {
	ev := oddEvent{E: "getodd", Run: tag, K: k, Cls: s.Cls}
	id := ""
	if l, ok := w.Logs[s.Log]; ok {
		id = l.ID
	} else {
		id = w.Logs[w.P.Logs[0]].ID
	}
	seg := ""
	switch s.Cls {
	case "empty":
		seg = ""
	case "trailing-slash":
		seg = id + "/"
		ev.Names = s.Log // the cleaned path .../<id>/checkpoint names the log
	case "double-slash":
		seg = "/" + id
		ev.Names = s.Log
	case "dotdot-alias":
		seg = "zz/../" + id
		ev.Names = s.Log
	case "dot-alias":
		seg = "./" + id
		ev.Names = s.Log
	case "slash-inside":
		seg = id[:32] + "/" + id[32:]
	case "encoded-slash":
		seg = id[:32] + "%2F" + id[32:]
	case "truncated":
		seg = id[:63]
	case "prefix":
		seg = id[:8]
	case "extended":
		seg = id + "0"
	case "uppercase":
		seg = strings.ToUpper(id)
		if seg == id {
			ev.Names = s.Log
		}
	case "nonascii":
		seg = id[:60] + "%C3%A9"
	case "space":
		seg = id[:60] + "%20" + id[60:]
	case "wildcard":
		seg = "%25"
	case "star":
		seg = "*"
	case "long":
		seg = strings.Repeat(id, 40)
	case "dotdot-escape":
		seg = id + "/../" + "checkpoint"
	default:
		return ev, fmt.Errorf("unknown odd id class %q", s.Cls)
	}
	p := "/witness/v0/logs/" + seg + "/checkpoint"
	ev.Path = p
	noFollow := &http.Client{CheckRedirect: func(*http.Request, []*http.Request) error { return http.ErrUseLastResponse }}
	resp, err := noFollow.Get(srv.URL + p)
	if err != nil {
		ev.First, ev.Final = -1, -1
		return ev, nil
	}
	io.Copy(io.Discard, resp.Body)
	resp.Body.Close()
	ev.First = resp.StatusCode
	if resp.StatusCode == 301 || resp.StatusCode == 308 || resp.StatusCode == 302 || resp.StatusCode == 307 {
		loc := resp.Header.Get("Location")
		want := cleanPath(p)
		ev.LocOK = loc == want || loc == srv.URL+want
	}
	resp2, err := srv.Client().Get(srv.URL + p)
	if err != nil {
		ev.Final = -1
		return ev, nil
	}
	body, _ := io.ReadAll(resp2.Body)
	resp2.Body.Close()
	ev.Final = resp2.StatusCode
	if resp2.StatusCode == 200 {
		ev.Served = "?"
		for name, raw := range pre.raw {
			if string(raw) == string(body) {
				ev.Served = name
			}
		}
	}
	cb, cerr := cl.GetLatestCheckpoint(context.Background(), seg)
	switch {
	case cerr == nil && string(cb) == string(body) && resp2.StatusCode == 200:
		ev.Client = "bytes"
	case errors.Is(cerr, os.ErrNotExist):
		ev.Client = "notexist"
	default:
		ev.Client = "error"
	}
	return ev, nil
}

// cleanPath is path.Clean that keeps a trailing slash (what gorilla/mux redirects to).
func cleanPath(p string) string {
	np := path.Clean(p)
	if p[len(p)-1] == '/' && np != "/" {
		np += "/"
	}
	return np
}

func nonNil(s []string) []string {
	if s == nil {
		return []string{}
	}
	return s
}

func readBack(wit interface{ GetCheckpoint(string) ([]byte, error) }, id string, ret []byte) bool {
	b, err := wit.GetCheckpoint(id)
	return err == nil && string(b) == string(ret)
}

// okTransport answers every request with an empty 200 (no network involved).
type okTransport struct{}

func (okTransport) RoundTrip(r *http.Request) (*http.Response, error) {
	if r.Body != nil {
		io.Copy(io.Discard, r.Body)
		r.Body.Close()
	}
	return &http.Response{StatusCode: 200, Status: "200 OK", Proto: "HTTP/1.1", ProtoMajor: 1, ProtoMinor: 1, Header: http.Header{}, Body: io.NopCloser(strings.NewReader("")), Request: r}, nil
}
