//go:build !cgo

package main

// without cgo there is no SQLite (the 32-bit start-up walk): only the untyped failure exists
var driverErrors = []error{errDriverInjected}

var errSQLiteBusy error = errDriverInjected

func codedDriverErr(code int) error { return errDriverInjected }
