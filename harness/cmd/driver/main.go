// Command driver runs TLC-generated behaviours against the real witness code and
// records what the code did as ndjson observation events for the TLA+ trace judges.
package main

import (
	"flag"
	"fmt"
	"os"

	"github.com/transparency-dev/witness/monitoring"
	"k8s.io/klog/v2"
)

var commands = map[string]func(args []string) error{}

func main() {
	if len(os.Args) < 2 {
		fmt.Fprintln(os.Stderr, "usage: driver <command> [flags]")
		os.Exit(2)
	}
	// klog goes to a file (or nowhere), never to the trace.
	fs := flag.NewFlagSet("klog", flag.ContinueOnError)
	klog.InitFlags(fs)
	_ = fs.Set("logtostderr", "false")
	_ = fs.Set("alsologtostderr", "false")
	_ = fs.Set("stderrthreshold", "FATAL")
	// the verbosity the shipped docker-compose file runs with: code behind klog.V(n) runs here too
	_ = fs.Set("v", "2")
	if f := os.Getenv("VERIF_KLOG"); f != "" {
		_ = fs.Set("log_file", f)
	} else {
		_ = fs.Set("log_file", os.DevNull)
	}
	// The metric factory is process-global and only the first call counts.
	monitoring.SetMetricFactory(recFactory)

	cmd, ok := commands[os.Args[1]]
	if !ok {
		fmt.Fprintf(os.Stderr, "unknown command %q\n", os.Args[1])
		os.Exit(2)
	}
	if err := cmd(os.Args[2:]); err != nil {
		fmt.Fprintf(os.Stderr, "driver %s: %v\n", os.Args[1], err)
		os.Exit(2)
	}
}

// shimUnavailable ends the process with exit code 3: the command needs an add-only overlay shim that does not compile against the tree
// under verification (its unexported target changed shape). The caller reports the check as inconclusive, never as a violation.
func shimUnavailable(name string) {
	os.Stdout.WriteString("SHIM-UNAVAILABLE " + name + "\n")
	os.Exit(3)
}
