package main

import (
	"context"
	"fmt"
	"os"
	"runtime"
	"sync"
	"sync/atomic"
	"time"

	f_note "github.com/transparency-dev/formats/note"
	"github.com/transparency-dev/merkle/rfc6962"
	"github.com/transparency-dev/witness/internal/persistence/inmemory"
	"github.com/transparency-dev/witness/internal/witness"
	"github.com/transparency-dev/witness/verifharness/internal/ref"
	"github.com/transparency-dev/witness/verifharness/internal/world"
)

// hostileStorm is the "storm" cycle of Totality.tla: right after start-up the first valid submissions for MANY configured logs arrive at the
// same time (feeder goroutines and bastion streams all fire at once after a restart). Whatever the witness sets up lazily per log on first use
// is set up by many goroutines at once. Every call must return; the process must still be there afterwards.
func hostileStorm(s hostileScen, seed int64) error {
	nlogs, rounds := 4000, 4
	if s.Data == "storm-small" {
		nlogs, rounds = 400, 30
	}
	w := world.New(world.Params{Logs: []string{"l1"}, MaxSize: 1, NBranch: 1, MaxLines: 6, NWitKeys: 2, Seed: seed, RunTag: "storm", Origins: map[string]string{}})
	key := w.Logs["l1"].Key
	v, err := f_note.NewVerifier(key.VKey())
	if err != nil {
		return err
	}
	signers, _, err := witnessSigners(w)
	if err != nil {
		return err
	}
	root := w.Logs["l1"].Trees[0].Root(1)
	type sub struct {
		id string
		cp []byte
	}
	subs := make([]sub, nlogs)
	kl := map[string]witness.LogInfo{}
	for i := range subs {
		origin := fmt.Sprintf("storm.example/log/%d/%d", seed, i)
		id := ref.LogID(origin)
		kl[id] = witness.LogInfo{SigV: v, Origin: origin, Hasher: rfc6962.DefaultHasher}
		text := ref.CheckpointText(origin, 1, root[:], "")
		subs[i] = sub{id: id, cp: []byte(text + "\n" + key.SignLegacy(text))}
	}
	g := 2 * runtime.GOMAXPROCS(0)
	var accepted, refused atomic.Int64
	for r := 0; r < rounds; r++ {
		wit, err := witness.New(witness.Opts{Persistence: inmemory.NewPersistence(), Signers: signers, KnownLogs: kl})
		if err != nil {
			return err
		}
		ctx, cancel := context.WithTimeout(context.Background(), 15*time.Second)
		var wg sync.WaitGroup
		start := make(chan struct{})
		for k := 0; k < g; k++ {
			wg.Add(1)
			go func(k int) {
				defer wg.Done()
				<-start
				// goroutines 2m and 2m+1 submit for the same logs (j = m mod g/2), all the others for different ones
				for j := k / 2; j < nlogs; j += g / 2 {
					if _, err := wit.Update(ctx, subs[j].id, 0, subs[j].cp, nil); err == nil {
						accepted.Add(1)
					} else {
						refused.Add(1)
					}
				}
			}(k)
		}
		close(start)
		wg.Wait()
		cancel()
	}
	if accepted.Load() == 0 {
		fmt.Printf("OUTCOME error storm: nothing accepted (%d refused)\n", refused.Load())
		os.Exit(0)
	}
	fmt.Printf("OUTCOME result storm accepted=%d refused=%d\n", accepted.Load(), refused.Load())
	os.Exit(0)
	return nil
}
