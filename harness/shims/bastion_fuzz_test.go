//go:build verif

package bastion

import (
	"bytes"
	"context"
	"encoding/json"
	"net/http"
	"net/http/httptest"
	"os"
	"testing"

	f_note "github.com/transparency-dev/formats/note"
	"github.com/transparency-dev/merkle/rfc6962"
	"github.com/transparency-dev/witness/internal/config"
	"github.com/transparency-dev/witness/internal/persistence/inmemory"
	"github.com/transparency-dev/witness/internal/witness"
	"github.com/transparency-dev/witness/monitoring"
	"golang.org/x/mod/sumdb/note"
	"golang.org/x/time/rate"
)

// wa is the adapter omniwitness.Main puts between the witness and the endpoint (copied shape: NotFound -> os.ErrNotExist is irrelevant here).
type wa struct{ w *witness.Witness }

func (a wa) GetLatestCheckpoint(ctx context.Context, id string) ([]byte, error) {
	return a.w.GetCheckpoint(id)
}
func (a wa) Update(ctx context.Context, id string, old uint64, cp []byte, p [][]byte) ([]byte, error) {
	return a.w.Update(ctx, id, old, cp, p)
}

// FuzzAddCheckpoint is the coverage-guided fuzz target of the verification harness (supplied through -overlay):
// the real handler in front of a real witness that already holds a checkpoint; seeds are valid requests of every
// verdict class written by the harness; every answer must be a documented status and nothing may panic.
func FuzzAddCheckpoint(f *testing.F) {
	cfgPath := os.Getenv("VERIF_FUZZ_CFG")
	if cfgPath == "" {
		f.Skip("not driven by the harness")
	}
	var cfg struct {
		Origin, LogVKey, WitSKey string
		Setup                    [][]byte
		Seeds                    [][]byte
	}
	b, err := os.ReadFile(cfgPath)
	if err != nil {
		f.Fatal(err)
	}
	if err := json.Unmarshal(b, &cfg); err != nil {
		f.Fatal(err)
	}
	monitoring.SetMetricFactory(monitoring.InertMetricFactory{})
	lc, err := config.NewLog(cfg.Origin, cfg.LogVKey, "http://log.invalid/")
	if err != nil {
		f.Fatal(err)
	}
	legacy, err := note.NewSigner(cfg.WitSKey)
	if err != nil {
		f.Fatal(err)
	}
	cosig, err := f_note.NewSignerForCosignatureV1(cfg.WitSKey)
	if err != nil {
		f.Fatal(err)
	}
	w, err := witness.New(witness.Opts{Persistence: inmemory.NewPersistence(), Signers: []note.Signer{legacy, cosig},
		KnownLogs: map[string]witness.LogInfo{lc.ID: {SigV: lc.Verifier, Origin: lc.Origin, Hasher: rfc6962.DefaultHasher}}})
	if err != nil {
		f.Fatal(err)
	}
	initMetrics()
	h := &addHandler{w: wa{w}, logs: map[string]config.Log{lc.ID: lc}, witVerifier: cosig.Verifier(), limiter: rate.NewLimiter(rate.Limit(1e9), 1e9)}
	handler := http.MaxBytesHandler(h, 16*1024)
	post := func(body []byte) int {
		rec := httptest.NewRecorder()
		handler.ServeHTTP(rec, httptest.NewRequest(http.MethodPost, "/", bytes.NewReader(body)))
		return rec.Code
	}
	for _, s := range cfg.Setup {
		if st := post(s); st != 200 {
			f.Fatalf("set-up request answered %d", st)
		}
	}
	for _, s := range cfg.Seeds {
		f.Add(s)
	}
	documented := map[int]bool{200: true, 400: true, 403: true, 404: true, 409: true, 422: true, 429: true, 500: true}
	f.Fuzz(func(t *testing.T, body []byte) {
		if st := post(body); !documented[st] {
			t.Fatalf("undocumented status %d", st)
		}
	})
}
