//go:build verif

package main

import (
	"os"

	"github.com/transparency-dev/witness/omniwitness"
)

// Add-only shim (supplied through -overlay, never part of /repo): the production binary reads its log
// configuration from the exported omniwitness.ConfigLogs variable; the harness points it at a generated file.
func init() {
	if p := os.Getenv("VERIF_LOGS_YAML"); p != "" {
		b, err := os.ReadFile(p)
		if err != nil {
			panic(err)
		}
		omniwitness.ConfigLogs = b
	}
}
