//go:build verif

package client

// VerifTilePath exposes tilePath to the verification harness (add-only shim, supplied through go build -overlay).
func (c *SumDBClient) VerifTilePath(offset int) string { return c.tilePath(offset) }
