//go:build verif

package main

import (
	"bufio"
	"context"
	"encoding/base64"
	"encoding/json"
	"io"
	"net/http"
	"net/http/httptest"
	"os"
	"testing"
)

// TestVerifWriter drives the repository's own writer of the add-checkpoint body (bastionClient.Update)
// with the inputs listed in $VERIF_WRITER_IN and stores the bodies it sent in $VERIF_WRITER_OUT.
// (in-package test file supplied through -overlay by the verification harness; add-only)
func TestVerifWriter(t *testing.T) {
	in, out := os.Getenv("VERIF_WRITER_IN"), os.Getenv("VERIF_WRITER_OUT")
	if in == "" || out == "" {
		t.Skip("not driven by the harness")
	}
	var got []byte
	srv := httptest.NewServer(http.HandlerFunc(func(w http.ResponseWriter, r *http.Request) {
		got, _ = io.ReadAll(r.Body)
		w.WriteHeader(200)
	}))
	defer srv.Close()
	bc := &bastionClient{httpClient: srv.Client(), url: srv.URL, originByLogID: map[string]string{}}
	f, err := os.Open(in)
	if err != nil {
		t.Fatal(err)
	}
	defer f.Close()
	o, err := os.Create(out)
	if err != nil {
		t.Fatal(err)
	}
	defer o.Close()
	sc := bufio.NewScanner(f)
	sc.Buffer(make([]byte, 1<<20), 1<<24)
	for sc.Scan() {
		var v struct {
			Old   uint64   `json:"old"`
			Proof []string `json:"proof"`
			CP    string   `json:"cp"`
		}
		if err := json.Unmarshal(sc.Bytes(), &v); err != nil {
			t.Fatal(err)
		}
		proof := make([][]byte, len(v.Proof))
		for i, p := range v.Proof {
			proof[i], _ = base64.StdEncoding.DecodeString(p)
		}
		cp, _ := base64.StdEncoding.DecodeString(v.CP)
		got = nil
		if _, err := bc.Update(context.Background(), "id", v.Old, cp, proof); err != nil {
			t.Fatal(err)
		}
		o.WriteString(base64.StdEncoding.EncodeToString(got) + "\n")
	}
}
