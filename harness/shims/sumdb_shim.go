//go:build verif

package sumdb

import (
	"github.com/transparency-dev/witness/internal/client"
	"golang.org/x/mod/sumdb/tlog"
)

// VerifReadTiles exposes the feeder's tile reader (which maps a full-width tile to "no partial suffix")
// to the verification harness (add-only shim, supplied through go build -overlay).
func VerifReadTiles(c *client.SumDBClient, tiles []tlog.Tile) ([][]byte, error) {
	tr := &tileReader{c: c} // addressable: works whether the methods have value or pointer receivers
	return tr.ReadTiles(tiles)
}
