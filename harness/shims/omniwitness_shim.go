//go:build verif

package omniwitness

import (
	"github.com/transparency-dev/witness/internal/feeder"
	"github.com/transparency-dev/witness/internal/witness"
)

// VerifWitnessAdapter exposes the adapter Main puts between the witness and its feeders / bastion / distributor.
func VerifWitnessAdapter(w *witness.Witness) feeder.Witness {
	return &witnessAdapter{w: w} // the pointer's method set covers value and pointer receivers
}
