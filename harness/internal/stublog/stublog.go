// Package stublog serves a generated log (a ref.Tree) the way real logs are served:
// as a Go SumDB (x/mod's reference sumdb.NewServer) and as a C2SP tlog-tiles log.
package stublog

import (
	"time"
	"bytes"
	"compress/gzip"
	"context"
	"encoding/hex"
	"encoding/json"
	"fmt"
	"net/http"
	"net/http/httptest"
	"strconv"
	"strings"
	"sync"

	"github.com/transparency-dev/witness/verifharness/internal/ref"
	"golang.org/x/mod/module"
	"golang.org/x/mod/sumdb"
	"golang.org/x/mod/sumdb/tlog"
)

// Log is a log whose published checkpoint (branch, size) can be moved by the test.
type Log struct {
	Origin string
	Key    *ref.Key

	mu     sync.Mutex
	trees  []*ref.Tree
	branch int
	size   uint64
	paths  []string
	// Hostile, when set, may answer a request itself (return true if it did).
	Hostile func(w http.ResponseWriter, r *http.Request) bool
	// CheckpointOverride, when set, replaces the served checkpoint bytes.
	CheckpointOverride func() []byte
}

// New returns a log over the given branches (trees[0] = main history).
func New(origin string, key *ref.Key, trees []*ref.Tree) *Log {
	return &Log{Origin: origin, Key: key, trees: trees}
}

// SetHostile installs or removes the hostile answerer (safe while requests are being served).
func (l *Log) SetHostile(h func(w http.ResponseWriter, r *http.Request) bool) {
	l.mu.Lock()
	l.Hostile = h
	l.mu.Unlock()
}

func (l *Log) hostile() func(w http.ResponseWriter, r *http.Request) bool {
	l.mu.Lock()
	defer l.mu.Unlock()
	return l.Hostile
}

// Publish moves the served checkpoint.
func (l *Log) Publish(branch int, size uint64) {
	l.mu.Lock()
	l.branch, l.size = branch, size
	l.mu.Unlock()
}

// Published returns the current branch and size.
func (l *Log) Published() (int, uint64) {
	l.mu.Lock()
	defer l.mu.Unlock()
	return l.branch, l.size
}

// Paths returns (and clears) the request paths seen.
func (l *Log) Paths() []string {
	l.mu.Lock()
	defer l.mu.Unlock()
	p := l.paths
	l.paths = nil
	return p
}

func (l *Log) tree() (*ref.Tree, uint64) {
	l.mu.Lock()
	defer l.mu.Unlock()
	return l.trees[l.branch], l.size
}

// Checkpoint returns the signed checkpoint note currently published.
func (l *Log) Checkpoint() []byte {
	if l.CheckpointOverride != nil {
		return l.CheckpointOverride()
	}
	t, n := l.tree()
	r := t.Root(n)
	text := ref.CheckpointText(l.Origin, n, r[:], "")
	return []byte(text + "\n" + l.Key.SignLegacy(text))
}

func (l *Log) record(r *http.Request) {
	l.mu.Lock()
	l.paths = append(l.paths, r.URL.Path)
	l.mu.Unlock()
}

// node returns the hash of the complete subtree of the given level and index.
func node(t *ref.Tree, level int, n int64) tlog.Hash {
	lo := uint64(n) << uint(level)
	return tlog.Hash(t.MTH(lo, lo+(uint64(1)<<uint(level))))
}

// ---- Go SumDB ----

type sumdbOps struct{ l *Log }

func (o sumdbOps) Signed(ctx context.Context) ([]byte, error) { return o.l.Checkpoint(), nil }
func (o sumdbOps) ReadRecords(ctx context.Context, id, n int64) ([][]byte, error) {
	return nil, fmt.Errorf("records are not served")
}
func (o sumdbOps) Lookup(ctx context.Context, m module.Version) (int64, error) {
	return 0, fmt.Errorf("lookup is not served")
}
func (o sumdbOps) ReadTileData(ctx context.Context, t tlog.Tile) ([]byte, error) {
	tr, size := o.l.tree()
	if t.L >= 0 {
		// refuse tiles that reach beyond the published tree
		if (uint64(t.N)*uint64(1<<uint(t.H))+uint64(t.W))<<uint(t.H*t.L) > size {
			return nil, fmt.Errorf("tile beyond tree size")
		}
	}
	return tlog.ReadTileData(t, tlog.HashReaderFunc(func(indexes []int64) ([]tlog.Hash, error) {
		out := make([]tlog.Hash, len(indexes))
		for i, x := range indexes {
			lv, n := tlog.SplitStoredHashIndex(x)
			out[i] = node(tr, lv, n)
		}
		return out, nil
	}))
}

// SumDBHandler serves /latest and /tile/... through x/mod's reference server.
func (l *Log) SumDBHandler() http.Handler {
	srv := sumdb.NewServer(sumdbOps{l})
	return http.HandlerFunc(func(w http.ResponseWriter, r *http.Request) {
		l.record(r)
		if h := l.hostile(); h != nil && h(w, r) {
			return
		}
		srv.ServeHTTP(w, r)
	})
}

// ---- C2SP tlog-tiles ----

// parseTilePath parses "<L>/<N in x%03d groups>[.p/<W>]".
func parseTilePath(p string) (level int, index uint64, width int, err error) {
	parts := strings.Split(p, "/")
	if len(parts) < 2 {
		return 0, 0, 0, fmt.Errorf("short tile path")
	}
	level, err = strconv.Atoi(parts[0])
	if err != nil || level < 0 || level > 63 {
		return 0, 0, 0, fmt.Errorf("bad level")
	}
	width = 256
	rest := parts[1:]
	if n := len(rest); n >= 2 && strings.HasSuffix(rest[n-2], ".p") {
		width, err = strconv.Atoi(rest[n-1])
		if err != nil || width < 1 || width > 255 {
			return 0, 0, 0, fmt.Errorf("bad width")
		}
		rest = append(append([]string{}, rest[:n-2]...), strings.TrimSuffix(rest[n-2], ".p"))
	}
	for i, g := range rest {
		last := i == len(rest)-1
		if !last {
			if !strings.HasPrefix(g, "x") {
				return 0, 0, 0, fmt.Errorf("bad group")
			}
			g = g[1:]
		}
		if len(g) != 3 {
			return 0, 0, 0, fmt.Errorf("bad group length")
		}
		v, e := strconv.Atoi(g)
		if e != nil {
			return 0, 0, 0, e
		}
		index = index*1000 + uint64(v)
	}
	return level, index, width, nil
}

// TilesHandler serves /checkpoint and /tile/<L>/<N>[.p/<W>].
func (l *Log) TilesHandler() http.Handler {
	return http.HandlerFunc(func(w http.ResponseWriter, r *http.Request) {
		l.record(r)
		if h := l.hostile(); h != nil && h(w, r) {
			return
		}
		p := strings.TrimPrefix(r.URL.Path, "/")
		switch {
		case p == "checkpoint":
			w.Write(l.Checkpoint())
		case strings.HasPrefix(p, "tile/"):
			level, index, width, err := parseTilePath(strings.TrimPrefix(p, "tile/"))
			if err != nil {
				http.Error(w, err.Error(), 404)
				return
			}
			t, size := l.tree()
			h := uint(8 * level)
			first := index * 256
			// the tile must lie inside the published tree
			if h >= 64 || (first+uint64(width))<<h > size || ((first+uint64(width))<<h)>>h != first+uint64(width) {
				http.Error(w, "tile beyond tree size", 404)
				return
			}
			out := make([]byte, 0, width*32)
			for i := uint64(0); i < uint64(width); i++ {
				lo := (first + i) << h
				hh := t.MTH(lo, lo+(uint64(1)<<h))
				out = append(out, hh[:]...)
			}
			w.Write(out)
		default:
			http.NotFound(w, r)
		}
	})
}

// ---- Pixel binary transparency layout (tlog tiles of height 1, checkpoint.txt) ----

// PixelHandler serves checkpoint.txt and tile/1/<L>/<NNN>[.p/<W>].
func (l *Log) PixelHandler() http.Handler {
	return http.HandlerFunc(func(w http.ResponseWriter, r *http.Request) {
		l.record(r)
		if h := l.hostile(); h != nil && h(w, r) {
			return
		}
		p := strings.TrimPrefix(r.URL.Path, "/")
		if p == "checkpoint.txt" {
			w.Write(l.Checkpoint())
			return
		}
		t, err := tlog.ParseTilePath(p)
		if err != nil {
			http.NotFound(w, r)
			return
		}
		tr, size := l.tree()
		if (uint64(t.N)*uint64(1<<uint(t.H))+uint64(t.W))<<uint(t.H*t.L) > size {
			http.Error(w, "tile beyond tree size", 404)
			return
		}
		data, err := tlog.ReadTileData(t, tlog.HashReaderFunc(func(idx []int64) ([]tlog.Hash, error) {
			out := make([]tlog.Hash, len(idx))
			for i, x := range idx {
				lv, n := tlog.SplitStoredHashIndex(x)
				out[i] = node(tr, lv, n)
			}
			return out, nil
		}))
		if err != nil {
			http.Error(w, err.Error(), 404)
			return
		}
		w.Write(data)
	})
}

// ---- Rekor ----

// RekorHandler serves api/v1/log and api/v1/log/proof for tree id `treeID`.
func (l *Log) RekorHandler(treeID string) http.Handler {
	return http.HandlerFunc(func(w http.ResponseWriter, r *http.Request) {
		l.record(r)
		if h := l.hostile(); h != nil && h(w, r) {
			return
		}
		switch {
		case r.URL.Path == "/api/v1/log":
			_, size := l.tree()
			b, _ := json.Marshal(map[string]any{"signedTreeHead": string(l.Checkpoint()), "treeID": treeID, "treeSize": size, "rootHash": ""})
			w.Write(b)
		case r.URL.Path == "/api/v1/log/proof":
			first, _ := strconv.ParseUint(r.URL.Query().Get("firstSize"), 10, 64)
			last, _ := strconv.ParseUint(r.URL.Query().Get("lastSize"), 10, 64)
			tr, size := l.tree()
			if first == 0 || first > last || last > size {
				http.Error(w, "bad sizes", 400)
				return
			}
			hashes := []string{}
			for _, h := range tr.ConsistencyProof(first, last) {
				hashes = append(hashes, hex.EncodeToString(h))
			}
			b, _ := json.Marshal(map[string]any{"hashes": hashes})
			w.Write(b)
		default:
			http.NotFound(w, r)
		}
	})
}

// FrontEnd puts what real deployments put in front of a log between the feeder and the stub: "gzip" compresses bodies of 256 bytes or more for
// clients that accept it (a CDN, a reverse proxy with compression on); "redirect" answers every request outside /canonical with a 301 to the
// same path under /canonical (moved hosting, canonicalised URLs). "plain" is the handler itself.
func FrontEnd(h http.Handler, mode string) http.Handler {
	switch mode {
	case "gzip":
		return http.HandlerFunc(func(rw http.ResponseWriter, r *http.Request) {
			rec := httptest.NewRecorder()
			h.ServeHTTP(rec, r)
			for k, v := range rec.Header() {
				rw.Header()[k] = v
			}
			body := rec.Body.Bytes()
			if strings.Contains(r.Header.Get("Accept-Encoding"), "gzip") && len(body) >= 256 && rec.Code == 200 {
				var buf bytes.Buffer
				zw := gzip.NewWriter(&buf)
				zw.Write(body)
				zw.Close()
				rw.Header().Set("Content-Encoding", "gzip")
				rw.Header().Del("Content-Length")
				rw.WriteHeader(rec.Code)
				rw.Write(buf.Bytes())
				return
			}
			rw.WriteHeader(rec.Code)
			rw.Write(body)
		})
	case "prefix":
		// the log lives below a path of its host (https://host/logs/name/...): everything else on the host is 404
		return http.HandlerFunc(func(rw http.ResponseWriter, r *http.Request) {
			if r.URL.Path != MountPoint && !strings.HasPrefix(r.URL.Path, MountPoint+"/") {
				http.NotFound(rw, r)
				return
			}
			r2 := r.Clone(r.Context())
			r2.URL.Path = strings.TrimPrefix(r.URL.Path, MountPoint)
			r2.URL.RawPath = ""
			h.ServeHTTP(rw, r2)
		})
	case "slowonce":
		// the FIRST request for every data URL is answered only after 600 ms (longer than the timeout the harness gives the HTTP client of the
		// feeders behind this front end), every later one at once: a slow moment of the log, with plenty of the cycle's time left
		var mu sync.Mutex
		seen := map[string]bool{}
		return http.HandlerFunc(func(rw http.ResponseWriter, r *http.Request) {
			u := r.URL.Path + "?" + r.URL.RawQuery
			p := strings.TrimRight(r.URL.Path, "/")
			isCP := strings.HasSuffix(p, "/checkpoint") || strings.HasSuffix(p, "/latest") || strings.HasSuffix(p, "/checkpoint.txt") || strings.HasSuffix(p, "/api/v1/log")
			mu.Lock()
			first := !seen[u]
			seen[u] = true
			mu.Unlock()
			if first && !isCP {
				select {
				case <-time.After(600 * time.Millisecond):
				case <-r.Context().Done():
					return
				}
			}
			h.ServeHTTP(rw, r)
		})
	case "flaky":
		// transient trouble in front of the log (a CDN edge that does not have the object yet, a gateway restarting): the FIRST request for every
		// data URL (tiles, proofs - anything but the checkpoint itself) is answered with a 503 that carries a body, as such error pages do;
		// every later request for it is answered normally
		var mu sync.Mutex
		seen := map[string]bool{}
		return http.HandlerFunc(func(rw http.ResponseWriter, r *http.Request) {
			u := r.URL.Path + "?" + r.URL.RawQuery
			p := strings.TrimRight(r.URL.Path, "/")
			isCP := strings.HasSuffix(p, "/checkpoint") || strings.HasSuffix(p, "/latest") || strings.HasSuffix(p, "/checkpoint.txt") || strings.HasSuffix(p, "/api/v1/log")
			mu.Lock()
			first := !seen[u]
			seen[u] = true
			mu.Unlock()
			if first && !isCP {
				rw.Header().Set("Content-Type", "text/html")
				rw.WriteHeader(http.StatusServiceUnavailable)
				rw.Write([]byte("<html><body><h1>503 Service Temporarily Unavailable</h1></body></html>\n"))
				return
			}
			h.ServeHTTP(rw, r)
		})
	case "redirect":
		return http.HandlerFunc(func(rw http.ResponseWriter, r *http.Request) {
			if !strings.HasPrefix(r.URL.Path, "/canonical/") {
				u := "/canonical" + r.URL.Path
				if r.URL.RawQuery != "" {
					u += "?" + r.URL.RawQuery
				}
				http.Redirect(rw, r, u, http.StatusMovedPermanently)
				return
			}
			r2 := r.Clone(r.Context())
			r2.URL.Path = strings.TrimPrefix(r.URL.Path, "/canonical")
			r2.URL.RawPath = ""
			h.ServeHTTP(rw, r2)
		})
	}
	return h
}

// MountPoint is where the "prefix" front end serves the log; URLOf gives the URL to configure for a front end mode.
const MountPoint = "/logs/verif.mounted"

func URLOf(base, mode string) string {
	if mode == "prefix" {
		return base + MountPoint
	}
	return base
}
