// Package world is the concretiser and the projection (the abstraction function)
// between the TLA+ model's values and real bytes: abstract sizes are embedded into
// uint64 by strictly increasing maps, branches become sparse RFC 6962 trees, requests
// become signed checkpoint notes and proofs, and stored bytes are projected back.
package world

import (
	"crypto/sha256"
	"encoding/base64"
	"encoding/binary"
	"fmt"
	"math/rand"
	"sort"
	"strings"

	"github.com/transparency-dev/witness/verifharness/internal/ref"
)

// Pf is an abstract proof.
type Pf struct {
	K    string `json:"k"`
	B    int    `json:"b,omitempty"`
	M    int    `json:"m,omitempty"`
	N    int    `json:"n,omitempty"`
	Kind string `json:"kind,omitempty"`
}

// MarshalJSON renders exactly the model's records Empty, Right(b,m,n) and Bad(kind).
func (p Pf) MarshalJSON() ([]byte, error) {
	switch p.K {
	case "right":
		return []byte(fmt.Sprintf(`{"k":"right","b":%d,"m":%d,"n":%d}`, p.B, p.M, p.N)), nil
	case "bad":
		return []byte(fmt.Sprintf(`{"k":"bad","kind":%q}`, p.Kind)), nil
	}
	return []byte(`{"k":"empty"}`), nil
}

// Req is an abstract update request (the model's record).
type Req struct {
	Auth  string `json:"auth"`
	Old   int    `json:"old"`
	B     int    `json:"b"`
	N     int    `json:"n"`
	Extra int    `json:"extra"`
	Stale int    `json:"stale"`
	Ext   int    `json:"ext"`
	Pf    Pf     `json:"pf"`
}

// CP is an abstract stored checkpoint, or None.
type CP struct {
	None  bool `json:"none,omitempty"`
	B     int  `json:"b"`
	N     int  `json:"n"`
	Lines int  `json:"lines"`
	Ext   int  `json:"ext"`
}

// MarshalJSON renders None as {"none":true} and a value without the none field.
func (c CP) MarshalJSON() ([]byte, error) {
	if c.None {
		return []byte(`{"none":true}`), nil
	}
	return []byte(fmt.Sprintf(`{"b":%d,"n":%d,"lines":%d,"ext":%d}`, c.B, c.N, c.Lines, c.Ext)), nil
}

// Params are the model constants a world is built for.
type Params struct {
	Logs     []string // abstract log names, e.g. l1, l2
	KeyOf    map[string]string
	MaxSize  int
	NBranch  int
	ForkAt   []int // ForkAt[b-1] for b in 1..NBranch-1
	MaxLines int
	NWitKeys int
	Embed    string // id | pow2 | mixed | huge
	Seed     int64
	RunTag   string            // makes origins (hence log ids and counters) unique per run
	Sigma    []uint64          `json:"Sigma,omitempty"`   // explicit embedding (overrides Embed)
	Origins  map[string]string `json:"Origins,omitempty"` // fixed origins (e.g. the Go SumDB's)
	// BigExt: every sixth checkpoint with extension lines carries one of 17 KiB (legal: the witness and the read API have no size limit; only
	// the add-checkpoint endpoint caps its request bodies, so the drivers that go through it leave this off)
	BigExt bool `json:"BigExt,omitempty"`
}

// LogW is one configured log.
type LogW struct {
	Name   string
	Origin string
	ID     string
	Key    *ref.Key
	Trees  []*ref.Tree // per real branch
	seed   string
	roots  map[string][2]int // size|root -> (canonical b, n)
}

// World holds keys, trees and the size embedding of one run.
type World struct {
	P       Params
	Sigma   []uint64 // Sigma[k] for k in 0..MaxSize
	Logs    map[string]*LogW
	WitKey  *ref.Key
	Unknown *ref.Key
	Rng     *rand.Rand
}

const realMaxLines = 100

var pools = map[string][]uint64{
	"pow2":  {1, 2, 3, 4, 5, 7, 8, 9, 15, 16, 17, 31, 32, 33, 63, 64, 65, 127, 128, 129, 255, 256, 257, 511, 512, 513, 1023, 1024, 1025, 4095, 4096, 4097, 65535, 65536, 65537},
	"mixed": {1, 2, 3, 5, 8, 13, 100, 255, 256, 257, 1000, 4096, 65535, 65536, 65537, 1 << 20, 1<<24 + 1, 1 << 32, 1<<40 - 1, 1 << 40, 1<<40 + 1},
	"huge":  {1, 2, 255, 256, 65537, 1<<32 - 1, 1 << 32, 1<<40 + 1, 1<<61 + 12345, 1<<62 - 1, 1 << 62, 1<<62 + 1, 1<<63 - 2, 1<<63 - 1},
}

// Embedding returns a strictly increasing map 0..maxSize -> uint64 fixing 0.
func Embedding(kind string, maxSize int, rng *rand.Rand) []uint64 {
	s := make([]uint64, maxSize+1)
	if kind == "id" || kind == "" {
		for i := range s {
			s[i] = uint64(i)
		}
		return s
	}
	pool := pools[kind]
	if pool == nil {
		panic("unknown embedding " + kind)
	}
	set := map[uint64]bool{}
	for len(set) < maxSize {
		if len(set) < len(pool) && rng.Intn(4) != 0 {
			set[pool[rng.Intn(len(pool))]] = true
		} else {
			hi := pool[len(pool)-1]
			v := rng.Uint64()%hi + 1
			set[v] = true
		}
	}
	vals := make([]uint64, 0, maxSize)
	for v := range set {
		vals = append(vals, v)
	}
	sort.Slice(vals, func(i, j int) bool { return vals[i] < vals[j] })
	copy(s[1:], vals)
	return s
}

// New builds a world.
func New(p Params) *World {
	rng := rand.New(rand.NewSource(p.Seed))
	w := &World{P: p, Rng: rng, Logs: map[string]*LogW{}}
	if len(p.Sigma) == p.MaxSize+1 {
		w.Sigma = p.Sigma
	} else {
		w.Sigma = Embedding(p.Embed, p.MaxSize, rng)
	}
	w.WitKey = ref.NewKey("witness.verif.example", "witness")
	w.Unknown = ref.NewKey("stranger.verif.example", "stranger")
	for _, name := range p.Logs {
		keyLabel := name
		if k, ok := p.KeyOf[name]; ok {
			keyLabel = k
		}
		origin := "verif.example/" + p.RunTag + "/" + name
		if o, ok := p.Origins[name]; ok {
			origin = o
		}
		l := &LogW{Name: name, Origin: origin, seed: "tree/" + name,
			Key: ref.NewKey("logkey-"+keyLabel, "log/"+keyLabel), roots: map[string][2]int{}}
		l.ID = ref.LogID(l.Origin)
		l.Trees = append(l.Trees, ref.NewTree(l.seed, 0, ref.NoFork, 4096))
		for b := 1; b < p.NBranch; b++ {
			l.Trees = append(l.Trees, ref.NewTree(l.seed, b, w.Sigma[p.ForkAt[b-1]], 4096))
		}
		for b := p.NBranch - 1; b >= 0; b-- { // smaller b wins: canonical branch
			for n := 0; n <= p.MaxSize; n++ {
				r := l.Trees[b].Root(w.Sigma[n])
				l.roots[rootKey(w.Sigma[n], r[:])] = [2]int{w.CanonB(b, n), n}
			}
		}
		for n := 0; n <= p.MaxSize; n++ {
			l.roots[rootKey(w.Sigma[n], w.JunkRoot(l, n))] = [2]int{p.NBranch, n}
		}
		w.Logs[name] = l
	}
	return w
}

func rootKey(size uint64, root []byte) string {
	return fmt.Sprintf("%d|%x", size, root)
}

// ForRun returns a copy of the world whose origins (hence log ids) are unique to
// the run and whose random choices are seeded separately; trees and root tables are shared.
func (w *World) ForRun(tag string, seed int64) *World {
	c := *w
	c.P.RunTag = tag
	c.Rng = rand.New(rand.NewSource(seed))
	c.Logs = map[string]*LogW{}
	for name, l := range w.Logs {
		lc := *l
		if _, fixed := w.P.Origins[name]; !fixed {
			lc.Origin = "verif.example/" + tag + "/" + name
		}
		lc.ID = ref.LogID(lc.Origin)
		c.Logs[name] = &lc
	}
	return &c
}

// WithSigma returns a copy of a fork-free world (NBranch = 1) with another size embedding; trees are shared,
// the root tables are recomputed (cheap: MaxSize+1 roots per log).
func (w *World) WithSigma(sigma []uint64) *World {
	if w.P.NBranch != 1 || len(sigma) != w.P.MaxSize+1 {
		panic("WithSigma needs a fork-free world and MaxSize+1 sizes")
	}
	c := *w
	c.Sigma = sigma
	c.Logs = map[string]*LogW{}
	for name, l := range w.Logs {
		lc := *l
		lc.roots = map[string][2]int{}
		for n := 0; n <= w.P.MaxSize; n++ {
			r := lc.Trees[0].Root(sigma[n])
			lc.roots[rootKey(sigma[n], r[:])] = [2]int{0, n}
			lc.roots[rootKey(sigma[n], c.JunkRoot(&lc, n))] = [2]int{1, n}
		}
		c.Logs[name] = &lc
	}
	return &c
}

// CanonB mirrors the model's CanonB.
func (w *World) CanonB(b, n int) int {
	if b == w.P.NBranch || b == 0 {
		return b
	}
	if n <= w.P.ForkAt[b-1] {
		return 0
	}
	return b
}

// JunkRoot is a root that is the root of no generated tree.
func (w *World) JunkRoot(l *LogW, n int) []byte {
	h := sha256.Sum256([]byte(fmt.Sprintf("junk/%s/%d", l.seed, n)))
	return h[:]
}

// Root returns the concrete root of abstract tree (b, n) of log l.
func (w *World) Root(l *LogW, b, n int) []byte {
	if b == w.P.NBranch {
		return w.JunkRoot(l, n)
	}
	r := l.Trees[b].Root(w.Sigma[n])
	return r[:]
}

// OldSize embeds an abstract old size; MaxSize+1 means "above everything".
func (w *World) OldSize(old int) uint64 {
	if old <= w.P.MaxSize {
		return w.Sigma[old]
	}
	if w.Rng.Intn(2) == 0 {
		return ^uint64(0)
	}
	return w.Sigma[w.P.MaxSize] + uint64(old-w.P.MaxSize)
}

// lineShift maps abstract line counts onto the real limit of 100.
func (w *World) lineShift() int { return realMaxLines - w.P.MaxLines }

// RealExtra is the number of real extra signature lines for an abstract count.
func (w *World) RealExtra(e int) int {
	if e <= 1 {
		return e
	}
	return e + w.lineShift()
}

// AbsLines maps a real number of signature lines to the abstract count.
func (w *World) AbsLines(real int) int {
	if real <= 50 {
		return real
	}
	return real - w.lineShift()
}

const extText = "verif-extension line one 100%s %d%% %v\nanother extension line with trailing blanks   \n"

// Concrete is a concretised request.
type Concrete struct {
	LogID   string
	OldSize uint64
	CP      []byte
	Proof   [][]byte
	Text    string // the text the log signed ("" if none is meaningful)
	Size    uint64
	Root    []byte
	Note    string // how the request was rendered (for replay files)
}

// Concretise turns an abstract request for log name `log` ("unknown" = an id that is not configured).
func (w *World) Concretise(log string, r Req, stored *CP) Concrete {
	var l *LogW
	id := ""
	if lw, ok := w.Logs[log]; ok {
		l, id = lw, lw.ID
	} else {
		l = w.Logs[w.P.Logs[0]]
		id = ref.LogID("verif.example/" + w.P.RunTag + "/not-configured")
		// ... or another SPELLING of a configured log's id (the note below is that log's own, genuinely signed): letter case, surrounding
		// white space. An id is a name, not a pattern: whatever is not the configured id is not configured (C12: one identity per log).
		switch w.Rng.Intn(6) {
		case 0:
			id = strings.ToUpper(l.ID)
		case 1:
			id = l.ID + " "
		case 2:
			id = " " + l.ID
		case 3:
			id = l.ID + "\n"
		}
	}
	c := Concrete{LogID: id, OldSize: w.OldSize(r.Old), Size: w.Sigma[r.N], Root: w.Root(l, r.B, r.N)}
	aliasNote := ""
	if r.B == w.P.NBranch && r.Auth == "good" {
		// a junk root is "a log-signed root that is the root of no tree OF THAT SIZE": besides random bytes it is also
		// rendered as a root that IS known - the stored checkpoint's root, or a generated tree's root - at another size
		switch k := w.Rng.Intn(4); {
		case k == 0 && stored != nil && !stored.None && stored.N != r.N && stored.N <= w.P.MaxSize && stored.B <= w.P.NBranch:
			c.Root, aliasNote = w.Root(l, stored.B, stored.N), "/junk=stored-root-at-another-size"
		case k == 1 && w.P.MaxSize >= 1 && stored != nil && !stored.None && stored.N != r.N:
			m := (r.N + 1 + w.Rng.Intn(w.P.MaxSize)) % (w.P.MaxSize + 1)
			if m != r.N {
				c.Root, aliasNote = w.Root(l, w.Rng.Intn(w.P.NBranch), m), "/junk=tree-root-of-another-size"
			}
		}
	}
	ext := ""
	if r.Ext == 1 {
		ext = extText
		if w.Rng.Intn(3) == 0 {
			// extension data may contain an EMPTY line (a note is split from its signatures at the LAST blank line, not the first)
			ext = "verif-extension before an empty line\n\n" + extText
		} else if w.P.BigExt && w.Rng.Intn(5) == 0 {
			ext = extText + "big " + strings.Repeat("0123456789abcdef", 1100) + "\n"
		}
	}
	text := ref.CheckpointText(l.Origin, c.Size, c.Root, ext)
	c.Text = text
	sigs := l.Key.SignLegacy(text)
	renderNote := r.Auth
	switch r.Auth {
	case "good":
	case "badsig":
		n, _ := ref.ParseNote([]byte(text + "\n" + sigs))
		raw := append([]byte{}, n.Sigs[0].Raw...)
		raw[w.Rng.Intn(len(raw))] ^= 1 << uint(w.Rng.Intn(8))
		sigs = l.Key.SigLine(ref.AlgEd25519, raw)
	case "badtext":
		// the signature is over another text (size or root or origin edited after signing)
		switch w.Rng.Intn(3) {
		case 0:
			text = ref.CheckpointText(l.Origin, c.Size+1, c.Root, ext)
			renderNote += "/size"
		case 1:
			rr := append([]byte{}, c.Root...)
			rr[w.Rng.Intn(len(rr))] ^= 0x40
			text = ref.CheckpointText(l.Origin, c.Size, rr, ext)
			renderNote += "/root"
		default:
			text = ref.CheckpointText(l.Origin, c.Size, c.Root, ext+"appended after signing\n")
			renderNote += "/ext"
		}
	case "unknownkey":
		k := w.Unknown
		if w.Rng.Intn(2) == 0 { // same name as the log key, different key material
			k = ref.NewKey(l.Key.Name, "impostor")
			renderNote += "/samename"
		}
		sigs = k.SignLegacy(text)
	case "peercp":
		// a valid checkpoint of another configured log (other key, or same key under another origin)
		var peer *LogW
		for _, name := range w.P.Logs {
			if name != log {
				peer = w.Logs[name]
				break
			}
		}
		if peer != nil {
			text = ref.CheckpointText(peer.Origin, c.Size, w.Root(peer, minInt(r.B, w.P.NBranch), r.N), ext)
			sigs = peer.Key.SignLegacy(text)
			renderNote += "/" + peer.Name
		} else {
			text = ref.CheckpointText(l.Origin+"/other", c.Size, c.Root, ext)
			sigs = l.Key.SignLegacy(text)
			renderNote += "/wrongorigin"
		}
	case "wrongorigin":
		// the right key, another origin: one that extends, shortens, case-varies or pads the configured one
		o := []string{l.Origin + "/shard2", l.Origin[:len(l.Origin)-1], strings.ToUpper(l.Origin), l.Origin + " ", " " + l.Origin, l.Origin + "/"}[w.Rng.Intn(6)]
		text = ref.CheckpointText(o, c.Size, c.Root, ext)
		sigs = l.Key.SignLegacy(text)
		renderNote += fmt.Sprintf("/%q", o)
	case "peerkey":
		// THIS log's origin, signed by the key of ANOTHER configured log (or, with one log, by the witness' key)
		k := w.WitKey
		for _, name := range w.P.Logs {
			if name != log && w.Logs[name].Key.Name != l.Key.Name {
				k = w.Logs[name].Key
			}
		}
		sigs = k.SignLegacy(text)
		renderNote += "/" + k.Name
	case "witonly":
		// signed by the witness itself (a cosignature and a legacy line), not by the log
		sigs = w.WitKey.SignLegacy(text) + w.WitKey.SignCosigV1(text, 1700000000)
	case "nosig":
		switch w.Rng.Intn(3) {
		case 0:
			sigs = ""
			renderNote += "/blockempty"
		case 1:
			c.CP = []byte(text)
			renderNote += "/textonly"
		default:
			sigs = strings.TrimSuffix(sigs, "\n")
			renderNote += "/nonewline"
		}
	case "hashflip":
		n, _ := ref.ParseNote([]byte(text + "\n" + sigs))
		var hb [4]byte
		binary.BigEndian.PutUint32(hb[:], n.Sigs[0].Hash^1)
		sigs = "— " + l.Key.Name + " " + base64.StdEncoding.EncodeToString(append(hb[:], n.Sigs[0].Raw...)) + "\n"
	case "truncated":
		// the valid note cut at a line boundary (every boundary is tried over the seeds) or in the middle of a line
		full := text + "\n" + sigs
		var cuts []int
		for i := 0; i < len(full)-1; i++ {
			if full[i] == '\n' {
				cuts = append(cuts, i+1)
			}
		}
		cut := cuts[w.Rng.Intn(len(cuts))]
		if w.Rng.Intn(4) == 0 {
			cut = 1 + w.Rng.Intn(len(full)-2)
		}
		c.CP = []byte(full[:cut])
		renderNote += fmt.Sprintf("/cut@%d", cut)
	case "trailingblank":
		// the valid, validly signed note followed by one or more blank lines: not a note any more (a note ends with its last signature line);
		// whoever hands the checkpoint bytes on "as written" hands on something the witness cannot open
		c.CP = []byte(text + "\n" + sigs + strings.Repeat("\n", 1+w.Rng.Intn(3)))
		renderNote += "/trailing-blank-lines"
	case "lineedit":
		// lines of the signed text swapped, duplicated or removed after signing
		ls := strings.Split(strings.TrimSuffix(text, "\n"), "\n")
		switch w.Rng.Intn(3) {
		case 0:
			ls[1], ls[2] = ls[2], ls[1]
		case 1:
			ls = append(ls[:2], ls[1:]...)
		default:
			ls = append(ls[:1], ls[2:]...)
		}
		text = strings.Join(ls, "\n") + "\n"
	case "garbage":
		b := make([]byte, 40+w.Rng.Intn(200))
		w.Rng.Read(b)
		c.CP = b
	default:
		panic("unknown auth class " + r.Auth)
	}
	if c.CP == nil {
		var sb strings.Builder
		sb.WriteString(text)
		sb.WriteString("\n")
		extraFirst := w.Rng.Intn(2) == 0
		extra := w.extraLines(w.RealExtra(r.Extra))
		if extraFirst {
			sb.WriteString(extra)
		}
		sb.WriteString(sigs)
		if r.Stale == 1 {
			sb.WriteString(w.staleLines(text))
		}
		if !extraFirst {
			sb.WriteString(extra)
		}
		c.CP = []byte(sb.String())
	}
	c.Proof = w.proof(l, r, stored)
	c.Note = renderNote + aliasNote
	return c
}

func minInt(a, b int) int {
	if a < b {
		return a
	}
	return b
}

func (w *World) extraLines(n int) string {
	var sb strings.Builder
	for i := 0; i < n; i++ {
		k := ref.NewKey(fmt.Sprintf("cosigner%03d.verif.example", i), fmt.Sprintf("pad/%d", i))
		sig := make([]byte, 64)
		w.Rng.Read(sig)
		sb.WriteString(k.SigLine(ref.AlgEd25519, sig))
	}
	return sb.String()
}

// staleLines are old or forged lines under the witness' own key names and hashes.
func (w *World) staleLines(text string) string {
	var sb strings.Builder
	if w.P.NWitKeys >= 2 {
		sig := make([]byte, 64)
		w.Rng.Read(sig)
		sb.WriteString(w.WitKey.SigLine(ref.AlgEd25519, sig))
	}
	if w.Rng.Intn(2) == 0 {
		sb.WriteString(w.WitKey.SignCosigV1(text, 1600000000)) // a genuine, old cosignature of this witness
	} else {
		// a line under the witness' cosignature/v1 key id that does not verify
		sig := make([]byte, 72)
		w.Rng.Read(sig)
		sb.WriteString(w.WitKey.SigLine(ref.AlgCosigV1, sig))
	}
	return sb.String()
}

func (w *World) proof(l *LogW, r Req, stored *CP) [][]byte {
	switch r.Pf.K {
	case "empty":
		return [][]byte{}
	case "right":
		return l.Trees[r.Pf.B].ConsistencyProof(w.Sigma[r.Pf.M], w.Sigma[r.Pf.N])
	case "bad":
		var base [][]byte
		tb := r.B
		if tb >= w.P.NBranch {
			tb = 0
		}
		if stored != nil && !stored.None && stored.N >= 1 && stored.N < r.N {
			base = l.Trees[tb].ConsistencyProof(w.Sigma[stored.N], w.Sigma[r.N])
		} else if r.N >= 2 {
			base = l.Trees[tb].ConsistencyProof(w.Sigma[1], w.Sigma[r.N])
		}
		cp := make([][]byte, len(base))
		for i := range base {
			cp[i] = append([]byte{}, base[i]...)
		}
		rnd := func() []byte { b := make([]byte, 32); w.Rng.Read(b); return b }
		switch r.Pf.Kind {
		case "flip":
			if len(cp) == 0 {
				return [][]byte{rnd()}
			}
			h := cp[w.Rng.Intn(len(cp))]
			h[w.Rng.Intn(32)] ^= 1 << uint(w.Rng.Intn(8))
			return cp
		case "drop":
			if len(cp) < 2 {
				return [][]byte{rnd()}
			}
			i := w.Rng.Intn(len(cp))
			return append(cp[:i], cp[i+1:]...)
		case "add":
			i := w.Rng.Intn(len(cp) + 1)
			out := append([][]byte{}, cp[:i]...)
			out = append(out, rnd())
			return append(out, cp[i:]...)
		case "short":
			return [][]byte{{1, 2, 3, 4, 5}}
		case "long64", "long100":
			// more hashes than any proof between two 64-bit sizes can have (63): well-formed lines, certainly not a valid proof
			n := 64
			if r.Pf.Kind == "long100" {
				n = 100
			}
			out := append([][]byte{}, cp...)
			for len(out) < n {
				out = append(out, rnd())
			}
			return out
		default: // random
			n := len(cp)
			if n == 0 {
				n = 1 + w.Rng.Intn(3)
			}
			out := make([][]byte, n)
			for i := range out {
				out[i] = rnd()
			}
			return out
		}
	}
	panic("unknown proof class " + r.Pf.K)
}

// Projection of a stored / returned note of log l.
type Projection struct {
	CP          CP
	OK          bool // parsed and recognised
	Text        string
	LogSigValid bool
	WitLegacy   int // number of valid legacy lines by the witness key
	WitCosig    int // number of valid cosignature/v1 lines by the witness key
	WitForged   int // lines under a witness key id that do not verify
	CosigTime   uint64
	RealLines   int
}

// Project maps note bytes held for log l to the abstract checkpoint and the concrete facts.
func (w *World) Project(l *LogW, raw []byte) Projection {
	p := Projection{CP: CP{B: 99, N: 99, Lines: 99, Ext: 99}}
	n, err := ref.ParseNote(raw)
	if err != nil {
		return p
	}
	p.Text = n.Text
	p.RealLines = len(n.Sigs)
	for _, s := range n.Sigs {
		if l.Key.VerifyLegacy(n.Text, s) {
			p.LogSigValid = true
		}
		if s.Name == w.WitKey.Name && s.Hash == w.WitKey.KeyHash(ref.AlgEd25519) {
			if w.WitKey.VerifyLegacy(n.Text, s) {
				p.WitLegacy++
			} else {
				p.WitForged++
			}
		}
		if s.Name == w.WitKey.Name && s.Hash == w.WitKey.KeyHash(ref.AlgCosigV1) {
			if ok, t := w.WitKey.VerifyCosigV1(n.Text, s); ok {
				p.WitCosig++
				p.CosigTime = t
			} else {
				p.WitForged++
			}
		}
	}
	cp, err := ref.ParseCheckpointText(n.Text)
	if err != nil || cp.Origin != l.Origin {
		return p
	}
	bn, ok := l.roots[rootKey(cp.Size, cp.Root)]
	if !ok {
		return p
	}
	p.OK = true
	ext := 0
	if cp.Ext != "" {
		ext = 1
	}
	p.CP = CP{B: bn[0], N: bn[1], Lines: w.AbsLines(len(n.Sigs)), Ext: ext}
	return p
}

// WitnessSignsText reports whether any line of raw is a valid witness signature over text.
func (w *World) WitnessSignsText(raw []byte, text string) bool {
	n, err := ref.ParseNote(raw)
	if err != nil {
		return false
	}
	for _, s := range n.Sigs {
		if w.WitKey.VerifyLegacy(text, s) {
			return true
		}
		if ok, _ := w.WitKey.VerifyCosigV1(text, s); ok {
			return true
		}
	}
	return false
}

// Coincides reports that a replayed genuine proof (for other sizes than this step's) is,
// as bytes, a valid proof for this step under the current embedding.
func (w *World) Coincides(log string, r Req, stored *CP, c Concrete) bool {
	l, ok := w.Logs[log]
	if !ok || stored == nil || stored.None || r.Pf.K != "right" || r.Auth != "good" {
		return false
	}
	if stored.B >= w.P.NBranch || stored.N > w.P.MaxSize || stored.N < 1 || stored.N >= r.N {
		return false
	}
	if r.Pf.M == stored.N && r.Pf.N == r.N {
		return false
	}
	return ref.VerifyConsistency(w.Sigma[stored.N], c.Size, c.Proof, w.Root(l, stored.B, stored.N), c.Root)
}
