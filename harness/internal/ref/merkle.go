// Package ref holds the harness' own, independent reference implementations
// (RFC 6962 Merkle trees over sparse leaf sets, consistency proofs, a
// consistency verifier, the signed-note format). Nothing here imports the
// code under verification or its dependencies.
package ref

import (
	"bytes"
	"crypto/sha256"
	"encoding/binary"
	"math/bits"
	"strconv"
	"sync"
)

// Hash is a SHA-256 digest.
type Hash = [32]byte

func leafHash(d []byte) Hash { return sha256.Sum256(append([]byte{0}, d...)) }

func nodeHash(l, r Hash) Hash {
	b := make([]byte, 0, 65)
	b = append(b, 1)
	b = append(b, l[:]...)
	b = append(b, r[:]...)
	return sha256.Sum256(b)
}

// EmptyRoot is MTH({}).
func EmptyRoot() Hash { return sha256.Sum256(nil) }

const noFork = ^uint64(0)

// Tree is an RFC 6962 Merkle tree of up to 2^63 leaves. Leaves are piecewise
// defined so that huge trees stay cheap:
//
//	[0, min(dense,fork))      unique leaves of the main history
//	[dense, fork)             one constant "main" leaf
//	[fork, fork+uniq)         unique leaves of this branch
//	[fork+uniq, ...)          one constant leaf of this branch
//
// A main tree has fork = noFork. Two trees built with the same seed agree on
// every leaf below the smaller fork point and on none at or above it.
type Tree struct {
	seed   string
	branch int
	fork   uint64
	dense  uint64
	uniq   uint64
	defM   []Hash // defM[k] = MTH of 2^k constant main leaves
	defB   []Hash
	memo   map[[2]uint64]Hash
	mu     sync.Mutex
}

// NewTree returns branch `branch` forking from the main history after `fork` leaves
// (fork = NoFork for the main history itself).
func NewTree(seed string, branch int, fork uint64, dense uint64) *Tree {
	t := &Tree{seed: seed, branch: branch, fork: fork, dense: dense, uniq: 64, memo: map[[2]uint64]Hash{}}
	t.defM = consts(leafHash([]byte(seed + "/main/const")))
	t.defB = consts(leafHash([]byte(seed + "/branch/" + itoa(branch) + "/const")))
	return t
}

// NoFork marks the main history.
const NoFork = noFork

func itoa(i int) string { return strconv.Itoa(i) }

func consts(l Hash) []Hash {
	d := make([]Hash, 64)
	d[0] = l
	for k := 1; k < 64; k++ {
		d[k] = nodeHash(d[k-1], d[k-1])
	}
	return d
}

// region: 0 main-unique, 1 main-const, 2 branch-unique, 3 branch-const
func (t *Tree) region(i uint64) int {
	if i >= t.fork {
		if i-t.fork < t.uniq {
			return 2
		}
		return 3
	}
	if i < t.dense {
		return 0
	}
	return 1
}

// LeafData returns the bytes of leaf i (what a log would have stored).
func (t *Tree) LeafData(i uint64) []byte {
	var ib [8]byte
	binary.BigEndian.PutUint64(ib[:], i)
	switch t.region(i) {
	case 0:
		return append([]byte(t.seed+"/main/"), ib[:]...)
	case 1:
		return []byte(t.seed + "/main/const")
	case 2:
		return append([]byte(t.seed+"/branch/"+itoa(t.branch)+"/"), ib[:]...)
	default:
		return []byte(t.seed + "/branch/" + itoa(t.branch) + "/const")
	}
}

// LeafHash returns the RFC 6962 leaf hash of leaf i.
func (t *Tree) LeafHash(i uint64) Hash { return leafHash(t.LeafData(i)) }

// MTH returns MTH(D[lo:hi]).
func (t *Tree) MTH(lo, hi uint64) Hash {
	n := hi - lo
	if n == 0 {
		return EmptyRoot()
	}
	if n == 1 {
		return t.LeafHash(lo)
	}
	if n&(n-1) == 0 && lo%n == 0 {
		r := t.region(lo)
		if r == t.region(hi-1) && (r == 1 || r == 3) {
			if r == 1 {
				return t.defM[bits.TrailingZeros64(n)]
			}
			return t.defB[bits.TrailingZeros64(n)]
		}
	}
	key := [2]uint64{lo, hi}
	t.mu.Lock()
	h, ok := t.memo[key]
	t.mu.Unlock()
	if ok {
		return h
	}
	k := uint64(1) << (bits.Len64(n-1) - 1) // largest power of two < n
	h = nodeHash(t.MTH(lo, lo+k), t.MTH(lo+k, hi))
	t.mu.Lock()
	t.memo[key] = h
	t.mu.Unlock()
	return h
}

// Root returns the root hash of the first n leaves.
func (t *Tree) Root(n uint64) Hash { return t.MTH(0, n) }

// ConsistencyProof returns PROOF(m, D[n]) per RFC 6962 section 2.1.2 (0 < m <= n).
func (t *Tree) ConsistencyProof(m, n uint64) [][]byte {
	if m == 0 || m >= n {
		return [][]byte{}
	}
	p := t.subproof(m, 0, n, true)
	if p == nil {
		p = [][]byte{}
	}
	return p
}

func (t *Tree) subproof(m, lo, hi uint64, b bool) [][]byte {
	n := hi - lo
	if m == n {
		if b {
			return nil
		}
		h := t.MTH(lo, hi)
		return [][]byte{h[:]}
	}
	k := uint64(1) << (bits.Len64(n-1) - 1)
	if m <= k {
		h := t.MTH(lo+k, hi)
		return append(t.subproof(m, lo, lo+k, b), h[:])
	}
	h := t.MTH(lo, lo+k)
	return append(t.subproof(m-k, lo+k, hi, false), h[:])
}

// InclusionProof returns PATH(i, D[n]) per RFC 6962 section 2.1.1.
func (t *Tree) InclusionProof(i, n uint64) [][]byte {
	return t.path(i, 0, n)
}

func (t *Tree) path(i, lo, hi uint64) [][]byte {
	n := hi - lo
	if n <= 1 {
		return [][]byte{}
	}
	k := uint64(1) << (bits.Len64(n-1) - 1)
	if i < k {
		h := t.MTH(lo+k, hi)
		return append(t.path(i, lo, lo+k), h[:])
	}
	h := t.MTH(lo, lo+k)
	return append(t.path(i-k, lo+k, hi), h[:])
}

// VerifyConsistency is an independent verifier written from RFC 9162 section
// 2.1.4.2 (not from the merkle library's decomposition-based algorithm).
// The empty tree is consistent with every tree, by an empty proof.
func VerifyConsistency(m, n uint64, proof [][]byte, root1, root2 []byte) bool {
	for _, h := range proof {
		if len(h) != 32 {
			return false
		}
	}
	if m > n {
		return false
	}
	if m == n {
		return len(proof) == 0 && bytes.Equal(root1, root2)
	}
	if m == 0 {
		return len(proof) == 0
	}
	if len(root1) != 32 || len(root2) != 32 {
		return false
	}
	path := make([]Hash, 0, len(proof)+1)
	if m&(m-1) == 0 {
		var h Hash
		copy(h[:], root1)
		path = append(path, h)
	}
	for _, p := range proof {
		var h Hash
		copy(h[:], p)
		path = append(path, h)
	}
	if len(path) == 0 {
		return false
	}
	fn, sn := m-1, n-1
	for fn&1 == 1 {
		fn >>= 1
		sn >>= 1
	}
	fr, sr := path[0], path[0]
	for _, c := range path[1:] {
		if sn == 0 {
			return false
		}
		if fn&1 == 1 || fn == sn {
			fr = nodeHash(c, fr)
			sr = nodeHash(c, sr)
			for fn&1 == 0 && fn != 0 {
				fn >>= 1
				sn >>= 1
			}
		} else {
			sr = nodeHash(sr, c)
		}
		fn >>= 1
		sn >>= 1
	}
	return sn == 0 && bytes.Equal(fr[:], root1) && bytes.Equal(sr[:], root2)
}

// VerifyInclusion checks PATH(i, D[n]) against root.
func VerifyInclusion(i, n uint64, leaf Hash, proof [][]byte, root []byte) bool {
	if i >= n {
		return false
	}
	fn, sn := i, n-1
	r := leaf
	for _, p := range proof {
		if len(p) != 32 || sn == 0 {
			return false
		}
		var c Hash
		copy(c[:], p)
		if fn&1 == 1 || fn == sn {
			r = nodeHash(c, r)
			for fn&1 == 0 && fn != 0 {
				fn >>= 1
				sn >>= 1
			}
		} else {
			r = nodeHash(r, c)
		}
		fn >>= 1
		sn >>= 1
	}
	return sn == 0 && bytes.Equal(r[:], root)
}
