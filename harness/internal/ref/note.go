package ref

import (
	"bytes"
	"crypto/ed25519"
	"crypto/sha256"
	"encoding/base64"
	"encoding/binary"
	"fmt"
	"strconv"
	"strings"
)

// Key algorithms of the signed-note ecosystem.
const (
	AlgEd25519  = 1
	AlgCosigV1  = 4
	sigPrefix   = "— "
	MaxNoteSigs = 100
)

// Key is an Ed25519 note key.
type Key struct {
	Name string
	Seed []byte
	Priv ed25519.PrivateKey
	Pub  ed25519.PublicKey
}

// NewKey derives a key deterministically from a label.
func NewKey(name, label string) *Key {
	seed := sha256.Sum256([]byte("verif-key/" + label))
	priv := ed25519.NewKeyFromSeed(seed[:])
	return &Key{Name: name, Seed: seed[:], Priv: priv, Pub: priv.Public().(ed25519.PublicKey)}
}

// KeyHash is the 4-byte key id of the note format for the given algorithm byte.
func (k *Key) KeyHash(alg byte) uint32 {
	h := sha256.New()
	h.Write([]byte(k.Name))
	h.Write([]byte("\n"))
	h.Write([]byte{alg})
	h.Write(k.Pub)
	return binary.BigEndian.Uint32(h.Sum(nil)[:4])
}

// VKey is the encoded verifier key (Ed25519 form, as configuration files carry it).
func (k *Key) VKey() string {
	return fmt.Sprintf("%s+%08x+%s", k.Name, k.KeyHash(AlgEd25519), base64.StdEncoding.EncodeToString(append([]byte{AlgEd25519}, k.Pub...)))
}

// SKey is the encoded signer key.
func (k *Key) SKey() string {
	return fmt.Sprintf("PRIVATE+KEY+%s+%08x+%s", k.Name, k.KeyHash(AlgEd25519), base64.StdEncoding.EncodeToString(append([]byte{AlgEd25519}, k.Seed...)))
}

// SigLine renders one signature line for raw signature bytes under the given algorithm.
func (k *Key) SigLine(alg byte, sig []byte) string {
	var hb [4]byte
	binary.BigEndian.PutUint32(hb[:], k.KeyHash(alg))
	return sigPrefix + k.Name + " " + base64.StdEncoding.EncodeToString(append(hb[:], sig...)) + "\n"
}

// SignLegacy returns the plain Ed25519 signature line over text.
func (k *Key) SignLegacy(text string) string {
	return k.SigLine(AlgEd25519, ed25519.Sign(k.Priv, []byte(text)))
}

// SignCosigV1 returns a cosignature/v1 line over text with timestamp t.
func (k *Key) SignCosigV1(text string, t uint64) string {
	msg := fmt.Sprintf("cosignature/v1\ntime %d\n%s", t, text)
	sig := make([]byte, 8, 8+64)
	binary.BigEndian.PutUint64(sig, t)
	sig = append(sig, ed25519.Sign(k.Priv, []byte(msg))...)
	return k.SigLine(AlgCosigV1, sig)
}

// Sig is one parsed signature line.
type Sig struct {
	Name string
	Hash uint32
	Raw  []byte // signature bytes after the key hash
	Line string
}

// Note is a parsed (not verified) signed note.
type Note struct {
	Text string
	Sigs []Sig
}

// ParseNote splits a note into text and signature lines; it accepts what the
// format allows and nothing else, but does not verify anything.
func ParseNote(msg []byte) (*Note, error) {
	split := bytes.LastIndex(msg, []byte("\n\n"))
	if split < 0 {
		return nil, fmt.Errorf("no signature block")
	}
	text, sigs := msg[:split+1], msg[split+2:]
	if len(sigs) == 0 || sigs[len(sigs)-1] != '\n' {
		return nil, fmt.Errorf("malformed signature block")
	}
	n := &Note{Text: string(text)}
	for _, line := range strings.Split(strings.TrimSuffix(string(sigs), "\n"), "\n") {
		if !strings.HasPrefix(line, sigPrefix) {
			return nil, fmt.Errorf("malformed signature line %q", line)
		}
		rest := line[len(sigPrefix):]
		name, b64, ok := strings.Cut(rest, " ")
		if !ok || name == "" {
			return nil, fmt.Errorf("malformed signature line %q", line)
		}
		raw, err := base64.StdEncoding.DecodeString(b64)
		if err != nil || len(raw) < 5 {
			return nil, fmt.Errorf("malformed signature %q", line)
		}
		n.Sigs = append(n.Sigs, Sig{Name: name, Hash: binary.BigEndian.Uint32(raw[:4]), Raw: raw[4:], Line: line + "\n"})
	}
	return n, nil
}

// VerifyLegacy reports whether s is a valid plain Ed25519 signature by k over text.
func (k *Key) VerifyLegacy(text string, s Sig) bool {
	return s.Name == k.Name && s.Hash == k.KeyHash(AlgEd25519) && len(s.Raw) == 64 && ed25519.Verify(k.Pub, []byte(text), s.Raw)
}

// VerifyCosigV1 reports whether s is a valid cosignature/v1 by k over text, and its timestamp.
func (k *Key) VerifyCosigV1(text string, s Sig) (bool, uint64) {
	if s.Name != k.Name || s.Hash != k.KeyHash(AlgCosigV1) || len(s.Raw) != 72 {
		return false, 0
	}
	t := binary.BigEndian.Uint64(s.Raw[:8])
	msg := fmt.Sprintf("cosignature/v1\ntime %d\n%s", t, text)
	return ed25519.Verify(k.Pub, []byte(msg), s.Raw[8:]), t
}

// Checkpoint is the parsed body of a checkpoint note.
type Checkpoint struct {
	Origin string
	Size   uint64
	Root   []byte
	Ext    string // everything after the third line
}

// ParseCheckpointText parses the three mandatory lines.
func ParseCheckpointText(text string) (*Checkpoint, error) {
	l := strings.SplitN(text, "\n", 4)
	if len(l) < 4 {
		return nil, fmt.Errorf("too few lines")
	}
	size, err := strconv.ParseUint(l[1], 10, 64)
	if err != nil {
		return nil, err
	}
	root, err := base64.StdEncoding.DecodeString(l[2])
	if err != nil {
		return nil, err
	}
	return &Checkpoint{Origin: l[0], Size: size, Root: root, Ext: l[3]}, nil
}

// CheckpointText renders a checkpoint body.
func CheckpointText(origin string, size uint64, root []byte, ext string) string {
	return fmt.Sprintf("%s\n%d\n%s\n%s", origin, size, base64.StdEncoding.EncodeToString(root), ext)
}

// LogID is the identifier the ecosystem derives from an origin (sha256("o:"+origin), hex).
func LogID(origin string) string {
	h := sha256.Sum256([]byte("o:" + origin))
	return fmt.Sprintf("%x", h[:])
}
